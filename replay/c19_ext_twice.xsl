<?xml version="1.0"?>
<xsl:stylesheet version="1.0" xmlns:xsl="http://www.w3.org/1999/XSL/Transform"
  xmlns:a="urn:ext" xmlns:b="urn:ext" extension-element-prefixes="a b">
<xsl:template match="/"><out><xsl:value-of select="count(//*)"/></out></xsl:template>
</xsl:stylesheet>
