#!/bin/bash
# strings that are not XSLT 1.0 patterns; each compiled without a message before the fix named
# usage: c09_bad_patterns.sh <build dir>     (prints what Xalan says for each)
B=${1:-/repo/_build}
D=$(mktemp -d)
echo '<r><e/></r>' > $D/in.xml
for p in '|e' 'e|' '|' '///e' "id('x')e" "key('k' = 'v')" "key('k','v' | 'w')"; do   # 3443050 x3, ecc572f, d8c97c4, db340fb x2
cat > $D/p.xsl <<X
<xsl:stylesheet version="1.0" xmlns:xsl="http://www.w3.org/1999/XSL/Transform"><xsl:output method="text"/>
<xsl:template match="$p">M</xsl:template></xsl:stylesheet>
X
printf "%-24s -> " "$p"; $B/src/xalanc/Xalan $D/in.xml $D/p.xsl 2>&1 | head -1; echo
done
rm -rf $D
