<xsl:stylesheet version="1.0" xmlns:xsl="http://www.w3.org/1999/XSL/Transform">
<xsl:output method="text"/>
<xsl:template match="/">[<xsl:number level="any" from="h" count="node()"/>]</xsl:template>
</xsl:stylesheet>
