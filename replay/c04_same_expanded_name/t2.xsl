<xsl:stylesheet version="1.0" xmlns:xsl="http://www.w3.org/1999/XSL/Transform" xmlns:p="urn:x" xmlns:q="urn:x">
<xsl:template match="/">
<out p:a="1">
  <xsl:attribute name="q:a">2</xsl:attribute>
</out>
</xsl:template>
</xsl:stylesheet>
