<xsl:stylesheet version="1.0" xmlns:xsl="http://www.w3.org/1999/XSL/Transform" xmlns:p="urn:x" xmlns:q="urn:y">
<xsl:template match="/">
<out p:a="1" q:a="3" a="4" p:b="5">
  <xsl:attribute name="p:a">2</xsl:attribute>
  <xsl:attribute name="z:b" namespace="urn:x">6</xsl:attribute>
  <xsl:attribute name="xml:a">7</xsl:attribute>
</out>
</xsl:template>
</xsl:stylesheet>
