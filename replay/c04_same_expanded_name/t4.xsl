<xsl:stylesheet version="1.0" xmlns:xsl="http://www.w3.org/1999/XSL/Transform">
<xsl:template match="/">
<out><xsl:copy-of select="doc/e/@*"/><xsl:copy-of select="doc/f/@*"/></out>
</xsl:template>
</xsl:stylesheet>
