<xsl:stylesheet version="1.0" xmlns:xsl="http://www.w3.org/1999/XSL/Transform">
<xsl:template match="/">
<out>
  <xsl:attribute name="p:a" namespace="urn:x">1</xsl:attribute>
  <xsl:attribute name="q:a" namespace="urn:x">2</xsl:attribute>
</out>
</xsl:template>
</xsl:stylesheet>
