<xsl:stylesheet version="1.0" xmlns:xsl="http://www.w3.org/1999/XSL/Transform">
<xsl:output method="text"/>
<xsl:template match="/"><xsl:apply-templates select="doc/a"/></xsl:template>
<xsl:template match="a | *[@k]">U </xsl:template>
<xsl:template match="a" priority="0.25">P </xsl:template>
</xsl:stylesheet>
