<xsl:stylesheet version="1.0" xmlns:xsl="http://www.w3.org/1999/XSL/Transform">
<xsl:output method="xml" encoding="ISO-8859-1" cdata-section-elements="n m k"/>
<xsl:template match="/"><out><n>price &#8364;</n><m>&#8364; x</m><k>a]]&gt;&#8364;]]&gt;b</k></out></xsl:template>
</xsl:stylesheet>
