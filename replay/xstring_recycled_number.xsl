<xsl:stylesheet version="1.0" xmlns:xsl="http://www.w3.org/1999/XSL/Transform" xmlns:str="http://exslt.org/strings">
<xsl:output method="text"/>
<xsl:template match="/">
<xsl:call-template name="t1"/>|<xsl:call-template name="t2"/>|<xsl:value-of select="number(str:padding(2,'1'))"/>,<xsl:value-of select="number(str:padding(1,'7'))"/>,<xsl:value-of select="str:padding(1,'7') + 1"/>
</xsl:template>
<xsl:template name="t1"><xsl:variable name="a" select="'12'"/><xsl:value-of select="$a + 1"/></xsl:template>
<xsl:template name="t2"><xsl:variable name="b" select="'7'"/><xsl:value-of select="$b + 1"/></xsl:template>
</xsl:stylesheet>
