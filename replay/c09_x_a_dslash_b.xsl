<xsl:stylesheet version="1.0" xmlns:xsl="http://www.w3.org/1999/XSL/Transform">
<xsl:output method="text"/>
<xsl:template match="/">select /x/a//b: <xsl:value-of select="count(/x/a//b)"/>; template: <xsl:apply-templates select="//b"/></xsl:template>
<xsl:template match="/x/a//b">FIRED</xsl:template>
<xsl:template match="b">not matched</xsl:template>
</xsl:stylesheet>
