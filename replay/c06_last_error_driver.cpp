// replay for C06-R5: getLastError() after a successful transformation that follows a failed one
#include <cstdio>
#include <cstring>
#include <sstream>
#include <xercesc/util/PlatformUtils.hpp>
#include <xalanc/XalanTransformer/XalanTransformer.hpp>
using namespace xalanc;
int main()
{
    xercesc::XMLPlatformUtils::Initialize();
    XalanTransformer::initialize();
    int rc = 0;
    {
        XalanTransformer t;
        std::istringstream xml("<doc/>");
        const XalanParsedSource* src = 0;
        t.parseSource(XSLTInputSource(xml), src);
        std::istringstream bad("<xsl:stylesheet version='1.0' xmlns:xsl='http://www.w3.org/1999/XSL/Transform'><xsl:template match='/'><xsl:message terminate='yes'>STOP-HERE</xsl:message></xsl:template></xsl:stylesheet>");
        std::istringstream good("<xsl:stylesheet version='1.0' xmlns:xsl='http://www.w3.org/1999/XSL/Transform'><xsl:template match='/'><ok/></xsl:template></xsl:stylesheet>");
        const XalanCompiledStylesheet *cb = 0, *cg = 0;
        t.compileStylesheet(XSLTInputSource(bad), cb);
        t.compileStylesheet(XSLTInputSource(good), cg);
        std::ostringstream o1, o2;
        int r1 = t.transform(*src, cb, XSLTResultTarget(o1));
        std::printf("first: status %d, last error '%s'\n", r1, t.getLastError());
        int r2 = t.transform(*src, cg, XSLTResultTarget(o2));
        std::printf("second: status %d, last error '%s'\n", r2, t.getLastError());
        rc = (r2 == 0 && std::strlen(t.getLastError()) != 0) ? 1 : 0;
    }
    XalanTransformer::terminate();
    return rc;
}
