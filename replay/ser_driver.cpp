// Replay driver: feeds a FormatterListener event script to the serializer returned by
// XalanXMLSerializerFactory (public API) and prints the bytes written, or the exception message.
//   ser_driver <version 1.0|1.1> <event> <hex-utf16-units...>
//   events: chars | cdata | comment | cdata1 (cdata with length 1 on a longer buffer)
#include <xalanc/Include/PlatformDefinitions.hpp>
#include <xercesc/util/PlatformUtils.hpp>
#include <xalanc/XalanTransformer/XalanTransformer.hpp>
#include <xalanc/XMLSupport/XalanXMLSerializerFactory.hpp>
#include <xalanc/PlatformSupport/FormatterListener.hpp>
#include <xalanc/PlatformSupport/XalanOutputStreamPrintWriter.hpp>
#include <xalanc/PlatformSupport/XalanStdOutputStream.hpp>
#include <xalanc/PlatformSupport/AttributeListImpl.hpp>
#include <xalanc/PlatformSupport/XSLException.hpp>
#include <iostream>
#include <xercesc/sax/SAXException.hpp>
#include <sstream>
#include <vector>
#include <cstdlib>
#include <cstring>
using namespace xalanc;
int main(int argc, char** argv)
{
    xercesc::XMLPlatformUtils::Initialize();
    XalanTransformer::initialize();
    int rc = 0;
    {
        MemoryManager& mm = XalanMemMgrs::getDefaultXercesMemMgr();
        std::ostringstream os;
        XalanStdOutputStream out(os, mm);
        XalanOutputStreamPrintWriter pw(out);
        XalanDOMString ver(argv[1], mm), enc("UTF-8", mm), empty(mm);
        FormatterListener* fl = XalanXMLSerializerFactory::create(mm, pw, ver, false, 0, enc, empty, empty, empty, false, empty);
        std::vector<XalanDOMChar> buf;
        for (int i = 3; i < argc; ++i) buf.push_back((XalanDOMChar)strtoul(argv[i], 0, 16));
        size_t n = buf.size();
        buf.push_back(0);
        AttributeListImpl atts(mm);
        XalanDOMString e("e", mm);
        try {
            fl->startDocument();
            fl->startElement(e.c_str(), atts);
            if (!strcmp(argv[2], "chars")) fl->characters(&buf[0], n);
            else if (!strcmp(argv[2], "cdata")) fl->cdata(&buf[0], n);
            else if (!strcmp(argv[2], "cdata1")) fl->cdata(&buf[0], 1);
            else if (!strcmp(argv[2], "comment")) fl->comment(&buf[0]);
            fl->endElement(e.c_str());
            fl->endDocument();
            pw.flush();
        } catch (const xercesc::SAXException&) { std::cout << "SAXException" << std::endl; rc = 4;
        } catch (const XSLException& ex) {
            std::cout << "XSLException" << std::endl; rc = 3;
        }
        std::string s = os.str();
        for (unsigned char c : s) { if (c < 0x20 || c > 0x7e) printf("\\x%02x", c); else putchar(c); }
        putchar('\n');
    }
    XalanTransformer::terminate();
    xercesc::XMLPlatformUtils::Terminate();
    return rc;
}
