<xsl:stylesheet version="1.0" xmlns:xsl="http://www.w3.org/1999/XSL/Transform">
<xsl:output method="xml" indent="yes" cdata-section-elements="code"/>
<xsl:template match="/"><out><code>a &lt; b<b/></code><p><xsl:value-of disable-output-escaping="yes" select="'raw'"/><b/></p><q>plain<b/></q></out></xsl:template>
</xsl:stylesheet>
