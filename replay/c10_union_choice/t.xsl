<xsl:stylesheet version="1.0" xmlns:xsl="http://www.w3.org/1999/XSL/Transform">
<xsl:output method="text"/>
<xsl:template match="/"><xsl:apply-templates select="a/b"/></xsl:template>
<xsl:template match="*|b[1]">T1 </xsl:template>
<xsl:template match="*">T2 </xsl:template>
</xsl:stylesheet>
