<xsl:stylesheet version="1.0" xmlns:xsl="http://www.w3.org/1999/XSL/Transform">
<xsl:template match="/"><out a="p&#x9f;q&#x2028;r">a&#x9f;b&#x2028;c&#x9e;d</out></xsl:template>
</xsl:stylesheet>
