// FormatterToXML used directly as the result target (as in the library's samples): a CR in a text node
#include <xalanc/Include/PlatformDefinitions.hpp>
#include <xercesc/util/PlatformUtils.hpp>
#include <xalanc/XalanTransformer/XalanTransformer.hpp>
#include <xalanc/XMLSupport/FormatterToXML.hpp>
#include <xalanc/PlatformSupport/XalanOutputStreamPrintWriter.hpp>
#include <xalanc/PlatformSupport/XalanStdOutputStream.hpp>
#include <xalanc/XSLT/XSLTResultTarget.hpp>
#include <iostream>
#include <sstream>
using namespace xalanc;
int main(int argc, char** argv)
{
    xercesc::XMLPlatformUtils::Initialize();
    XalanTransformer::initialize();
    int rc = 0;
    {
        XalanTransformer t;
        XalanStdOutputStream out(std::cout);
        XalanOutputStreamPrintWriter pw(out);
        XalanDOMString enc("UTF-8");
        FormatterToXML f(pw, XalanDOMString(argc > 3 ? argv[3] : "1.0"), false, 0, enc);
        XSLTResultTarget target(f);
        rc = t.transform(XSLTInputSource(argv[1]), XSLTInputSource(argv[2]), target);
        if (rc != 0) std::cerr << "error: " << t.getLastError() << std::endl;
    }
    XalanTransformer::terminate();
    xercesc::XMLPlatformUtils::Terminate();
    return rc;
}
