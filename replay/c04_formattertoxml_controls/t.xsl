<xsl:stylesheet version="1.0" xmlns:xsl="http://www.w3.org/1999/XSL/Transform">
<xsl:template match="/"><out>a&#13;b&#9;c</out></xsl:template>
</xsl:stylesheet>
