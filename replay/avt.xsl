<xsl:stylesheet version="1.0" xmlns:xsl="http://www.w3.org/1999/XSL/Transform">
<xsl:output method="xml" omit-xml-declaration="yes"/>
<xsl:template match="/"><o a="pre-{'y'}-post" b="pre-{12}-post" c="x{name(*)}y" d="{{lit}}-{name(*)}" e="a{1}b{2}c"/></xsl:template>
</xsl:stylesheet>
