<xsl:stylesheet version="1.0" xmlns:xsl="http://www.w3.org/1999/XSL/Transform">
<xsl:output method="xml" encoding="UTF-16BE"/>
<xsl:template match="/"><out a="&#x20AC;"><xsl:value-of select="r"/>&#x1D11E;</out></xsl:template>
</xsl:stylesheet>
