<xsl:stylesheet version="1.0" xmlns:xsl="http://www.w3.org/1999/XSL/Transform">
<xsl:output method="text"/>
<xsl:template match="/">select:<xsl:value-of select="count(/a//b)"/> match:<xsl:apply-templates select="//b"/></xsl:template>
<xsl:template match="/a//b">FIRED</xsl:template>
<xsl:template match="b">no</xsl:template>
</xsl:stylesheet>
