<xsl:stylesheet version="1.0" xmlns:xsl="http://www.w3.org/1999/XSL/Transform">
<xsl:output method="text"/>
<xsl:key name="k" match="i" use="@k"/>
<xsl:template match="/">one=<xsl:for-each select="key('k', doc/v[1])"><xsl:value-of select="@id"/></xsl:for-each> str=<xsl:for-each select="key('k', '')"><xsl:value-of select="@id"/></xsl:for-each> two-empty=<xsl:for-each select="key('k', doc/v[not(text())])"><xsl:value-of select="@id"/></xsl:for-each> all=<xsl:for-each select="key('k', doc/v)"><xsl:value-of select="@id"/></xsl:for-each></xsl:template>
</xsl:stylesheet>
