<xsl:stylesheet version="1.0" xmlns:xsl="http://www.w3.org/1999/XSL/Transform">
<xsl:template match="/"><out><xsl:attribute name="p:ok" namespace="urn:p">1</xsl:attribute><xsl:attribute name="q:ok2" namespace="urn:q">2</xsl:attribute><c/></out></xsl:template>
</xsl:stylesheet>
