<xsl:stylesheet version="1.0" xmlns:xsl="http://www.w3.org/1999/XSL/Transform">
<xsl:template match="/"><out><first><child/><xsl:attribute name="p:late" namespace="urn:p">1</xsl:attribute><xsl:attribute name="plain">2</xsl:attribute></first><second/></out></xsl:template>
</xsl:stylesheet>
