<xsl:stylesheet version="1.0" xmlns:xsl="http://www.w3.org/1999/XSL/Transform">
<xsl:output method="text"/>
<xsl:template match="/">[<xsl:value-of select="substring('12345', -1 div 0)"/>][<xsl:value-of select="substring('12345', -1 div 0, 1 div 0)"/>][<xsl:value-of select="substring('12345', 0 div 0, 3)"/>][<xsl:value-of select="substring('12345', 1.5, 2.6)"/>][<xsl:value-of select="substring('12345', 0, 3)"/>][<xsl:value-of select="substring('12345', -42, 1 div 0)"/>][<xsl:value-of select="substring('12345', -1 div 0, 3)"/>]</xsl:template>
</xsl:stylesheet>
