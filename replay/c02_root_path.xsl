<xsl:stylesheet version="1.0" xmlns:xsl="http://www.w3.org/1999/XSL/Transform">
<xsl:output method="text"/>
<!-- before 29decd0+1: XPath error "The token '|' was unexpected" for the first three; count(r/) accepted (prints 1) -->
<xsl:template match="/">
<xsl:value-of select="count(/ | //e)"/>,<xsl:value-of select="/ = 'x'"/>,<xsl:value-of select="concat(/, 'x')"/>
</xsl:template>
</xsl:stylesheet>
