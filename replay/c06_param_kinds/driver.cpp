// setStylesheetParam(name, expression) followed by setStylesheetParam(name, number): the number must be used (XalanTransformer: "the last setting wins")
#include <xalanc/Include/PlatformDefinitions.hpp>
#include <xercesc/util/PlatformUtils.hpp>
#include <xalanc/XalanTransformer/XalanTransformer.hpp>
#include <sstream>
#include <iostream>
using namespace xalanc;
int main()
{
    xercesc::XMLPlatformUtils::Initialize();
    XalanTransformer::initialize();
    int rc = 0;
    {
        XalanTransformer t;
        const char* xsl = "<xsl:stylesheet version='1.0' xmlns:xsl='http://www.w3.org/1999/XSL/Transform'><xsl:output method='text'/><xsl:param name='p'/><xsl:template match='/'><xsl:value-of select='$p'/></xsl:template></xsl:stylesheet>";
        const char* xml = "<r/>";
        t.setStylesheetParam("p", "'expression'");
        t.setStylesheetParam("p", 42.0);
        std::istringstream x1(xml), s1(xsl); std::ostringstream o1;
        t.transform(XSLTInputSource(x1), XSLTInputSource(s1), XSLTResultTarget(o1));
        std::cout << "expression then number: " << o1.str() << " (required 42)" << std::endl;
        if (o1.str() != "42") rc = 1;
        t.setStylesheetParam("p", "'again'");
        std::istringstream x2(xml), s2(xsl); std::ostringstream o2;
        t.transform(XSLTInputSource(x2), XSLTInputSource(s2), XSLTResultTarget(o2));
        std::cout << "number then expression: " << o2.str() << " (required again)" << std::endl;
        if (o2.str() != "again") rc = 1;
    }
    XalanTransformer::terminate();
    xercesc::XMLPlatformUtils::Terminate();
    return rc;
}
