<?xml version="1.0"?>
<xsl:stylesheet version="1.0" xmlns:xsl="http://www.w3.org/1999/XSL/Transform" xmlns:str="http://exslt.org/strings" xmlns:xalan="http://xml.apache.org/xalan" exclude-result-prefixes="str xalan">
<xsl:include href="inc.xsl"/>
<xsl:output method="html" indent="yes"/>
<xsl:param name="p" select="'d'"/>
<xsl:key name="k" match="b" use="."/>
<xsl:decimal-format name="df" decimal-separator=","/>
<xsl:variable name="v"><x>1</x><y>2</y></xsl:variable>
<xsl:attribute-set name="as"><xsl:attribute name="a">1</xsl:attribute></xsl:attribute-set>
<xsl:template match="/"><html><body xsl:use-attribute-sets="as"><xsl:call-template name="inc"/>
<xsl:for-each select="a/*"><xsl:sort select="." lang="en" data-type="text"/><p n="{name()}"><xsl:value-of select="concat(., count(key('k','1')), $p)"/><xsl:apply-templates select="." mode="m"><xsl:with-param name="q" select="1"/></xsl:apply-templates></p></xsl:for-each>
<xsl:number value="3" format="I"/><xsl:value-of select="format-number(1234.5,'#.##0,00','df')"/><xsl:value-of select="count(xalan:nodeset($v)/*)"/><xsl:value-of select="str:padding(3,'ab')"/>
<xsl:copy-of select="document('d.xml')/a/b"/><xsl:comment>c</xsl:comment><xsl:value-of select="generate-id(a)"/><xsl:message>m</xsl:message>
</body></html></xsl:template>
<xsl:template match="*" mode="m"><xsl:param name="q"/><xsl:element name="e{$q}"><xsl:copy/></xsl:element></xsl:template>
</xsl:stylesheet>
