// Replay for C12-R7: document order in a Xerces DOM wrapped on demand (no node indexes).
// build: g++ -std=gnu++17 -I/repo/src -I/repo/_build/src -I/repo/_build/src/xalanc/PlatformSupport c12_unindexed_driver.cpp -o c12_unindexed_driver \
//        -L/repo/_build/src/xalanc -lxalan-c -L/repo/_build/src/xalanc/Utils/MsgCreator -lxerces-c -Wl,-rpath,/repo/_build/src/xalanc
// run:   ./c12_unindexed_driver doc.xml "<expression>"   prints the names of the selected nodes in the order delivered
#include <iostream>
#include <xercesc/util/PlatformUtils.hpp>
#include <xercesc/framework/LocalFileInputSource.hpp>
#include <xalanc/PlatformSupport/XSLException.hpp>
#include <xalanc/DOMSupport/XalanDocumentPrefixResolver.hpp>
#include <xalanc/DOMSupport/DOMServices.hpp>
#include <xalanc/XPath/XObject.hpp>
#include <xalanc/XPath/NodeRefListBase.hpp>
#include <xalanc/XPath/XPathEvaluator.hpp>
#include <xalanc/XercesParserLiaison/XercesDOMSupport.hpp>
#include <xalanc/XercesParserLiaison/XercesParserLiaison.hpp>
#include <xalanc/XalanDOM/XalanDocument.hpp>
#include <xalanc/XalanDOM/XalanNode.hpp>
#include <xalanc/XalanTransformer/XalanTransformer.hpp>

int main(int argc, char* argv[])
{
    using namespace xalanc;
    xercesc::XMLPlatformUtils::Initialize();
    XalanTransformer::initialize();
    int rc = 0;
    {
        XercesParserLiaison     theLiaison;
        XercesDOMSupport        theDOMSupport(theLiaison);
        theLiaison.setBuildWrapperNodes(false);     // wrap nodes on demand: the document has no node indexes
        theLiaison.setBuildMaps(true);
        const XalanDOMString    theFileName(argv[1]);
        const xercesc::LocalFileInputSource  theInputSource(theFileName.c_str());
        XalanDocument* const    theDocument = theLiaison.parseXMLStream(theInputSource);
        std::cout << "indexed: " << theDocument->isIndexed() << std::endl;
        XalanDocumentPrefixResolver     thePrefixResolver(theDocument);
        XPathEvaluator  theEvaluator;
        const XObjectPtr    theResult(theEvaluator.evaluate(theDOMSupport, theDocument, XalanDOMString(argv[2]).c_str(), thePrefixResolver));
        const NodeRefListBase&  nl = theResult->nodeset();
        for (NodeRefListBase::size_type i = 0; i < nl.getLength(); ++i)
        {
            const XalanNode* n = nl.item(i);
            std::cout << n->getNodeName() << "[" << n->getNodeValue() << "] ";
        }
        std::cout << std::endl;
    }
    XalanTransformer::terminate();
    xercesc::XMLPlatformUtils::Terminate();
    return rc;
}
