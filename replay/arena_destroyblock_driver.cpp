// replay for C19-R6: ReusableArenaAllocator with destroyBlocks = true drops blocks without returning them to the manager
#include <cstdio>
#include <cstdlib>
#include <xercesc/util/PlatformUtils.hpp>
#include <xercesc/framework/MemoryManager.hpp>
#include <xalanc/Include/PlatformDefinitions.hpp>
#include <xalanc/XalanDOM/XalanDOMString.hpp>
#include <xalanc/PlatformSupport/ReusableArenaAllocator.hpp>

using namespace xalanc;

struct Counting : public xercesc::MemoryManager
{
    long live; long total;
    Counting() : live(0), total(0) {}
    void* allocate(XMLSize_t n) { ++live; ++total; return std::malloc(n); }
    void deallocate(void* p) { if (p) { --live; std::free(p); } }
    xercesc::MemoryManager* getExceptionMemoryManager() { return this; }
};

int main()
{
    xercesc::XMLPlatformUtils::Initialize();
    Counting mm;
    for (int destroyBlocks = 0; destroyBlocks < 2; ++destroyBlocks)
    {
        const long before = mm.live;
        {
            ReusableArenaAllocator<XalanDOMString> a(mm, 2, destroyBlocks != 0);
            XalanDOMString* p[6];
            for (int i = 0; i < 6; ++i) { p[i] = a.allocateBlock(); new (p[i]) XalanDOMString(mm); a.commitAllocation(p[i]); }
            for (int i = 0; i < 6; ++i) a.destroyObject(p[i]);
        }
        std::printf("destroyBlocks=%d blocks-not-returned=%ld\n", destroyBlocks, mm.live - before);
    }
    return 0;
}
