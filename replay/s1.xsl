<?xml version="1.0"?>
<xsl:stylesheet version="1.0" xmlns:xsl="http://www.w3.org/1999/XSL/Transform">
<xsl:key name="k" match="b" use="."/>
<xsl:variable name="v"><x>1</x></xsl:variable>
<xsl:template match="/"><out><xsl:for-each select="a/*"><xsl:sort select="."/><e n="{name()}"><xsl:value-of select="concat(., count(key('k','1')), $v)"/></e></xsl:for-each><xsl:number value="3"/></out></xsl:template>
</xsl:stylesheet>
