<xsl:stylesheet version="1.0" xmlns:xsl="http://www.w3.org/1999/XSL/Transform">
<xsl:output method="text"/>
<xsl:template match="/"><xsl:for-each select="//@k"><xsl:number/>,</xsl:for-each></xsl:template>
</xsl:stylesheet>
