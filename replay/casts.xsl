<xsl:stylesheet version="1.0" xmlns:xsl="http://www.w3.org/1999/XSL/Transform" xmlns:str="http://exslt.org/strings" xmlns:math="http://exslt.org/math">
<xsl:output method="text"/>
<xsl:template match="/">
p1=[<xsl:value-of select="str:padding(-5,'x')"/>] p2=[<xsl:value-of select="str:padding(number('x'),'xy')"/>] p3=[<xsl:value-of select="str:padding(5,'xy')"/>] p4=[<xsl:value-of select="str:padding(3)"/>]
pi100=<xsl:value-of select="math:constant('PI',100)"/> piNaN=<xsl:value-of select="math:constant('PI',number('x'))"/> pi3=<xsl:value-of select="math:constant('PI',3)"/> pi16=<xsl:value-of select="math:constant('PI',16)"/> pi17=<xsl:value-of select="math:constant('PI',17)"/>
s1=[<xsl:value-of select="substring('12345', 1000000000000000000000000000000)"/>] s2=[<xsl:value-of select="substring('12345', 2, 1000000000000000000000000000000)"/>] s3=[<xsl:value-of select="substring('12345', 2, 3)"/>] s4=[<xsl:value-of select="substring('12345', 0, 3)"/>] s5=[<xsl:value-of select="substring('12345', 1.5, 2.6)"/>] s6=[<xsl:value-of select="substring('12345', -42, 1 div 0)"/>] s7=[<xsl:value-of select="substring('12345', 5)"/>] s8=[<xsl:value-of select="substring('12345', 6)"/>] s9=[<xsl:value-of select="substring('12345', 4, 2)"/>] s10=[<xsl:value-of select="substring('12345', 4, 3)"/>]
pr1=[<xsl:value-of select="/a/*[1000000000000000000000000000000]"/>] pr2=[<xsl:value-of select="/a/*[2]"/>] pr3=[<xsl:value-of select="/a/*[3]"/>] pr4=[<xsl:value-of select="/a/*[1.5]"/>]
n1=[<xsl:number value="1000000000000000000000000000000"/>] n2=[<xsl:number value="12"/>] n3=[<xsl:number value="18446744073709551615"/>]
v1=<xsl:value-of select="9223372036854775807"/> v2=<xsl:value-of select="-9223372036854775808"/> v3=<xsl:value-of select="92233720368547758080"/> v4=<xsl:value-of select="123456789"/>
</xsl:template></xsl:stylesheet>
