<xsl:stylesheet version="1.0" xmlns:xsl="http://www.w3.org/1999/XSL/Transform"><xsl:output method="text"/>
<!-- not an XPath expression; before 27382f3: accepted, with the run-time warning "The variable '/' is not defined." -->
<xsl:template match="/"><xsl:value-of select="count($//.)"/></xsl:template></xsl:stylesheet>
