<xsl:stylesheet version="1.0" xmlns:xsl="http://www.w3.org/1999/XSL/Transform"><xsl:output method="text"/>
<xsl:template match="/"><xsl:for-each select="//b[@id='x']">[<xsl:number level="single" count="a" from="c"/>] multiple:[<xsl:number level="multiple" count="a" from="c"/>]</xsl:for-each>
</xsl:template></xsl:stylesheet>
