<?xml version="1.0"?>
<xsl:stylesheet version="1.0"
    xmlns:xsl="http://www.w3.org/1999/XSL/Transform">

  <!-- Included into main.xsl: same import precedence as main.xsl, and
       positioned where the xsl:include element stands, i.e. BEFORE the
       mode m4 rules of main.xsl. -->
  <xsl:template match="d" priority="-0.5" mode="m4">inc:d</xsl:template>

</xsl:stylesheet>
