<?xml version="1.0"?>
<xsl:stylesheet version="1.0"
    xmlns:xsl="http://www.w3.org/1999/XSL/Transform">

  <!-- Imported by main.xsl (lower import precedence).  main.xsl has no
       rule in mode m5 and only an apply-imports rule in mode m5i, so the
       conflict is resolved among the rules of this stylesheet. -->
  <xsl:template match="e" mode="m5">imp:e</xsl:template>
  <xsl:template match="*" priority="0" mode="m5">imp:*(priority=0)</xsl:template>

  <xsl:template match="doc/e" mode="m5i">imp:doc/e</xsl:template>
  <xsl:template match="node()[not(@k)]" mode="m5i">imp:node()[not(@k)]</xsl:template>

</xsl:stylesheet>
