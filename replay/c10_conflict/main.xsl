<?xml version="1.0"?>
<xsl:stylesheet version="1.0"
    xmlns:xsl="http://www.w3.org/1999/XSL/Transform"
    xmlns:n="urn:seed:n">

  <xsl:import href="imp.xsl"/>

  <xsl:output method="text"/>

  <!-- Driver: one line per case, "<case> <label of the rule chosen>". -->
  <xsl:template match="/">
    <xsl:text>case1 </xsl:text><xsl:apply-templates select="doc/sec/a" mode="m1"/><xsl:text>&#10;</xsl:text>
    <xsl:text>case2 </xsl:text><xsl:apply-templates select="doc/b" mode="m2"/><xsl:text>&#10;</xsl:text>
    <xsl:text>case3 </xsl:text><xsl:apply-templates select="doc/c/@id" mode="m3"/><xsl:text>&#10;</xsl:text>
    <xsl:text>case4 </xsl:text><xsl:apply-templates select="doc/d" mode="m4"/><xsl:text>&#10;</xsl:text>
    <xsl:text>case4c </xsl:text><xsl:apply-templates select="doc/d2" mode="m4"/><xsl:text>&#10;</xsl:text>
    <xsl:text>case5 </xsl:text><xsl:apply-templates select="doc/e" mode="m5"/><xsl:text>&#10;</xsl:text>
    <xsl:text>case5i </xsl:text><xsl:apply-templates select="doc/e" mode="m5i"/><xsl:text>&#10;</xsl:text>
    <xsl:text>case6f </xsl:text><xsl:apply-templates select="doc/f" mode="m6"/><xsl:text>&#10;</xsl:text>
    <xsl:text>case6h </xsl:text><xsl:apply-templates select="doc/g/h" mode="m6"/><xsl:text>&#10;</xsl:text>
    <xsl:text>case7 </xsl:text><xsl:apply-templates select="doc/n:q" mode="m7"/><xsl:text>&#10;</xsl:text>
    <xsl:text>case8 </xsl:text><xsl:apply-templates select="doc/r" mode="m8"/><xsl:text>&#10;</xsl:text>
    <xsl:text>case9 </xsl:text><xsl:apply-templates select="doc/s" mode="m9"/><xsl:text>&#10;</xsl:text>
  </xsl:template>

  <!-- case1: two default priorities of 0.5; the later rule must win. -->
  <xsl:template match="sec/a" mode="m1">sec/a</xsl:template>
  <xsl:template match="*[@k]" mode="m1">*[@k]</xsl:template>

  <!-- case2: explicit priority 0 on a wildcard equals the default of a name test. -->
  <xsl:template match="b" mode="m2">b</xsl:template>
  <xsl:template match="*" priority="0" mode="m2">*(priority=0)</xsl:template>

  <!-- case3: same as case1, for attributes. -->
  <xsl:template match="c/@id" mode="m3">c/@id</xsl:template>
  <xsl:template match="@*[. = '7']" mode="m3">@*[.='7']</xsl:template>

  <!-- case4: equal priorities across an include.  inc.xsl holds
       d (priority -0.5) and node() for d2's control; see inc.xsl. -->
  <xsl:include href="inc.xsl"/>
  <xsl:template match="node()" mode="m4">main:node()</xsl:template>
  <xsl:template match="d2" priority="-0.5" mode="m4">main:d2</xsl:template>

  <!-- case5i: a rule of the importing stylesheet hands over to the imported ones. -->
  <xsl:template match="e" mode="m5i">main:e+<xsl:apply-imports/></xsl:template>

  <!-- case6: a union whose alternatives have default priorities 0 and 0.5. -->
  <xsl:template match="*" priority="0" mode="m6">*(priority=0)</xsl:template>
  <xsl:template match="f | g/h" mode="m6">f|g/h</xsl:template>
  <xsl:template match="*[@k]" mode="m6">*[@k]</xsl:template>

  <!-- case7: default priority -0.25 (ns:*) against an explicit -0.25. -->
  <xsl:template match="n:q" priority="-0.25" mode="m7">n:q(priority=-0.25)</xsl:template>
  <xsl:template match="n:*" mode="m7">n:*</xsl:template>

  <!-- case8 (control): the wildcard comes FIRST, so the named rule wins. -->
  <xsl:template match="*" priority="0" mode="m8">*(priority=0)</xsl:template>
  <xsl:template match="r" mode="m8">r</xsl:template>

  <!-- case9 (control): different priorities; position is irrelevant. -->
  <xsl:template match="s" mode="m9">s</xsl:template>
  <xsl:template match="*" mode="m9">*</xsl:template>

</xsl:stylesheet>
