<xsl:stylesheet version="1.0" xmlns:xsl="http://www.w3.org/1999/XSL/Transform"><xsl:output method="html" encoding="US-ASCII"/>
<xsl:template match="/"><html><body><p title="x&#x20BB7;y&#x1F600;">x&#x20BB7;y&#x1F600;</p></body></html></xsl:template></xsl:stylesheet>
