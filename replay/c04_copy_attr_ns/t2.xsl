<xsl:stylesheet version="1.0" xmlns:xsl="http://www.w3.org/1999/XSL/Transform">
<xsl:template match="/"><out><xsl:for-each select="r/e/@*"><xsl:copy/></xsl:for-each></out></xsl:template>
</xsl:stylesheet>
