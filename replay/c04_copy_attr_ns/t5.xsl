<xsl:stylesheet version="1.0" xmlns:xsl="http://www.w3.org/1999/XSL/Transform">
<xsl:template match="/"><out xmlns:q="urn:other"><q:f><xsl:copy-of select="r/e/@*"/></q:f></out></xsl:template>
</xsl:stylesheet>
