<xsl:stylesheet version="1.0" xmlns:xsl="http://www.w3.org/1999/XSL/Transform" xmlns:q="urn:q" exclude-result-prefixes="q">
<xsl:template match="/"><out><xsl:copy-of select="r/e/@q:id"/></out></xsl:template>
</xsl:stylesheet>
