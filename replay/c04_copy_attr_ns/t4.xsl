<xsl:stylesheet version="1.0" xmlns:xsl="http://www.w3.org/1999/XSL/Transform">
<xsl:template match="/"><out><xsl:copy-of select="r/e"/><xsl:apply-templates select="r/e"/></out></xsl:template>
<xsl:template match="e"><xsl:copy><xsl:copy-of select="@*"/><x q:id="1" xmlns:q="urn:z"><xsl:copy-of select="@*"/></x></xsl:copy></xsl:template>
</xsl:stylesheet>
