<xsl:stylesheet version="1.0" xmlns:xsl="http://www.w3.org/1999/XSL/Transform">
<xsl:template match="/"><out xmlns:q="urn:other"><in><xsl:copy-of select="r/e/@*"/></in><in2 xmlns:q="urn:q"><xsl:copy-of select="r/e/@*"/></in2></out></xsl:template>
</xsl:stylesheet>
