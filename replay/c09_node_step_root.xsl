<xsl:stylesheet version="1.0" xmlns:xsl="http://www.w3.org/1999/XSL/Transform"><xsl:output method="text"/>
<!-- r is the document element: it is not a grandchild of the root, so /node()/r must not match it.  Printed [M:r] before eb9580b -->
<xsl:template match="/node()/r" priority="5">[M:<xsl:value-of select="name()"/>]</xsl:template>
<xsl:template match="/|*"><xsl:apply-templates select="*"/></xsl:template>
</xsl:stylesheet>
