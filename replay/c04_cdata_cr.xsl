<xsl:stylesheet version="1.0" xmlns:xsl="http://www.w3.org/1999/XSL/Transform">
<xsl:output method="xml" cdata-section-elements="n"/>
<xsl:template match="/"><out><n>a&#13;b&#13;</n></out></xsl:template>
</xsl:stylesheet>
