<?xml version="1.0"?>
<xsl:stylesheet version="1.0" xmlns:xsl="http://www.w3.org/1999/XSL/Transform">
<xsl:output method="text"/>
<xsl:template match="/">
<xsl:variable name="x" select="3"/>
<xsl:variable name="nan" select="number('x')"/>
<xsl:variable name="ns" select="/a/*"/>
<xsl:variable name="s" select="'abc'"/>
x&lt;=x:<xsl:value-of select="$x &lt;= $x"/> x&gt;=x:<xsl:value-of select="$x &gt;= $x"/> x=x:<xsl:value-of select="$x = $x"/> x!=x:<xsl:value-of select="$x != $x"/> x&lt;x:<xsl:value-of select="$x &lt; $x"/>
nan=nan:<xsl:value-of select="$nan = $nan"/> nan!=nan:<xsl:value-of select="$nan != $nan"/> nan&lt;=nan:<xsl:value-of select="$nan &lt;= $nan"/>
ns&lt;ns:<xsl:value-of select="$ns &lt; $ns"/> ns!=ns:<xsl:value-of select="$ns != $ns"/> ns=ns:<xsl:value-of select="$ns = $ns"/> ns&gt;=ns:<xsl:value-of select="$ns &gt;= $ns"/>
s=s:<xsl:value-of select="$s = $s"/> s!=s:<xsl:value-of select="$s != $s"/>
</xsl:template>
</xsl:stylesheet>
