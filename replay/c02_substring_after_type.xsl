<xsl:stylesheet version="1.0" xmlns:xsl="http://www.w3.org/1999/XSL/Transform"><xsl:output method="text"/>
<!-- any source document; printed "false" before 04f4a7b, XPath 1.0 4.2 requires "true" (the string '0') -->
<xsl:template match="/"><xsl:value-of select="boolean(substring-after(0, ''))"/></xsl:template></xsl:stylesheet>
