<xsl:stylesheet version="1.0" xmlns:xsl="http://www.w3.org/1999/XSL/Transform"><xsl:output method="text"/>
<!-- printed "NaN" before the fix: '.5-.25' was one token; XPath 1.0: 0.25 -->
<xsl:template match="/"><xsl:value-of select=".5-.25"/></xsl:template></xsl:stylesheet>
