<xsl:stylesheet version="1.0" xmlns:xsl="http://www.w3.org/1999/XSL/Transform">
<xsl:output method="text"/>
<xsl:key name="k" match="text()|comment()|processing-instruction()|p" use="'v'"/>
<xsl:template match="/">in key: <xsl:value-of select="count(key('k','v'))"/>; fired:<xsl:apply-templates select="doc/p|doc/p/text()|doc/comment()|doc/processing-instruction()"/></xsl:template>
<xsl:template match="key('k','v')">[K:<xsl:value-of select="name()"/>]</xsl:template>
<xsl:template match="text()|comment()|processing-instruction()" priority="-5">[builtin-ish]</xsl:template>
</xsl:stylesheet>
