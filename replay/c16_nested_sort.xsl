<xsl:stylesheet version="1.0" xmlns:xsl="http://www.w3.org/1999/XSL/Transform">
<xsl:output method="text"/>
<xsl:variable name="g"><xsl:for-each select="/r/b"><xsl:sort select="@v"/><xsl:value-of select="@v"/></xsl:for-each></xsl:variable>
<xsl:template match="/">
<xsl:for-each select="/r/a"><xsl:sort select="1"/><xsl:sort select="concat(@k, substring($g,1,0))" data-type="number"/><xsl:value-of select="@id"/>:<xsl:value-of select="position()"/>/<xsl:value-of select="last()"/><xsl:text> </xsl:text></xsl:for-each>
<xsl:text>&#10;</xsl:text><xsl:value-of select="$g"/>
</xsl:template>
</xsl:stylesheet>
