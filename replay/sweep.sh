#!/bin/sh
# sweep.sh <scen> <n> <xsl>
sc=$1; n=$2; xsl=$3
mkdir -p sweep$sc; rm -f sweep$sc/*
seq 1 $n | xargs -P16 -I{} sh -c "./mm_driver scen $sc {} d.xml $xsl > sweep$sc/{}.out 2> sweep$sc/{}.err; echo \$? > sweep$sc/{}.rc"
