<xsl:stylesheet version="1.0" xmlns:xsl="http://www.w3.org/1999/XSL/Transform">
<xsl:output method="text"/>
<xsl:variable name="p" select="position()"/>
<xsl:variable name="l" select="last()"/>
<xsl:template match="/"><xsl:for-each select="doc/a[2] | doc/a[1]"><xsl:if test="position()=2">p=<xsl:value-of select="$p"/> l=<xsl:value-of select="$l"/></xsl:if></xsl:for-each></xsl:template>
</xsl:stylesheet>
