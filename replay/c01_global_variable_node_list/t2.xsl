<xsl:stylesheet version="1.0" xmlns:xsl="http://www.w3.org/1999/XSL/Transform">
<xsl:output method="text"/>
<xsl:variable name="v"><xsl:value-of select="position()"/>/<xsl:value-of select="last()"/>/<xsl:value-of select="count(.|/)"/></xsl:variable>
<xsl:variable name="w" select="concat(position(), '-', last(), '-', $v)"/>
<xsl:template match="/"><xsl:for-each select="doc/a"><xsl:if test="position()=2">v=<xsl:value-of select="$w"/> here=<xsl:value-of select="position()"/>/<xsl:value-of select="last()"/></xsl:if></xsl:for-each></xsl:template>
</xsl:stylesheet>
