<xsl:stylesheet version="1.0" xmlns:xsl="http://www.w3.org/1999/XSL/Transform">
<xsl:template match="/"><out><xsl:attribute name="a"><xsl:variable name="w"><b>two</b></xsl:variable><xsl:value-of select="$w"/></xsl:attribute><xsl:comment><xsl:variable name="v"><xsl:copy-of select="list/item[1]"/></xsl:variable><xsl:value-of select="$v"/><xsl:copy-of select="list/item[1]"/></xsl:comment><xsl:processing-instruction name="p"><xsl:variable name="u"><c><d>three</d></c></xsl:variable><xsl:value-of select="$u"/></xsl:processing-instruction></out></xsl:template>
</xsl:stylesheet>
