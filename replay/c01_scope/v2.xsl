<xsl:stylesheet version="1.0" xmlns:xsl="http://www.w3.org/1999/XSL/Transform">
<xsl:output method="xml" omit-xml-declaration="yes"/>
<xsl:variable name="p" select="'global'"/>
<xsl:template match="/"><out><xsl:apply-templates select="r/*"><xsl:with-param name="p" select="'passed'"/></xsl:apply-templates></out></xsl:template>
<xsl:template match="a"><xsl:param name="p" select="'default'"/><a p="{$p}"/></xsl:template>
<xsl:template match="b"><b p="{$p}"/></xsl:template>
</xsl:stylesheet>
