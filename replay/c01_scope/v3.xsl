<xsl:stylesheet version="1.0" xmlns:xsl="http://www.w3.org/1999/XSL/Transform">
<xsl:output method="xml" omit-xml-declaration="yes" indent="no"/>
<xsl:param name="top" select="'TOP'"/>
<xsl:variable name="p" select="'gp'"/>
<xsl:variable name="q" select="'gq'"/>
<xsl:template match="/">
<out>
 <t1><xsl:apply-templates select="r/*"><xsl:with-param name="p" select="'P1'"/><xsl:with-param name="q"><rtf>Q<xsl:value-of select="$top"/></rtf></xsl:with-param></xsl:apply-templates></t1>
 <t2><xsl:call-template name="fact"><xsl:with-param name="n" select="5"/></xsl:call-template></t2>
 <t3><xsl:call-template name="defaults"/></t3>
 <t4><xsl:call-template name="defaults"><xsl:with-param name="y" select="'Y'"/></xsl:call-template></t4>
 <t5><xsl:call-template name="noparams"><xsl:with-param name="p" select="'ignored'"/></xsl:call-template></t5>
 <t6><xsl:call-template name="outer"><xsl:with-param name="p" select="'O'"/></xsl:call-template></t6>
 <t7><xsl:call-template name="late"><xsl:with-param name="p" select="'L'"/></xsl:call-template></t7>
</out>
</xsl:template>
<xsl:template match="a"><xsl:param name="p" select="'dp'"/><xsl:param name="q" select="'dq'"/><a n="{@n}" p="{$p}" q="{$q}"><xsl:apply-templates select="*"/></a></xsl:template>
<xsl:template match="b"><b n="{@n}" p="{$p}" q="{$q}"/></xsl:template>
<xsl:template match="c"><xsl:param name="p" select="'cdef'"/><c p="{$p}" q="{$q}"/></xsl:template>
<xsl:template name="fact"><xsl:param name="n" select="1"/><xsl:param name="acc" select="1"/>
  <xsl:choose><xsl:when test="$n &lt;= 1"><xsl:value-of select="$acc"/></xsl:when>
  <xsl:otherwise><xsl:call-template name="fact"><xsl:with-param name="n" select="$n - 1"/><xsl:with-param name="acc" select="$acc * $n"/></xsl:call-template></xsl:otherwise></xsl:choose></xsl:template>
<xsl:template name="defaults"><xsl:param name="x" select="'X'"/><xsl:param name="y" select="concat($x,'y')"/><xsl:param name="z" select="concat($y,'z')"/><xsl:value-of select="concat($x,'|',$y,'|',$z)"/></xsl:template>
<xsl:template name="noparams"><xsl:value-of select="$p"/></xsl:template>
<xsl:template name="outer"><xsl:param name="p"/><xsl:variable name="v" select="concat($p,'v')"/><o p="{$p}"><xsl:call-template name="inner"><xsl:with-param name="p" select="concat($v,'I')"/></xsl:call-template><xsl:value-of select="concat('after:',$p,':',$v)"/><xsl:call-template name="noparams"/></o></xsl:template>
<xsl:template name="inner"><xsl:param name="p"/><i p="{$p}"/><xsl:for-each select="/r/b"><xsl:value-of select="$p"/></xsl:for-each></xsl:template>
<xsl:template name="late"><early p="{$p}"/><xsl:param name="p" select="'ld'"/><late p="{$p}"/></xsl:template>
</xsl:stylesheet>
