<xsl:stylesheet version="1.0" xmlns:xsl="http://www.w3.org/1999/XSL/Transform">
<xsl:output method="xml" omit-xml-declaration="yes"/>
<xsl:variable name="g" select="'global'"/>
<xsl:attribute-set name="s">
  <xsl:attribute name="from"><xsl:variable name="w" select="concat($g,'-w')"/><xsl:value-of select="$w"/></xsl:attribute>
</xsl:attribute-set>
<xsl:template match="/"><out xsl:use-attribute-sets="s"/></xsl:template>
</xsl:stylesheet>
