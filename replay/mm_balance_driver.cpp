// C19 demonstration driver.
//
// A tracking xercesc::MemoryManager is given to XalanTransformer::initialize()
// and to the XalanTransformer constructor.  Every block it hands out carries a
// header in front of the user pointer, so that
//   - a pointer that did not come from this manager (foreign free),
//   - a pointer that was already returned (double free),
//   - blocks that are never returned (leak)
// are all detected by the manager itself.  Returned blocks are kept in
// quarantine (never handed back to malloc) so the header stays readable.
//
// Modes:
//   driver balance <xml> <xsl> <api>      one run, no injected failure; prints the balance
//   driver count   <xml> <xsl> <api>      number of allocations of the scenario (after initialize())
//   driver failat  <xml> <xsl> <api> <k>  the k-th allocation after initialize() throws OutOfMemoryException
//
// <api> is "direct"   : transformer.transform(xmlFile, xslFile, ostream)
//          "compiled" : compileStylesheet + parseSource + transform + destroyStylesheet + destroyParsedSource
//
// Output: one line "RESULT key=value ..." on stdout.  Exit status 0 = the run
// ended in an orderly way (even if the transformation reported an error);
// the caller inspects the RESULT line.

#include <cstdio>
#include <cstdlib>
#include <cstring>
#include <sstream>
#include <string>
#include <exception>

#include <xercesc/util/PlatformUtils.hpp>
#include <xercesc/util/OutOfMemoryException.hpp>
#include <xercesc/framework/MemoryManager.hpp>

#include <xalanc/XalanTransformer/XalanTransformer.hpp>
#include <xalanc/XalanTransformer/XalanCompiledStylesheet.hpp>
#include <xalanc/XalanTransformer/XalanParsedSource.hpp>
#include <xalanc/XSLT/XSLTInputSource.hpp>
#include <xalanc/XSLT/XSLTResultTarget.hpp>

using namespace xalanc;

namespace {

const unsigned long MAGIC_LIVE  = 0xA110CA7EDB10C0DEul;
const unsigned long MAGIC_FREED = 0xDEADF4EEDB10C0DEul;

struct Header
{
    unsigned long   magic;
    const void*     owner;
    unsigned long   size;
    unsigned long   serial;
};

class TrackingMemoryManager : public xercesc::MemoryManager
{
public:

    TrackingMemoryManager() :
        m_serial(0), m_armedBase(0), m_failAt(0), m_live(0), m_liveBytes(0),
        m_foreignFrees(0), m_doubleFrees(0), m_refused(0)
    {
    }

    virtual void*
    allocate(XMLSize_t  size)
    {
        ++m_serial;

        if (m_failAt != 0 && m_serial - m_armedBase == m_failAt)
        {
            ++m_refused;

            throw xercesc::OutOfMemoryException();
        }

        Header* const   h = static_cast<Header*>(std::malloc(sizeof(Header) + size));

        if (h == 0)
        {
            std::fprintf(stderr, "driver: malloc failed\n");
            std::_Exit(99);
        }

        h->magic = MAGIC_LIVE;
        h->owner = this;
        h->size = size;
        h->serial = m_serial;

        ++m_live;
        m_liveBytes += size;

        return h + 1;
    }

    virtual void
    deallocate(void*    p)
    {
        if (p == 0)
        {
            return;
        }

        Header* const   h = static_cast<Header*>(p) - 1;

        if (h->magic == MAGIC_LIVE && h->owner == this)
        {
            h->magic = MAGIC_FREED;

            --m_live;
            m_liveBytes -= h->size;

            // quarantined on purpose: never given back to malloc
        }
        else if (h->magic == MAGIC_FREED && h->owner == this)
        {
            ++m_doubleFrees;
        }
        else
        {
            ++m_foreignFrees;
        }
    }

    virtual xercesc::MemoryManager*
    getExceptionMemoryManager()
    {
        return this;
    }

    // Allocation indices are counted from here on.
    void    arm(unsigned long   failAt)     { m_armedBase = m_serial; m_failAt = failAt; }
    void    disarm()                        { m_failAt = 0; }

    unsigned long   sinceArmed() const      { return m_serial - m_armedBase; }

    unsigned long   m_serial;
    unsigned long   m_armedBase;
    unsigned long   m_failAt;
    long            m_live;
    long            m_liveBytes;
    unsigned long   m_foreignFrees;
    unsigned long   m_doubleFrees;
    unsigned long   m_refused;
};


TrackingMemoryManager   theManager;


void
onTerminate()
{
    // Reached when an exception escapes a destructor / noexcept function.
    std::printf("RESULT outcome=terminate refused=%lu doublefree=%lu foreignfree=%lu\n",
                theManager.m_refused, theManager.m_doubleFrees, theManager.m_foreignFrees);
    std::fflush(stdout);
    std::_Exit(3);
}


// Returns the transformer's status (0 = success).
int
runScenario(
            XalanTransformer&   theTransformer,
            const char*         xml,
            const char*         xsl,
            const std::string&  api,
            std::string&        output)
{
    std::ostringstream  theStream;

    int     rc = 0;

    if (api == "direct")
    {
        rc = theTransformer.transform(
                    XSLTInputSource(xml, theManager),
                    XSLTInputSource(xsl, theManager),
                    XSLTResultTarget(theStream, theManager));
    }
    else
    {
        const XalanCompiledStylesheet*  theStylesheet = 0;
        const XalanParsedSource*        theSource = 0;

        rc = theTransformer.compileStylesheet(XSLTInputSource(xsl, theManager), theStylesheet);

        if (rc == 0)
        {
            rc = theTransformer.parseSource(XSLTInputSource(xml, theManager), theSource);
        }

        if (rc == 0)
        {
            // twice, to show that the effect is per transformation
            rc = theTransformer.transform(*theSource, theStylesheet, XSLTResultTarget(theStream, theManager));

            if (rc == 0)
            {
                rc = theTransformer.transform(*theSource, theStylesheet, XSLTResultTarget(theStream, theManager));
            }
        }

        if (theStylesheet != 0)
        {
            theTransformer.destroyStylesheet(theStylesheet);
        }

        if (theSource != 0)
        {
            theTransformer.destroyParsedSource(theSource);
        }
    }

    output = theStream.str();

    return rc;
}

}   // namespace


int
main(
            int     argc,
            char*   argv[])
{
    if (argc < 5)
    {
        std::fprintf(stderr, "usage: %s balance|count|failat <xml> <xsl> direct|compiled [k]\n", argv[0]);
        return 2;
    }

    const std::string   mode(argv[1]);
    const char* const   xml = argv[2];
    const char* const   xsl = argv[3];
    const std::string   api(argv[4]);
    const unsigned long k = (mode == "failat" && argc > 5) ? std::strtoul(argv[5], 0, 10) : 0;

    std::set_terminate(onTerminate);

    // Xerces itself keeps its default manager; only Xalan gets the tracking one.
    xercesc::XMLPlatformUtils::Initialize();

    const char*     outcome = "ok";
    int             rc = 0;
    unsigned long   allocations = 0;
    long            liveBeforeInit = theManager.m_live;
    long            liveAfterDestroy = 0;

    XalanTransformer::initialize(theManager);

    const long  liveAfterInit = theManager.m_live;

    theManager.arm(k);

    try
    {
        std::string     output;

        {
            XalanTransformer    theTransformer(theManager);

            rc = runScenario(theTransformer, xml, xsl, api, output);
        }

        if (rc != 0)
        {
            outcome = "error-status";
        }
    }
    catch(const xercesc::OutOfMemoryException&)
    {
        outcome = "exception-oom";
    }
    catch(const std::exception&)
    {
        outcome = "exception-std";
    }
    catch(...)
    {
        outcome = "exception-other";
    }

    allocations = theManager.sinceArmed();

    theManager.disarm();

    // Everything the transformer took must be back by now: what is live is
    // what initialize() took.
    liveAfterDestroy = theManager.m_live - liveAfterInit;

    int     rc2 = -99;

    if (k != 0)
    {
        // "a new transformer works afterwards" (no failure injected any more)
        try
        {
            std::string         output;

            XalanTransformer    theSecond(theManager);

            rc2 = runScenario(theSecond, xml, xsl, api, output);
        }
        catch(...)
        {
            outcome = "second-transformer-threw";
        }
    }

    XalanTransformer::terminate();

    const long  liveAtEnd = theManager.m_live - liveBeforeInit;

    std::printf("RESULT outcome=%s status=%d status2=%d allocations=%lu refused=%lu leaked_by_transformer=%ld live_at_end=%ld doublefree=%lu foreignfree=%lu\n",
                outcome,
                rc,
                rc2,
                allocations,
                theManager.m_refused,
                liveAfterDestroy,
                k == 0 ? liveAtEnd : -1L,
                theManager.m_doubleFrees,
                theManager.m_foreignFrees);

    xercesc::XMLPlatformUtils::Terminate();

    return 0;
}
