<xsl:stylesheet version="1.0" xmlns:xsl="http://www.w3.org/1999/XSL/Transform">
<xsl:output method="html" encoding="ISO-8859-1"/>
<xsl:template match="/"><html><body><a href="x&#x1F600;y">t</a><a title="x&#x1F600;y">u</a></body></html></xsl:template>
</xsl:stylesheet>
