<xsl:stylesheet version="1.0" xmlns:xsl="http://www.w3.org/1999/XSL/Transform">
<xsl:output method="text" encoding="UTF-8"/>
<xsl:template match="/">x<xsl:value-of select="substring('&#x1F600;',1,1)"/></xsl:template>
</xsl:stylesheet>
