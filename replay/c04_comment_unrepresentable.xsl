<xsl:stylesheet version="1.0" xmlns:xsl="http://www.w3.org/1999/XSL/Transform">
<xsl:output method="xml" encoding="ISO-8859-1"/>
<xsl:template match="/"><out><xsl:comment>price &#8364;</xsl:comment><xsl:processing-instruction name="p">&#8364;</xsl:processing-instruction></out></xsl:template>
</xsl:stylesheet>
