<xsl:stylesheet version="1.0" xmlns:xsl="http://www.w3.org/1999/XSL/Transform">
<xsl:output method="text"/>
<xsl:template match="/">
D1: <xsl:value-of select="count(//e[@id='a1'] | /self::node() | //e[@id='a1'])"/> : <xsl:for-each select="//e[@id='a1'] | /self::node() | //e[@id='a1']"><xsl:value-of select="concat(name(), '#', @id, ' ')"/></xsl:for-each>
D2: <xsl:for-each select="//e[@id='a2'] | /self::node() | //e[@id='a1']"><xsl:value-of select="concat(name(), '#', @id, ' ')"/></xsl:for-each>
D3: <xsl:value-of select="count(//e | /self::node() | //e)"/>
D4: <xsl:value-of select="count((//e | /self::node()) | (//e | /self::node()))"/>
</xsl:template>
</xsl:stylesheet>
