<xsl:stylesheet version="1.0" xmlns:xsl="http://www.w3.org/1999/XSL/Transform">
<xsl:output method="text"/>
<xsl:variable name="b" select="document('b.xml')"/>
<xsl:variable name="rtf"><x id="r1"/><x id="r2"/></xsl:variable>
<xsl:template match="/">
M1: <xsl:for-each select="$b | //e | $b//e | /self::node()"><xsl:value-of select="concat(name(), '#', @id, ' ')"/></xsl:for-each>
M2: <xsl:for-each select="$b//e | //e[@id='a4'] | $b | //e[@id='a1'] | /self::node() | $b/r"><xsl:value-of select="concat(name(), '#', @id, ' ')"/></xsl:for-each>
M3: <xsl:for-each select="//e/@id | //e | $b//e/@id | $b//e"><xsl:value-of select="concat(name(), '#', ., ' ')"/></xsl:for-each>
M4: <xsl:value-of select="count(//node() | $b//node() | //@* | $b//@* | /self::node() | $b)"/> = <xsl:value-of select="count(//node()) + count($b//node()) + count(//@*) + count($b//@*) + 2"/>
M5: <xsl:for-each select="(//e | $b//e)[position() mod 2 = 1] | (//e | $b//e)[position() mod 2 = 0]"><xsl:value-of select="concat(@id, ' ')"/></xsl:for-each>
M6: <xsl:for-each select="//e[last()] | $b//e[last()] | //e[1] | $b//e[1] | //refs"><xsl:value-of select="concat(@id, ' ')"/></xsl:for-each>
</xsl:template>
</xsl:stylesheet>
