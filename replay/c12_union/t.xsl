<xsl:stylesheet version="1.0" xmlns:xsl="http://www.w3.org/1999/XSL/Transform">
<xsl:output method="text"/>
<xsl:template match="/">
U1: <xsl:for-each select="//e | /self::node()"><xsl:value-of select="concat(name(), '#', @id, ' ')"/></xsl:for-each>
U1b: <xsl:for-each select="/self::node() | //e"><xsl:value-of select="concat(name(), '#', @id, ' ')"/></xsl:for-each>
U1c: <xsl:for-each select="//e | /"><xsl:value-of select="concat(name(), '#', @id, ' ')"/></xsl:for-each>
U1d: <xsl:for-each select="//e/@id | /r"><xsl:value-of select="concat(name(), '#', ., ' ')"/></xsl:for-each>
U2: <xsl:for-each select="//e[@id='a1' or @id='a2'] | document('b.xml')//e | //refs"><xsl:value-of select="concat(@id, ' ')"/></xsl:for-each>
U3: <xsl:for-each select="//e[@id='a1'] | document('b.xml')//e | //e[@id='a4']"><xsl:value-of select="concat(@id, ' ')"/></xsl:for-each>
U4: <xsl:for-each select="document('b.xml')//e | //e"><xsl:value-of select="concat(@id, ' ')"/></xsl:for-each>
</xsl:template>
</xsl:stylesheet>
