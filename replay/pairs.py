import collections,glob,re,subprocess,json,sys
def strip_targs(n):
    out='';d=0
    for ch in n:
        if ch=='<': d+=1
        elif ch=='>': d-=1
        elif d==0: out+=ch
    return out
def clean(d):
    d=re.sub(r'xalanc_1_12::','',d)
    d=strip_targs(d)
    d=re.sub(r'\(.*$','',d)        # drop parameter list
    d=re.sub(r'^(virtual |non-virtual thunk to )','',d)
    return d.strip()
stats=collections.Counter(); pairs=collections.defaultdict(list); unknown=collections.Counter()
allsyms=set()
rows=[]
for sc in (1,2,3):
    for rcf in glob.glob('/tmp/rp/sweep%d/*.rc'%sc):
        k=int(rcf.split('/')[-1][:-3]); r=int(open(rcf).read())
        stats[(sc,r)]+=1
        if r in (0,): continue
        err=open(rcf[:-3]+'.err').read()
        frames=re.findall(r'\(([^+)]*)\+0x[0-9a-f]+\)',err)
        rows.append((sc,k,r,frames))
        allsyms|=set(frames)
syms=sorted(s for s in allsyms if s)
dem=dict(zip(syms,subprocess.run(['c++filt'],input='\n'.join(syms),capture_output=True,text=True).stdout.split('\n')))
for sc,k,r,frames in rows:
    names=[clean(dem.get(f,f)) for f in frames if f]
    # first destructor up the stack and the function it called
    hit=False
    for i in range(1,len(names)):
        if '~' in names[i] and '~' not in names[i-1] and 'allocate' not in names[i-1] and '__cxa' not in names[i-1]:
            pairs[(names[i],names[i-1])].append((sc,k)); hit=True; break
        if '~' in names[i] and ('allocate' in names[i-1] or '__cxa' in names[i-1]):
            pairs[(names[i],'direct allocation')].append((sc,k)); hit=True; break
    if not hit: unknown[tuple(names[:6])]+=1
print(stats)
print(len(pairs),'confirmed pairs')
for p,v in sorted(pairs.items()): print(len(v),p,v[0])
print('unclassified',sum(unknown.values()))
for u,c in unknown.most_common(8): print(c,u)
json.dump({'%s -> %s'%p:v[:3] for p,v in pairs.items()},open('/tmp/rp/confirmed_pairs.json','w'),indent=1)
