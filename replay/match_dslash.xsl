<?xml version="1.0"?>
<xsl:stylesheet version="1.0" xmlns:xsl="http://www.w3.org/1999/XSL/Transform">
<xsl:output method="text"/>
<xsl:template match='//'>X</xsl:template>
</xsl:stylesheet>
