<xsl:stylesheet version="1.0" xmlns:xsl="http://www.w3.org/1999/XSL/Transform"><xsl:output method="xml" omit-xml-declaration="yes"/>
<!-- XSLT 1.0 7.6.2: error (unmatched brace); produced <e a="{"/> before the fix -->
<xsl:template match="/"><e a="{"/></xsl:template></xsl:stylesheet>
