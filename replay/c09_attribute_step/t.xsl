<xsl:stylesheet version="1.0" xmlns:xsl="http://www.w3.org/1999/XSL/Transform">
<xsl:output method="text"/>
<xsl:template match="/">
 <xsl:for-each select="//node() | //@*">
  <xsl:value-of select="concat(name(), '[', ., ']:')"/>
  <xsl:apply-templates select="." mode="m1"/><xsl:text>|</xsl:text>
  <xsl:apply-templates select="." mode="m2"/><xsl:text>|</xsl:text>
  <xsl:apply-templates select="." mode="m3"/><xsl:text>|</xsl:text>
  <xsl:apply-templates select="." mode="m4"/><xsl:text>
</xsl:text>
 </xsl:for-each>
 select: @*[1]=<xsl:for-each select="//@*[1]"><xsl:value-of select="name()"/> </xsl:for-each>; @node()=<xsl:for-each select="//@node()"><xsl:value-of select="name()"/> </xsl:for-each>; e/@*[2]=<xsl:for-each select="//e/@*[2]"><xsl:value-of select="name()"/> </xsl:for-each>
</xsl:template>
<xsl:template match="@*[1]" mode="m1">M1</xsl:template>
<xsl:template match="node()|@*" mode="m1" priority="-5"/>
<xsl:template match="@node()" mode="m2">M2</xsl:template>
<xsl:template match="node()|@*" mode="m2" priority="-5"/>
<xsl:template match="e/@*[2]" mode="m3">M3</xsl:template>
<xsl:template match="node()|@*" mode="m3" priority="-5"/>
<xsl:template match="@*[last()]" mode="m4">M4</xsl:template>
<xsl:template match="node()|@*" mode="m4" priority="-5"/>
</xsl:stylesheet>
