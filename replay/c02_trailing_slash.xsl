<xsl:stylesheet version="1.0" xmlns:xsl="http://www.w3.org/1999/XSL/Transform">
<xsl:output method="text"/>
<!-- not an XPath expression: must be rejected; was accepted (printed 1) -->
<xsl:template match="/"><xsl:value-of select="count(r/)"/></xsl:template>
</xsl:stylesheet>
