<xsl:stylesheet version="1.0" xmlns:xsl="http://www.w3.org/1999/XSL/Transform">
<xsl:import href="imp2.xsl"/>
<xsl:template match="a">[imp a]</xsl:template>
<xsl:template name="helper">helper: <xsl:apply-imports/></xsl:template>
</xsl:stylesheet>
