<xsl:stylesheet version="1.0" xmlns:xsl="http://www.w3.org/1999/XSL/Transform">
<xsl:import href="imp.xsl"/>
<xsl:output method="text"/>
<xsl:template match="/"><xsl:apply-templates select="doc/a"/></xsl:template>
<xsl:template match="a">main a: <xsl:call-template name="helper"/></xsl:template>
</xsl:stylesheet>
