// Replay driver for the C19 findings: a pluggable MemoryManager that (a) hands out pointers offset from
// malloc's (so that releasing one with global delete / free is detected by glibc) and (b) can fail the k-th allocation.
//   mm_driver destroy-root            : StylesheetConstructionContextDefault::destroy(StylesheetRoot*) with a plugged manager
//   mm_driver fail <k> <xml> <xsl>    : transform with the k-th allocation failing; exit 0 = survived (status reported), 134 = std::terminate
//   mm_driver count <xml> <xsl>       : number of allocations of one transformation
#include <xalanc/Include/PlatformDefinitions.hpp>
#include <xercesc/util/PlatformUtils.hpp>
#include <xercesc/util/OutOfMemoryException.hpp>
#include <xercesc/framework/MemoryManager.hpp>
#include <xalanc/XalanTransformer/XalanTransformer.hpp>
#include <xalanc/XSLT/StylesheetConstructionContextDefault.hpp>
#include <xalanc/XSLT/XSLTEngineImpl.hpp>
#include <xalanc/XSLT/XSLTProcessorEnvSupportDefault.hpp>
#include <xalanc/XSLT/StylesheetRoot.hpp>
#include <xalanc/XPath/XObjectFactoryDefault.hpp>
#include <xalanc/XPath/XPathFactoryDefault.hpp>
#include <xalanc/XalanSourceTree/XalanSourceTreeDOMSupport.hpp>
#include <xalanc/XalanSourceTree/XalanSourceTreeParserLiaison.hpp>
#include <execinfo.h>
#include <unistd.h>
#include <cstdlib>
#include <cstring>
#include <cstdio>
#include <exception>
#include <sstream>
using namespace xalanc;

struct OffsetManager : public xercesc::MemoryManager
{
    long count; long failAt; long live;
    OffsetManager() : count(0), failAt(-1), live(0) {}
    virtual void* allocate(XMLSize_t size)
    {
        ++count;
        if (count == failAt) throw xercesc::OutOfMemoryException();
        char* p = static_cast<char*>(std::malloc(size + 32));
        if (p == 0) throw xercesc::OutOfMemoryException();
        ++live;
        return p + 32;
    }
    virtual void deallocate(void* p)
    {
        if (p != 0) { --live; std::free(static_cast<char*>(p) - 32); }
    }
    virtual MemoryManager* getExceptionMemoryManager() { return this; }
};

static void onTerminate()
{
    void* frames[64];
    int n = backtrace(frames, 64);
    const char msg[] = "TERMINATE backtrace:\n";
    if (write(2, msg, sizeof(msg) - 1)) {}
    backtrace_symbols_fd(frames, n, 2);
    _exit(134);
}

int main(int argc, char** argv)
{
    std::set_terminate(onTerminate);
    OffsetManager mgr;
    xercesc::XMLPlatformUtils::Initialize();
    XalanTransformer::initialize(mgr);
    int rc = 0;
    if (argc >= 2 && !std::strcmp(argv[1], "destroy-root"))
    {
        XalanSourceTreeDOMSupport       domSupport;
        XalanSourceTreeParserLiaison    liaison(domSupport, mgr);
        domSupport.setParserLiaison(&liaison);
        XSLTProcessorEnvSupportDefault  envSupport(mgr);
        XObjectFactoryDefault           xobjectFactory(mgr);
        XPathFactoryDefault             xpathFactory(mgr);
        XSLTEngineImpl                  processor(mgr, liaison, envSupport, domSupport, xobjectFactory, xpathFactory);
        envSupport.setProcessor(&processor);
        StylesheetConstructionContextDefault    ctx(mgr, processor, xpathFactory);
        StylesheetRoot* const   root = ctx.create(XalanDOMString("urn:x", mgr));
        std::printf("created StylesheetRoot %p through the plugged manager; calling destroy()\n", (void*)root);
        std::fflush(stdout);
        ctx.destroy(root);
        std::printf("destroy() returned\n");
    }
    else if (argc >= 5 && !std::strcmp(argv[1], "fail"))
    {
        {
            XalanTransformer    t(mgr);
            std::ostringstream  os;
            mgr.count = 0;
            mgr.failAt = std::atol(argv[2]);
            int r = -99;
            try { r = t.transform(argv[3], argv[4], os); }
            catch (const xercesc::OutOfMemoryException&) { r = -77; }
            mgr.failAt = -1;
            std::printf("k=%s status=%d allocations=%ld\n", argv[2], r, mgr.count);
            // the transformer must stay usable
            std::ostringstream  os2;
            int r2 = t.transform(argv[3], argv[4], os2);
            std::printf("follow-up status=%d\n", r2);
        }
    }
    else if (argc >= 6 && (!std::strcmp(argv[1], "scen") ))
    {
        // mm_driver scen <n> <k or 0> <xml> <xsl>: richer API scenarios; k = failing allocation index (0 = none, prints the count)
        const int scen = std::atoi(argv[2]);
        const long k = std::atol(argv[3]);
        int r = -99, r2 = -99;
        {
            XalanTransformer    t(mgr);
            std::ostringstream  os;
            mgr.count = 0;
            mgr.failAt = k > 0 ? k : -1;
            try
            {
                if (scen == 2 || scen == 3)
                {
                    const XalanParsedSource* ps = 0; const XalanCompiledStylesheet* cs = 0;
                    r = t.parseSource(argv[4], ps, scen == 3);
                    if (r == 0) r = t.compileStylesheet(argv[5], cs);
                    if (r == 0) { t.setStylesheetParam("p", "'v'"); r = t.transform(*ps, cs, os); }
                    if (r == 0) { std::ostringstream os3; r = t.transform(*ps, cs, os3); }
                    if (cs) t.destroyStylesheet(cs);
                    if (ps) t.destroyParsedSource(ps);
                }
                else
                {
                    t.setStylesheetParam("p", "'v'");
                    r = t.transform(argv[4], argv[5], os);
                }
            }
            catch (const xercesc::OutOfMemoryException&) { r = -77; }
            mgr.failAt = -1;
            std::printf("scen=%d k=%ld status=%d allocations=%ld\n", scen, k, r, mgr.count);
            std::ostringstream  os2;
            r2 = t.transform(argv[4], argv[5], os2);
            std::printf("follow-up status=%d\n", r2);
        }
    }
    else if (argc >= 4 && !std::strcmp(argv[1], "count"))
    {
        XalanTransformer    t(mgr);
        std::ostringstream  os;
        mgr.count = 0;
        int r = t.transform(argv[2], argv[3], os);
        std::printf("status=%d allocations=%ld\n", r, mgr.count);
    }
    XalanTransformer::terminate();
    xercesc::XMLPlatformUtils::Terminate();
    std::printf("live allocations at exit: %ld\n", mgr.live);
    return rc;
}
