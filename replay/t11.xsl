<?xml version="1.0"?>
<xsl:stylesheet version="1.0" xmlns:xsl="http://www.w3.org/1999/XSL/Transform">
<xsl:output method="xml" version="1.1"/>
<xsl:template match="/"><out><xsl:comment>a&#9;b&#13;c</xsl:comment><xsl:processing-instruction name="p">x&#9;y</xsl:processing-instruction></out></xsl:template>
</xsl:stylesheet>
