# builds the fact extractor (offline; clang/llvm 14 dev files are in the image)
LLVM_CXXFLAGS := $(shell llvm-config-14 --cxxflags)
LLVM_LIBDIR   := $(shell llvm-config-14 --libdir)

all: bin/xvfacts

bin/xvfacts: tools/xvfacts.cc
	mkdir -p bin
	clang++ $(LLVM_CXXFLAGS) -fno-rtti -O1 -w tools/xvfacts.cc -o bin/xvfacts $(LLVM_LIBDIR)/libclang-cpp.so.14 $(LLVM_LIBDIR)/libLLVM-14.so

clean:
	rm -rf bin .cache
