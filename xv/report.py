"""Verdict bookkeeping: obligations, violations, known findings, evidence files."""
import json, os, time, hashlib, re
from .build import VERIF, AnalysisBroken

KNOWN_FILE = os.path.join(VERIF, 'known_findings.json')


def load_known():
    if not os.path.exists(KNOWN_FILE):
        return {'known': [], 'fixed': []}
    with open(KNOWN_FILE) as f:
        return json.load(f)


class SkipRule(Exception):
    pass


# rules that interpret function bodies on thousands of inputs, each implemented by a dedicated entry function (run_rule / run_*_rule) of a helper module
SLOW_RULES = {'C12-R9', 'C04-R18', 'C16-R7', 'C01-R12', 'C01-R9', 'C10-R12', 'C10-R11', 'C09-R10', 'C02-R13', 'C02-R14', 'C02-R15', 'C02-R16', 'C02-R17', 'C02-R18', 'C09-R8', 'C09-R9', 'C04-R7', 'C12-R6', 'C12-R7', 'C08-R6', 'C01-R7', 'C02-R19', 'C11-R8'}


def guard_entry_points(modules):
    """wrap run_rule / run_*_rule of the helper modules so that a SkipRule raised by Result.rule ends just that rule"""
    import functools
    for mod in modules:
        for name in dir(mod):
            if name == 'run_rule' or (name.startswith('run_') and name.endswith('_rule')):
                fn = getattr(mod, name)
                if callable(fn) and not getattr(fn, '_guarded', False):
                    def make(f):
                        @functools.wraps(f)
                        def w(*a, **k):
                            try:
                                return f(*a, **k)
                            except SkipRule:
                                return None
                        w._guarded = True
                        return w
                    setattr(mod, name, make(fn))


_IN_CHILD = False


def isolate_rules(modules):
    """a rule that cannot be decided (AnalysisBroken) must not keep the other rules of the property from running: every rule function (rN_*, run_rule, run_*_rule)
    and every link of the run chains (run, _run_*) records the failure in Result.broken and returns"""
    import functools, inspect, re as _re
    pat = _re.compile(r'^(r\d+\w*|run|_run\w*|run_\w*rule)$')
    for mod in modules:
        for name, fn in list(vars(mod).items()):
            if not pat.match(name) or not inspect.isfunction(fn) or getattr(fn, '_isolated', False):
                continue
            def make(f):
                @functools.wraps(f)
                def w(*a, **k):
                    try:
                        return f(*a, **k)
                    except AnalysisBroken as e:
                        res = a[0] if a and isinstance(a[0], Result) else None
                        if res is None:
                            raise
                        if str(e) not in res.broken:
                            res.broken.append(str(e))
                        return None
                w._isolated = True
                for attr in ('_guarded', '_forked'):
                    if getattr(f, attr, False):
                        setattr(w, attr, True)
                return w
            setattr(mod, name, make(fn))


def parallel_entry_points(modules):
    """run_rule / run_*_rule of the helper modules (the interpretive rules: seconds to minutes each, independent of one another) run in forked children;
    Result.join() collects their rules.  XV_JOBS=1 keeps everything in one process."""
    import functools, pickle, traceback
    for mod in modules:
        for name in dir(mod):
            if name == 'run_rule' or (name.startswith('run_') and name.endswith('_rule')):
                fn = getattr(mod, name)
                if callable(fn) and not getattr(fn, '_forked', False):
                    def make(f, label):
                        @functools.wraps(f)
                        def w(res, facts, *a, **k):
                            global _IN_CHILD
                            if _IN_CHILD or not isinstance(res, Result):
                                return f(res, facts, *a, **k)
                            while len(res._pending) - res._reaped >= res.jobs:
                                res._reap_one()
                            rfd, wfd = os.pipe()
                            pid = os.fork()
                            if pid:
                                if os.environ.get('XV_TIMING'):
                                    print('[xv] %6.1fs fork %s' % (time.time() - res.t0, label), flush=True)
                                os.close(wfd)
                                res._pending.append([pid, rfd, label, None])
                                return None
                            os.close(rfd)
                            _IN_CHILD = True
                            out = None
                            try:
                                facts._fh = {}
                                res.rules, res.assumptions, res.trusted, res.broken, res.extra = [], [], [], [], {}
                                try:
                                    f(res, facts, *a, **k)
                                except SkipRule:
                                    pass
                                for r in res.rules:
                                    r.res = None
                                out = ('ok', res.rules, res.assumptions, res.trusted, res.broken, res.extra)
                            except AnalysisBroken as e:
                                out = ('broken', str(e))
                            except BaseException:
                                out = ('error', traceback.format_exc())
                            try:
                                with os.fdopen(wfd, 'wb') as fh:
                                    pickle.dump(out, fh)
                            finally:
                                os._exit(0)
                        w._forked = True
                        return w
                    setattr(mod, name, make(fn, '%s.%s' % (mod.__name__.split('.')[-1], name)))


def fork_map(worker, parts):
    """worker(part) for every part, each in a forked child (the interpretive rules split their input corpus); results in order.  A worker may raise AnalysisBroken."""
    import pickle, traceback
    if os.environ.get('XV_JOBS', '') == '1' or len(parts) <= 1:
        return [worker(p) for p in parts]
    kids = []
    for part in parts:
        rfd, wfd = os.pipe()
        pid = os.fork()
        if pid:
            os.close(wfd)
            kids.append((pid, rfd))
            continue
        os.close(rfd)
        try:
            try:
                out = ('ok', worker(part))
            except AnalysisBroken as e:
                out = ('broken', str(e))
            except BaseException:
                out = ('error', traceback.format_exc())
            with os.fdopen(wfd, 'wb') as fh:
                pickle.dump(out, fh)
        finally:
            os._exit(0)
    outs = []
    for pid, rfd in kids:
        with os.fdopen(rfd, 'rb') as fh:
            data = fh.read()
        os.waitpid(pid, 0)
        try:
            outs.append(pickle.loads(data))
        except Exception:
            outs.append(('error', 'no result from a worker (%d bytes)' % len(data)))
    for o in outs:
        if o[0] == 'broken':
            raise AnalysisBroken(o[1])
        if o[0] == 'error':
            raise AnalysisBroken('internal error in a worker: ' + o[1][-1500:])
    return [o[1] for o in outs]


class Rule:
    """one clause rule of a property; collects instances"""

    def __init__(self, res, rid, clause, floor=1):
        self.res = res; self.id = rid; self.clause = clause; self.floor = floor
        self.instances = 0; self.samples = []; self.viol = []; self.notes = []

    def ok(self, what, detail=None):
        self.instances += 1
        if len(self.samples) < 6:
            self.samples.append({'instance': what, 'verdict': 'holds', **({'detail': detail} if detail else {})})

    def violation(self, site, what, loc=None, **extra):
        """site: stable identity of the instance (qualified names + role, no line numbers)."""
        self.instances += 1
        self.viol.append({'rule': self.id, 'site': site, 'what': what, 'loc': loc, **extra})

    def note(self, s):
        self.notes.append(s)


class Result:
    def __init__(self, prop, tier):
        self.prop = prop; self.tier = tier; self.rules = []; self.t0 = time.time()
        self.assumptions = []; self.extra = {}; self.trusted = []
        self.broken = []
        self._pending = []; self._reaped = 0
        try:
            self.jobs = max(1, int(os.environ.get('XV_JOBS', '') or (os.cpu_count() or 4)))
        except ValueError:
            self.jobs = 4

    def _reap_one(self):
        """wait for the oldest child not yet collected"""
        import pickle
        for p in self._pending:
            if p[3] is None:
                pid, rfd, label = p[0], p[1], p[2]
                with os.fdopen(rfd, 'rb') as fh:
                    data = fh.read()
                os.waitpid(pid, 0)
                try:
                    p[3] = pickle.loads(data)
                except Exception:
                    p[3] = ('error', 'no result from the child running %s (%d bytes)' % (label, len(data)))
                self._reaped += 1
                if os.environ.get('XV_TIMING'):
                    print('[xv] %6.1fs done %s' % (time.time() - self.t0, label), flush=True)
                return

    def join(self):
        """collect the rules of the forked entry points, in launch order"""
        while self._reaped < len(self._pending):
            self._reap_one()
        pend, self._pending, self._reaped = self._pending, [], 0
        errors = []
        for pid, rfd, label, out in pend:
            if out[0] == 'ok':
                _, rules, assumptions, trusted, broken, extra = out
                for r in rules:
                    r.res = self
                    self.rules.append(r)
                for s2 in assumptions:
                    self.assume(s2)
                self.trusted += [t for t in trusted if t not in self.trusted]
                self.broken += broken
                self.extra.update(extra)
            elif out[0] == 'broken':
                errors.append(out[1])
            else:
                errors.append('internal error in %s: %s' % (label, out[1][-1500:]))
        for e in errors:
            if e not in self.broken:
                self.broken.append(e)

    def rule(self, rid, clause, floor=1):
        focus = os.environ.get('XV_FOCUS_RULE')
        if focus and rid in SLOW_RULES and rid != focus:
            # self-test of one mutant: the slow interpretive rules other than the one the mutant is aimed at are left out (never on a real check)
            raise SkipRule(rid)
        r = Rule(self, rid, clause, floor)
        self.rules.append(r)
        return r

    def assume(self, s):
        if s not in self.assumptions:
            self.assumptions.append(s)

    def finish(self, facts=None, selftest=None):
        if self._pending:
            try:
                self.join()
            except AnalysisBroken as e:
                self.broken.append(str(e))
        known = load_known()
        kn = [k for k in known.get('known', []) if k['property'] == self.prop]
        lines = []
        new_viol = []
        known_hit = []
        for r in self.rules:
            if r.instances < r.floor:
                self.broken.append('%s matched %d instances, floor confirmed by hand is %d' % (r.id, r.instances, r.floor))
            for v in r.viol:
                hit = None
                for k in kn:
                    if k['rule'] == v['rule'] and k['site'] == v['site']:
                        hit = k; break
                if hit:
                    known_hit.append((v, hit))
                else:
                    new_viol.append(v)
        outdir = os.environ.get('XV_EVIDENCE_DIR') or os.path.join(VERIF, 'evidence')
        os.makedirs(outdir, exist_ok=True)
        for v, k in known_hit:
            lines.append('KNOWN-FINDING: property=%s %s %s: %s' % (self.prop, v['rule'], v['site'], v['what']))
        replay_dir = os.path.join(outdir, 'violations')
        import glob as _g
        for old in _g.glob(os.path.join(replay_dir, self.prop + '-*.json')):
            os.remove(old)
        for v in new_viol:
            os.makedirs(replay_dir, exist_ok=True)
            hid = hashlib.sha1((v['rule'] + v['site']).encode()).hexdigest()[:10]
            p = os.path.join(replay_dir, '%s-%s-%s.json' % (self.prop, v['rule'], hid))
            with open(p, 'w') as f:
                json.dump({'property': self.prop, **v}, f, indent=1)
            lines.append('VIOLATION property=%s replay=%s' % (self.prop, p))
            lines.append('  %s at %s [%s]: %s' % (v['rule'], v.get('loc') or '?', v['site'], v['what']))
        obligations = sum(r.instances for r in self.rules)
        discharged = obligations - sum(len(r.viol) for r in self.rules)
        ev = {
            'property_id': self.prop, 'tier': self.tier, 'seed': int(os.environ.get('VERIF_SEED', '0') or 0), 'level': 'other',
            'coverage': {
                'explanation': ' | '.join('%s: %s' % (r.id, r.clause) for r in self.rules) +
                               ' || Static analysis of the current /repo working tree (clang AST facts, CHA call graph); decides only these structural clauses, each a necessary condition of the property, not the behaviour itself.',
                'obligations': obligations, 'discharged': discharged,
                'rules': [{'rule': r.id, 'clause': r.clause, 'instances': r.instances, 'floor': r.floor, 'violations': len(r.viol), 'notes': r.notes} for r in self.rules],
                'samples': [s for r in self.rules for s in [{'rule': r.id, **x} for x in r.samples[:4]]] or [{'note': 'no instance'}],
                'known_findings_matched': [{'rule': v['rule'], 'site': v['site']} for v, k in known_hit],
                'new_violations': [{'rule': v['rule'], 'site': v['site'], 'what': v['what'], 'loc': v.get('loc')} for v in new_viol],
                'trusted_base': ['clang 14 front end (AST, constant evaluator)', 'xvfacts extractor', 'CHA call-graph construction', 'frozen specification tables in /verif/spec and in the rule modules'] + self.trusted,
                'checker_cmd': './check %s --tier %s' % (self.prop, self.tier),
                'exhaustive': False,
                **self.extra,
            },
            'assumptions': self.assumptions,
            'wall_s': round(time.time() - self.t0, 2),
            'violations': len(new_viol),
        }
        if facts is not None:
            ev['coverage']['analysed'] = {'translation_units': len(facts.units), 'function_instances': len(facts.F), 'call_edges': len(facts.calls),
                                          'function_bodies': len(facts.astidx), 'scope': facts.scope,
                                          'configuration': 'as built: -DNDEBUG, -std=gnu++14, ICU bridge on, in-memory message loader, iterative stylesheet execution'}
        if selftest is not None:
            ev['coverage']['selftest'] = selftest
        if self.broken:
            ev['coverage']['analysis_broken'] = self.broken
        with open(os.path.join(outdir, self.prop + '.json'), 'w') as f:
            json.dump(ev, f, indent=1)
        for l in lines:
            print(l)
        for r in self.rules:
            print('[%s] %s: %d instances, %d violations (%d known)' % (self.prop, r.id, r.instances, len(r.viol), sum(1 for v, k in known_hit if v['rule'] == r.id)))
        if self.broken:
            for b in self.broken:
                print('ANALYSIS-BROKEN property=%s %s' % (self.prop, b))
            # a violation found by one rule stands even if another rule could not be decided
            return 1 if new_viol else 2
        return 1 if new_viol else 0
