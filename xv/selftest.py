"""Self-test of the checkers: every mutant (a small patch to /repo sources that still compiles) must make its
rule fire and name the broken instance.  Mutants are applied to copies of the touched files and handed to clang
through a VFS overlay; /repo itself is never modified."""
import json, os, shutil, subprocess, sys, tempfile, glob
from .build import VERIF, REPO, CACHE


def load_index():
    out = []
    for p in sorted(glob.glob(os.path.join(VERIF, 'selftest', '*', '*.json'))):
        with open(p) as f:
            m = json.load(f)
        m['dir'] = os.path.dirname(p)
        m['name'] = os.path.splitext(os.path.basename(p))[0]
        out.append(m)
    return out


def make_overlay(patch_path, name):
    od = os.path.join(CACHE, 'overlay', name)
    shutil.rmtree(od, ignore_errors=True)
    os.makedirs(od)
    files = []
    with open(patch_path) as f:
        for l in f:
            if l.startswith('+++ '):
                p = l[4:].split('\t')[0].strip()
                if p.startswith('b/'):
                    p = p[2:]
                files.append(p)
    for p in files:
        dst = os.path.join(od, p)
        os.makedirs(os.path.dirname(dst), exist_ok=True)
        shutil.copy(os.path.join(REPO, p), dst)
    r = subprocess.run(['patch', '-p1', '-s', '-d', od, '-i', patch_path], capture_output=True, text=True)
    if r.returncode != 0:
        return None, r.stdout + r.stderr
    return od, ''


def run_check(prop, overlay_dir, focus=None):
    env = dict(os.environ)
    env['XV_EPHEMERAL_FACTS'] = '1'
    if focus:
        env['XV_FOCUS_RULE'] = focus
    ev = tempfile.mkdtemp(prefix='xv-ev-', dir=CACHE)
    env['XV_EVIDENCE_DIR'] = ev
    r = subprocess.run([os.path.join(VERIF, 'check'), prop, '--tier', 'quick', '--overlay', overlay_dir], capture_output=True, text=True, env=env, cwd=VERIF)
    viol = []
    for p in glob.glob(os.path.join(ev, 'violations', '*.json')):
        with open(p) as f:
            viol.append(json.load(f))
    shutil.rmtree(ev, ignore_errors=True)
    return r.returncode, viol, r.stdout[-3000:]


def run_one(m):
    patch = os.path.join(m['dir'], m.get('patch', m['name'] + '.diff'))
    od, err = make_overlay(patch, m['name'])
    if od is None:
        return {'name': m['name'], 'status': 'stale', 'detail': 'patch no longer applies: ' + err[:200]}
    rc, viol, out = run_check(m['property'], od, m.get('expect_rule'))
    shutil.rmtree(od, ignore_errors=True)
    hits = [v for v in viol if v['rule'] == m['expect_rule'] and m.get('expect_site', '') in v['site']]
    if rc == 1 and hits:
        return {'name': m['name'], 'status': 'caught', 'rule': m['expect_rule'], 'site': hits[0]['site'], 'reports': len(viol)}
    return {'name': m['name'], 'status': 'missed', 'exit': rc, 'reported': [(v['rule'], v['site']) for v in viol][:5], 'tail': out[-400:]}


def run(prop=None, names=None):
    ms = [m for m in load_index() if (prop is None or m['property'] == prop) and (names is None or m['name'] in names)]
    results = [run_one(m) for m in ms]
    failed = [r['name'] for r in results if r['status'] == 'missed']
    return {'mutants': len(ms), 'caught': sum(1 for r in results if r['status'] == 'caught'), 'stale': [r['name'] for r in results if r['status'] == 'stale'],
            'failed': failed, 'results': results}


if __name__ == '__main__':
    prop = sys.argv[1] if len(sys.argv) > 1 else None
    names = set(sys.argv[2:]) or None
    r = run(prop, names)
    print(json.dumps(r, indent=1))
    sys.exit(1 if r['failed'] else 0)
