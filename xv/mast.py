"""Helpers over the mini-AST emitted by xvfacts: walkers, printers, a concrete evaluator for pure
expressions over finite domains (E7 building block) and a structured CFG (E6 building block)."""
import collections
from .build import AnalysisBroken

NS = 'xalanc_1_12::'


def is_node(x):
    return isinstance(x, dict) and 'k' in x


def children(n):
    """direct child nodes in source order"""
    if not isinstance(n, dict):
        return
    for key, v in n.items():
        if key in ('l', 'k', 'ty', 'cv'):
            continue
        if is_node(v):
            yield v
        elif isinstance(v, list):
            for x in v:
                if is_node(x):
                    yield x
                elif isinstance(x, dict):  # vars / handlers / inits
                    for y in x.values():
                        if is_node(y):
                            yield y


def walk(n):
    """pre-order over all nodes"""
    st = [n]
    while st:
        x = st.pop()
        if not isinstance(x, dict):
            continue
        if 'k' in x:
            yield x
        ch = list(children(x))
        st.extend(reversed(ch))


def calls(n):
    for x in walk(n):
        if x['k'] in ('Call', 'MCall', 'OpCall', 'Ctor'):
            yield x


def callee(x):
    return (x.get('fn') or x.get('cls') or '').replace(NS, '')


def pp(e, depth=0):
    """compact printer for reports"""
    if e is None:
        return ''
    if not isinstance(e, dict):
        return str(e)
    if depth > 8:
        return '...'
    k = e.get('k')
    d = depth + 1
    if k == 'Ref':
        return e['n']
    if k in ('Int', 'Bool', 'Char'):
        return str(e.get('cv'))
    if k == 'Float':
        return str(e.get('v'))
    if k == 'Str':
        return repr(e.get('v'))
    if k == 'This':
        return 'this'
    if k == 'Nullptr':
        return 'nullptr'
    if k == 'Member':
        o = e.get('obj')
        if o and o.get('k') == 'This':
            return e['m']
        return pp(o, d) + ('->' if e.get('arrow') else '.') + e['m']
    if k == 'Bin':
        return '(%s %s %s)' % (pp(e['lhs'], d), e['op'], pp(e['rhs'], d))
    if k == 'Un':
        return ('%s%s' % (pp(e['e'], d), e['op'])) if e.get('post') else ('%s%s' % (e['op'], pp(e['e'], d)))
    if k == 'Cast':
        if e.get('expl'):
            return '(%s)%s' % (e['to'].replace(NS, ''), pp(e['e'], d))
        return pp(e['e'], d)
    if k == 'Call':
        return '%s(%s)' % (callee(e).split('::')[-1] if e.get('fn') != '<indirect>' else '(*' + pp(e.get('callee'), d) + ')', ', '.join(pp(a, d) for a in e['args']))
    if k == 'MCall':
        o = e.get('obj')
        pre = '' if (o and o.get('k') == 'This') else pp(o, d) + '.'
        return '%s%s(%s)' % (pre, e.get('n') or '<memptr>', ', '.join(pp(a, d) for a in e['args']))
    if k == 'OpCall':
        a = e['args']
        if e['op'] == '[]' and len(a) == 2:
            return '%s[%s]' % (pp(a[0], d), pp(a[1], d))
        if e['op'] == '()':
            return '%s(%s)' % (pp(a[0], d), ', '.join(pp(x, d) for x in a[1:]))
        if len(a) == 2:
            return '(%s %s %s)' % (pp(a[0], d), e['op'], pp(a[1], d))
        if len(a) == 1:
            return '%s%s' % (e['op'], pp(a[0], d))
    if k == 'Ctor':
        return '%s(%s)' % (e['cls'].replace(NS, ''), ', '.join(pp(a, d) for a in e['args']))
    if k == 'Cond':
        return '(%s ? %s : %s)' % (pp(e['c'], d), pp(e['t'], d), pp(e['f'], d))
    if k == 'Index':
        return '%s[%s]' % (pp(e['b'], d), pp(e['i'], d))
    if k == 'Sizeof':
        return 'sizeof(%s)' % (e.get('of') or pp(e.get('e'), d))
    if k == 'Throw':
        return 'throw ' + pp(e.get('e'), d)
    if k == 'New':
        return 'new(%s) %s' % (', '.join(pp(a, d) for a in e.get('place', [])), e['ty'])
    if k == 'Return':
        return 'return ' + pp(e.get('e'), d)
    return '<%s>' % (e.get('cls') or k)


def strip_casts(e):
    while isinstance(e, dict) and e.get('k') == 'Cast':
        e = e['e']
    return e


# --------------------------------------------------------------------------- evaluator (E7)
class Unsupported(Exception):
    pass


class Evaluator:
    """Evaluates pure integer/boolean expressions of the mini-AST.
    env: {local id or param name: value}; tables: callable(qualified name) -> list of ints (or None)."""

    def __init__(self, env=None, tables=None, hooks=None, consts=None):
        self.env = env or {}
        self.tables = tables
        self.hooks = hooks or {}
        self.consts = consts   # callable(qualified name) -> int | None, for static constants whose initialiser another unit holds

    def ev(self, e):
        k = e['k']
        if 'cv' in e and k not in ('Ref', 'Member'):
            return e['cv']
        if k in ('Int', 'Bool', 'Char'):
            return e['cv']
        if k == 'Ref':
            if e.get('d') in ('param', 'local'):
                key = e['id']
                if key in self.env:
                    return self.env[key]
                if e['n'] in self.env:
                    return self.env[e['n']]
                raise Unsupported('unbound ' + e['n'])
            if 'cv' in e:
                return e['cv']
            if self.consts is not None and e.get('q'):
                v = self.consts(e['q'])
                if v is not None:
                    return v
            raise Unsupported('ref ' + e['n'])
        if k == 'Member':
            if 'cv' in e:
                return e['cv']
            raise Unsupported('member ' + e['m'])
        if k == 'Cast':
            v = self.ev(e['e'])
            to = e['to']
            if e['ck'] in ('IntegralToBoolean',):
                return 1 if v else 0
            if e['ck'] == 'IntegralCast':
                return wrap(v, to)
            return v
        if k == 'Cond':
            return self.ev(e['t']) if self.ev(e['c']) else self.ev(e['f'])
        if k == 'Un':
            v = self.ev(e['e'])
            if e['op'] == '!':
                return 0 if v else 1
            if e['op'] == '-':
                return -v
            if e['op'] == '~':
                return ~v
            if e['op'] == '+':
                return v
            raise Unsupported('unop ' + e['op'])
        if k == 'Bin':
            op = e['op']
            if op == '&&':
                return 1 if (self.ev(e['lhs']) and self.ev(e['rhs'])) else 0
            if op == '||':
                return 1 if (self.ev(e['lhs']) or self.ev(e['rhs'])) else 0
            a = self.ev(e['lhs']); b = self.ev(e['rhs'])
            if isinstance(a, float) or isinstance(b, float):
                if op in ('+', '-', '*', '/'):
                    return ieee_arith(op, float(a), float(b))
            if op == '<': return int(a < b)
            if op == '>': return int(a > b)
            if op == '<=': return int(a <= b)
            if op == '>=': return int(a >= b)
            if op == '==': return int(a == b)
            if op == '!=': return int(a != b)
            if op == '+': return a + b
            if op == '-': return a - b
            if op == '*': return a * b
            if op == '&': return a & b
            if op == '|': return a | b
            if op == '^': return a ^ b
            if op == '<<': return a << b
            if op == '>>': return a >> b
            if op == '/':
                if b == 0: raise Unsupported('div0')
                return int(a / b)
            if op == '%':
                if b == 0: raise Unsupported('div0')
                return a - int(a / b) * b
            raise Unsupported('binop ' + op)
        if k == 'Index':
            base = strip_casts(e['b'])
            name = base.get('q') or base.get('field')
            if name is None or self.tables is None:
                raise Unsupported('index base')
            t = self.tables(name)
            if t is None:
                raise Unsupported('table ' + name)
            i = self.ev(e['i'])
            if i < 0 or i >= len(t):
                raise Unsupported('index %d out of table %s[%d]' % (i, name, len(t)))
            return t[i]
        if k in ('Call', 'MCall') and callee(e) in self.hooks:
            return self.hooks[callee(e)](self, e)
        raise Unsupported(k + ' ' + pp(e)[:60])

    def run(self, body):
        """executes a statement tree consisting of Compound / If / Return / Decl; returns the returned value"""
        r = self._run(body)
        if r is None:
            raise Unsupported('no return reached')
        return r[0]

    def _run(self, s):
        k = s['k']
        if k == 'Compound':
            for c in s['c']:
                r = self._run(c)
                if r is not None:
                    return r
            return None
        if k == 'Return':
            return (self.ev(s['e']) if s.get('e') else None,)
        if k == 'If':
            if self.ev(s['cond']):
                return self._run(s['then'])
            if s.get('else'):
                return self._run(s['else'])
            return None
        if k == 'Decl':
            for v in s['vars']:
                if v.get('init') is not None:
                    self.env[v['id']] = self.ev(v['init'])
            return None
        if k == 'Null':
            return None
        if k == 'Cast' and s.get('ck') == 'ToVoid' and 'cv' in (s.get('e') or {}):
            return None   # assert() compiled out
        raise Unsupported('stmt ' + k)


def ieee_arith(op, a, b):
    """IEEE 754 double arithmetic (Python raises on division by zero; C++ does not)"""
    import math
    if op == '+':
        return a + b
    if op == '-':
        return a - b
    if op == '*':
        return a * b
    if b != 0.0:
        return a / b
    if a != a or a == 0.0:
        return float('nan')
    neg = (math.copysign(1.0, a) < 0) != (math.copysign(1.0, b) < 0)
    return float('-inf') if neg else float('inf')


def wrap(v, ty):
    bits = {'unsigned char': (8, 0), 'char': (8, 1), 'signed char': (8, 1), 'unsigned short': (16, 0), 'short': (16, 1), 'char16_t': (16, 0),
            'unsigned int': (32, 0), 'int': (32, 1), 'unsigned long': (64, 0), 'long': (64, 1), 'bool': (1, 0)}.get(ty)
    if not bits:
        return v
    n, s = bits
    v &= (1 << n) - 1
    if s and v >= 1 << (n - 1):
        v -= 1 << n
    return v


# --------------------------------------------------------------------------- switch helper (E1/E2)
def switch_cases(sw):
    """flatten a Switch node into [(labels, stmts, falls_through_from_previous)] in source order.
    labels: list of label exprs (None for default)."""
    body = sw['body']
    items = body['c'] if body['k'] == 'Compound' else [body]
    groups = []
    cur = None

    def open_case(n):
        nonlocal cur
        labels = []
        while n['k'] in ('Case', 'Default'):
            labels.append(n.get('v') if n['k'] == 'Case' else None)
            n = n['sub']
        cur = {'labels': labels, 'stmts': [n]}
        groups.append(cur)

    for it in items:
        if it['k'] in ('Case', 'Default'):
            open_case(it)
        else:
            if cur is None:
                cur = {'labels': [], 'stmts': []}
                groups.append(cur)
            cur['stmts'].append(it)
    return groups


def label_name(e):
    e = strip_casts(e)
    if e is None:
        return 'default'
    if e.get('k') == 'Ref' and e.get('d') == 'enum':
        return e['q'].replace(NS, '')
    if 'cv' in e:
        return str(e['cv'])
    return pp(e)


def terminates(stmts):
    """does the statement list end in break/return/throw/continue (no fall-through)?"""
    if not stmts:
        return False
    s = stmts[-1]
    k = s['k']
    if k in ('Break', 'Return', 'Continue', 'Throw', 'Goto'):
        return True
    if k == 'Compound':
        return terminates(s['c'])
    if k == 'If':
        return bool(s.get('else')) and terminates([s['then']]) and terminates([s['else']])
    if k in ('Call', 'MCall') and noreturn_call(s):
        return True
    return False


NORETURN = {'unknownOpCodeError', 'notNodeSetError', 'error', 'throwInvalidXMLCharacterException', 'throwInvalidUTF16SurrogateException', 'throwUnrepresentableCharacterException'}


def noreturn_call(c):
    return (c.get('n') or callee(c).split('::')[-1]) in NORETURN


# --------------------------------------------------------------------------- structured CFG (E6)
class Node:
    __slots__ = ('id', 'kind', 'ast', 'succ', 'cond_true', 'cond_false', 'line')

    def __init__(self, i, kind, ast=None):
        self.id = i; self.kind = kind; self.ast = ast; self.succ = []; self.cond_true = None; self.cond_false = None
        self.line = ast.get('l') if isinstance(ast, dict) else None


class CFG:
    """Statement-level CFG of one function body. Node kinds: entry, exit (normal return / fall off),
    throw (exceptional exit), stmt (expression statement / decl / return value), cond (branch on an
    atomic condition; short-circuit && || ! are expanded, so each cond node tests one atom)."""

    def __init__(self, fn_ast):
        self.fn = fn_ast
        self.nodes = []
        self.entry = self.new('entry')
        self.exit = self.new('exit')
        self.throw = self.new('throw')
        self.labels = {}
        self.gotos = []
        inits = fn_ast.get('inits') or []
        cur = [self.entry]
        for i in inits:
            if i.get('e') is not None:
                n = self.new('stmt', {'k': 'CtorInit', 'field': i.get('field'), 'base': i.get('base'), 'e': i['e'], 'l': fn_ast.get('line')})
                self.link(cur, n); cur = [n]
        outs = self.build(fn_ast['body'], cur, None, None)
        self.link(outs, self.exit)
        for g, lab in self.gotos:
            if lab in self.labels:
                g.succ.append(self.labels[lab])

    def new(self, kind, ast=None):
        n = Node(len(self.nodes), kind, ast)
        self.nodes.append(n)
        return n

    def link(self, froms, to):
        for f in froms:
            if isinstance(f, tuple):  # (cond node, branch)
                node, br = f
                if br:
                    node.cond_true = to
                else:
                    node.cond_false = to
                node.succ.append(to)
            else:
                f.succ.append(to)

    def cond(self, e, cur):
        """returns (true_outs, false_outs)"""
        if e and e.get('k') == 'Bin' and e['op'] == '&&':
            t1, f1 = self.cond(e['lhs'], cur)
            t2, f2 = self.cond(e['rhs'], t1)
            return t2, f1 + f2
        if e and e.get('k') == 'Bin' and e['op'] == '||':
            t1, f1 = self.cond(e['lhs'], cur)
            t2, f2 = self.cond(e['rhs'], f1)
            return t1 + t2, f2
        if e and e.get('k') == 'Un' and e['op'] == '!':
            t, f = self.cond(e['e'], cur)
            return f, t
        n = self.new('cond', e)
        self.link(cur, n)
        if e is not None and 'cv' in e and e.get('k') in ('Bool', 'Int'):
            return ([(n, True)], []) if e['cv'] else ([], [(n, False)])
        return [(n, True)], [(n, False)]

    def build(self, s, cur, brk, cont):
        """returns list of open ends after executing s starting from the open ends cur.
        brk / cont: lists collecting open ends that jump to the loop/switch exit / loop head."""
        if s is None or not cur:
            return cur
        k = s['k']
        if k == 'Compound':
            for c in s['c']:
                cur = self.build(c, cur, brk, cont)
            return cur
        if k == 'If':
            if s.get('init'):
                cur = self.build(s['init'], cur, brk, cont)
            if s.get('var'):
                cur = self.build(s['var'], cur, brk, cont)
            t, f = self.cond(s['cond'], cur)
            to = self.build(s['then'], t, brk, cont)
            fo = self.build(s['else'], f, brk, cont) if s.get('else') else f
            return to + fo
        if k == 'While':
            head = self.new('join', {'k': 'LoopHead', 'l': s.get('l')})
            self.link(cur, head)
            t, f = self.cond(s['cond'], [head])
            b = []; c = []
            out = self.build(s['body'], t, b, c)
            self.link(out + c, head)
            return f + b
        if k == 'Do':
            head = self.new('join', {'k': 'LoopHead', 'l': s.get('l')})
            self.link(cur, head)
            b = []; c = []
            out = self.build(s['body'], [head], b, c)
            t, f = self.cond(s['cond'], out + c)
            self.link(t, head)
            return f + b
        if k == 'For':
            if s.get('init'):
                cur = self.build(s['init'], cur, brk, cont)
            head = self.new('join', {'k': 'LoopHead', 'l': s.get('l')})
            self.link(cur, head)
            if s.get('cond'):
                t, f = self.cond(s['cond'], [head])
            else:
                t, f = [head], []
            b = []; c = []
            out = self.build(s['body'], t, b, c)
            tail = out + c
            if s.get('inc') and tail:
                n = self.new('stmt', s['inc'])
                self.link(tail, n)
                tail = [n]
            self.link(tail, head)
            return f + b
        if k == 'Switch':
            n = self.new('stmt', {'k': 'SwitchCond', 'e': s['cond'], 'l': s.get('l')})
            self.link(cur, n)
            b = []
            body = s['body']
            items = body['c'] if body['k'] == 'Compound' else [body]
            fall = []
            has_default = False
            for it in items:
                if it['k'] in ('Case', 'Default'):
                    sub = it
                    labs = []
                    while sub['k'] in ('Case', 'Default'):
                        if sub['k'] == 'Default':
                            has_default = True
                        labs.append(sub.get('v'))
                        sub = sub['sub']
                    cn = self.new('join', {'k': 'CaseLabel', 'labels': labs, 'l': it.get('l')})
                    self.link([n] + fall, cn)
                    fall = self.build(sub, [cn], b, cont)
                else:
                    fall = self.build(it, fall, b, cont)
            outs = fall + b
            if not has_default:
                outs = outs + [n]
            return outs
        if k == 'Break':
            if brk is not None:
                brk.extend(cur)
            return []
        if k == 'Continue':
            if cont is not None:
                cont.extend(cur)
            return []
        if k == 'Return':
            n = self.new('stmt', s)
            self.link(cur, n)
            self.link([n], self.exit)
            return []
        if k == 'Throw':
            n = self.new('stmt', s)
            self.link(cur, n)
            self.link([n], self.throw)
            return []
        if k == 'Try':
            out = self.build(s['body'], cur, brk, cont)
            # handlers: entered from anywhere in the body; approximated as entered from the try's start
            for h in s.get('h', []):
                hn = self.new('join', {'k': 'Handler', 'ty': h.get('ty'), 'l': s.get('l')})
                self.link(cur, hn)
                out = out + self.build(h['body'], [hn], brk, cont)
            return out
        if k == 'Goto':
            n = self.new('stmt', s)
            self.link(cur, n)
            self.gotos.append((n, s['label']))
            return []
        if k == 'Label':
            n = self.new('join', s)
            self.labels[s['label']] = n
            self.link(cur, n)
            return self.build(s['sub'], [n], brk, cont)
        if k == 'Null':
            return cur
        if k in ('Case', 'Default'):
            return self.build(s['sub'], cur, brk, cont)
        # expression statement / Decl
        n = self.new('stmt', s)
        self.link(cur, n)
        if k in ('Call', 'MCall') and noreturn_call(s):
            self.link([n], self.throw)
            return []
        return [n]

    # ---- queries
    def reachable_avoiding(self, start_nodes, avoid):
        """nodes reachable from start_nodes (exclusive of their own test) without entering a node for which avoid(node)"""
        seen = set()
        st = []
        for s in start_nodes:
            for x in s.succ:
                st.append(x)
        while st:
            x = st.pop()
            if x.id in seen:
                continue
            if avoid(x):
                continue
            seen.add(x.id)
            st.extend(x.succ)
        return seen

    def preds(self):
        p = collections.defaultdict(list)
        for n in self.nodes:
            for s in n.succ:
                p[s.id].append(n)
        return p


def node_calls(node):
    """calls evaluated at a CFG node"""
    if node.ast is None:
        return []
    return list(calls(node.ast))


# --------------------------------------------------------------------------- small-step machine (E7)
class _Break(Exception):
    pass


class _Return(Exception):
    def __init__(self, v):
        self.v = v


class _Continue(Exception):
    pass


class Machine(Evaluator):
    """Concrete interpreter for small decision functions: locals, assignments, if / switch (with fall-through) /
    return.  Calls are delegated to `call_hook(machine, call_ast)`; globals to `global_hook(name)`.
    Values are Python ints / floats / strings (symbolic tokens).  Anything else raises Unsupported."""

    def __init__(self, env=None, call_hook=None, global_hook=None, tables=None):
        super().__init__(env or {}, tables)
        self.call_hook = call_hook
        self.global_hook = global_hook

    def ev(self, e):
        k = e['k']
        if k == 'Float':
            return float(e['v']) if not isinstance(e['v'], str) else float('nan')
        if k == 'Nullptr':
            return 0
        if k in ('Call', 'MCall', 'OpCall', 'Ctor'):
            if k == 'OpCall' and e['op'] in ('==', '!=') and len(e['args']) == 2 and self.call_hook is None:
                a, b = self.ev(e['args'][0]), self.ev(e['args'][1])
                return int((a == b) == (e['op'] == '=='))
            if self.call_hook is not None:
                r = self.call_hook(self, e)
                if r is not NotImplemented:
                    return r
            if k == 'OpCall' and e['op'] in ('==', '!=') and len(e['args']) == 2:
                a, b = self.ev(e['args'][0]), self.ev(e['args'][1])
                return int((a == b) == (e['op'] == '=='))
            raise Unsupported('call ' + pp(e)[:80])
        if k == 'Ref' and e.get('d') in ('global', 'staticlocal') and 'cv' not in e:
            if self.global_hook is not None:
                r = self.global_hook(e.get('q') or e['n'])
                if r is not NotImplemented:
                    return r
            raise Unsupported('global ' + e['n'])
        if k == 'Member' and ('.' + e['m']) in self.env and (e.get('obj') is None or strip_casts(e['obj']).get('k') == 'This'):
            return self.env['.' + e['m']]
        if k == 'Un' and e['op'] == '*':
            return self.ev(e['e'])
        if k == 'Un' and e['op'] in ('++', '--'):
            t = strip_casts(e['e'])
            old = self.ev(t)
            new = old + (1 if e['op'] == '++' else -1)
            self.assign(t, new)
            return old if e.get('post') else new
        if k == 'Bin' and e['op'] == '=':
            v = self.ev(e['rhs'])
            self.assign(strip_casts(e['lhs']), v)
            return v
        if k == 'Bin' and e['op'] in ('+=', '-=', '*='):
            t = strip_casts(e['lhs'])
            a, b = self.ev(t), self.ev(e['rhs'])
            v = a + b if e['op'] == '+=' else (a - b if e['op'] == '-=' else a * b)
            self.assign(t, v)
            return v
        if k == 'Cast' and e.get('ck') in ('IntegralToFloating', 'FloatingCast', 'PointerToBoolean', 'NullToPointer', 'IntegralCast', 'IntegralToBoolean'):
            v = self.ev(e['e'])
            if e['ck'] in ('PointerToBoolean', 'IntegralToBoolean'):
                return int(bool(v))
            if e['ck'] == 'IntegralCast' and isinstance(v, int):
                return wrap(v, e['to'])
            return v
        if k == 'Cast':
            return self.ev(e['e'])
        return super().ev(e)

    def assign(self, t, v):
        if t.get('k') == 'Ref' and t.get('d') in ('local', 'param'):
            self.env[t['id']] = v
        elif t.get('k') == 'Member':
            self.env['.' + t['m']] = v
        else:
            raise Unsupported('assignment target ' + pp(t))

    def exec(self, s):
        k = s['k']
        if k == 'Compound':
            for c in s['c']:
                self.exec(c)
        elif k == 'Decl':
            for v in s['vars']:
                if v.get('init') is not None:
                    self.env[v['id']] = self.ev(v['init'])
        elif k == 'If':
            if s.get('init'):
                self.exec(s['init'])
            if self.ev(s['cond']):
                self.exec(s['then'])
            elif s.get('else'):
                self.exec(s['else'])
        elif k == 'Switch':
            v = self.ev(s['cond'])
            groups = switch_cases(s)
            start = None
            for i, g in enumerate(groups):
                for l in g['labels']:
                    if l is not None and self.ev(l) == v:
                        start = i
            if start is None:
                for i, g in enumerate(groups):
                    if None in g['labels']:
                        start = i
            if start is not None:
                try:
                    for g in groups[start:]:
                        for st in g['stmts']:
                            self.exec(st)
                except _Break:
                    pass
        elif k == 'Break':
            raise _Break()
        elif k == 'Return':
            raise _Return(self.ev(s['e']) if s.get('e') else None)
        elif k == 'Null':
            pass
        elif k in ('While', 'For', 'Do'):
            # concrete loops, bounded by a step budget (interpretation over small finite inputs only)
            if k == 'For' and s.get('init'):
                self.exec(s['init'])
            first = True
            while True:
                self.fuel = getattr(self, 'fuel', 20000) - 1
                if self.fuel < 0:
                    raise Unsupported('loop budget exhausted')
                if not (k == 'Do' and first):
                    if s.get('cond') is not None and not self.ev(s['cond']):
                        break
                first = False
                try:
                    self.exec(s['body'])
                except _Break:
                    break
                except _Continue:
                    pass
                if k == 'For' and s.get('inc'):
                    self.ev(s['inc'])
        elif k == 'Continue':
            raise _Continue()
        elif k in ('Try', 'Goto', 'Label'):
            raise Unsupported('stmt ' + k)
        else:
            if k == 'Cast' and s.get('ck') == 'ToVoid':
                return
            self.ev(s)

    def call(self, body):
        try:
            self.exec(body)
        except _Return as r:
            return r.v
        return None


def _const_bool_assignments(ast):
    """[(local id, value or None)] for assignments to locals in a statement: value None = not a constant"""
    out = []
    if ast is None:
        return out
    if ast.get('k') == 'Decl':
        for v in ast.get('vars', []):
            init = strip_casts(v.get('init')) if v.get('init') is not None else None
            out.append((v['id'], init['cv'] if init is not None and init.get('k') in ('Bool', 'Int') and 'cv' in init else None))
        return out
    for x in walk(ast):
        if x['k'] == 'Bin' and x['op'].endswith('=') and x['op'] not in ('==', '!=', '<=', '>='):
            t = strip_casts(x['lhs'])
            if t is not None and t.get('k') == 'Ref' and t.get('d') in ('local', 'param'):
                r = strip_casts(x['rhs'])
                out.append((t['id'], r['cv'] if x['op'] == '=' and r is not None and r.get('k') in ('Bool', 'Int') and 'cv' in r else None))
        elif x['k'] == 'Un' and x['op'] in ('++', '--'):
            t = strip_casts(x['e'])
            if t is not None and t.get('k') == 'Ref' and t.get('d') in ('local', 'param'):
                out.append((t['id'], None))
        elif x['k'] in ('Call', 'MCall', 'Ctor'):
            # passed by (possibly non-const) reference: forget
            for a in x.get('args', []):
                sa = strip_casts(a)
                if sa is not None and sa.get('k') == 'Ref' and sa.get('d') in ('local', 'param') and not str(sa.get('ty', '')).startswith('const') and a.get('k') != 'Cast':
                    pass
    return out


def _cond_on_const(atom, state):
    """if the atomic condition tests a local whose constant value is known, return the branch taken, else None"""
    e = strip_casts(atom)
    if e is None:
        return None
    neg = False
    want = None
    if e.get('k') == 'Bin' and e['op'] in ('==', '!='):
        l, r = strip_casts(e['lhs']), strip_casts(e['rhs'])
        for a, b in ((l, r), (r, l)):
            if a is not None and a.get('k') == 'Ref' and a.get('d') in ('local', 'param') and b is not None and b.get('k') in ('Bool', 'Int') and 'cv' in b:
                if a['id'] in state:
                    v = (state[a['id']] == b['cv']) if isinstance(state[a['id']], int) else None
                    if v is None:
                        return None
                    return v if e['op'] == '==' else (not v)
        return None
    if e.get('k') == 'Ref' and e.get('d') in ('local', 'param') and e['id'] in state:
        return bool(state[e['id']])
    return None


def reach_with_constants(cfg, start_node, avoid):
    """Like CFG.reachable_avoiding from one node, but path-sensitive in boolean/integer locals that hold a known
    constant: the state is seeded with the constants assigned on every path... conservatively: with the assignments made
    by straight-line predecessors that dominate start_node is NOT attempted; the state starts from the assignments made
    at start_node's own successors chain.  Returns set of reachable node ids."""
    seen = set()
    st = [(s, ()) for s in start_node.succ]
    out = set()
    while st:
        n, state_t = st.pop()
        key = (n.id, state_t)
        if key in seen:
            continue
        seen.add(key)
        if avoid(n):
            continue
        out.add(n.id)
        state = dict(state_t)
        if n.kind == 'stmt' or n.kind == 'cond':
            for vid, val in _const_bool_assignments(n.ast if n.kind == 'stmt' else None):
                if val is None:
                    state.pop(vid, None)
                else:
                    state[vid] = val
        ns = tuple(sorted(state.items()))
        if n.kind == 'cond':
            br = _cond_on_const(n.ast, state)
            if br is True and n.cond_true is not None:
                st.append((n.cond_true, ns)); continue
            if br is False and n.cond_false is not None:
                st.append((n.cond_false, ns)); continue
        for s in n.succ:
            st.append((s, ns))
    return out
