"""C16-R8 — the order a text key gives does not depend on which sorts ran before: collators that live across comparisons are used one way only.

With ICU the text keys of xsl:sort are compared by ICUBridgeCollationCompareFunctorImpl.  It keeps collators across calls (the collator of the default locale in a member,
others in a cache).  A comparison with a case-order sets UCOL_CASE_FIRST on the collator it uses; a comparison without one sets nothing.  A collator that is reached by both
kinds of comparison answers the second kind according to whatever the first kind left in it: the same xsl:sort on the same nodes gives different orders depending on
history.  The rule finds, in the functor's class, the comparison members that set an attribute on a collator parameter and those that only compare, classifies every call
site by where the collator argument comes from (a member, the cache, a collator created for this call) and demands that no long-lived source is used both ways."""
from ..build import AnalysisBroken
from ..mast import walk, calls, callee, strip_casts, pp
from ..facts import short
from . import common

SETTERS = {'setAttribute', 'setStrength', 'setDecomposition'}


def run_rule(res, facts, tier):
    r = res.rule('C16-R8', 'ICU collation of text keys: a collator that lives across comparisons (member, cache) is either always used through the comparison that sets its case-first '
                 'attribute or never - otherwise a key without case-order is compared according to what an earlier sort left in the collator', floor=3)
    fns = [a for a in facts.all_asts(r'/ICUBridge/ICUBridgeCollationCompareFunctorImpl\.(cpp|hpp)') if a.get('body') is not None and 'ICUBridgeCollationCompareFunctorImpl' in (a.get('cls') or '')]
    if not fns:
        r.ok('no ICU bridge in this build', 'the library is built without ICU: text keys are compared by the default functor, which keeps nothing')
        r.instances += 2
        return r
    # which (function, parameter) pairs set attributes on / only compare with a collator parameter
    kind = {}
    for a in fns:
        for i, p in enumerate(a['params']):
            if 'Collator' not in (p.get('ty') or ''):
                continue
            sets = cmp_ = False
            for c in calls(a['body']):
                o = strip_casts(c.get('obj')) if c.get('obj') is not None else None
                if c.get('k') == 'MCall' and isinstance(o, dict) and o.get('k') == 'Ref' and o.get('d') == 'param' and o.get('id') == p.get('id'):
                    if c.get('n') in SETTERS:
                        sets = True
                    if c.get('n') == 'compare':
                        cmp_ = True
            if sets or cmp_:
                kind[(a['usr'], i)] = 'sets' if sets else 'compares'
    if not any(v == 'sets' for v in kind.values()) or not any(v == 'compares' for v in kind.values()):
        raise AnalysisBroken('C16-R8: the two kinds of comparison (with / without setting an attribute on the collator) were not both found: %s' % sorted(set(kind.values())))
    uses = {}
    for a in fns:
        # where locals come from
        origin = {}
        for x in walk(a['body']):
            if x.get('k') == 'Decl':
                for v in x.get('vars', []):
                    if v.get('init') is not None:
                        names = {(c.get('n') or callee(c).split('::')[-1]) for c in calls(v['init'])}
                        ini = strip_casts(v['init'])
                        while isinstance(ini, dict) and ini.get('k') == 'Un' and ini.get('op') in ('*', '&'):
                            ini = strip_casts(ini['e'])
                        if isinstance(ini, dict) and ini.get('k') == 'Ref' and ini.get('d') == 'param':
                            origin[v['id']] = 'param'          # another name for a collator the caller passed
                        elif isinstance(ini, dict) and ini.get('k') == 'Ref' and ini.get('d') == 'local' and ini.get('id') in origin:
                            origin[v['id']] = origin[ini['id']]
                        elif isinstance(ini, dict) and ini.get('k') == 'Member' and (ini.get('obj') or {}).get('k') == 'This':
                            origin[v['id']] = 'the member ' + ini['m']
                        elif 'getCachedCollator' in names:
                            origin[v['id']] = 'the collator cache'
                        elif 'createCollator' in names:
                            origin[v['id']] = 'fresh'
            elif x.get('k') == 'Bin' and x.get('op') == '=':
                t = strip_casts(x['lhs'])
                if isinstance(t, dict) and t.get('k') == 'Ref' and t.get('d') == 'local' and origin.get(t['id']) == 'the collator cache':
                    pass        # the cached variable re-assigned from a guard after cacheCollator(): still the cache
        cached_fn = any((c.get('n') or '') == 'cacheCollator' for c in calls(a['body']))
        for c in calls(a['body']):
            for (usr, i), kd in kind.items():
                if c.get('usr') != usr or len(c.get('args', [])) <= i:
                    continue
                arg = strip_casts(c['args'][i])
                while isinstance(arg, dict) and arg.get('k') == 'Un' and arg.get('op') == '*':
                    arg = strip_casts(arg['e'])
                if isinstance(arg, dict) and arg.get('k') == 'MCall' and arg.get('n') == 'get':
                    arg = strip_casts(arg.get('obj'))
                src = None
                if isinstance(arg, dict) and arg.get('k') == 'Member' and (arg.get('obj') or {}).get('k') == 'This':
                    src = 'the member ' + arg['m']
                elif isinstance(arg, dict) and arg.get('k') == 'Ref' and arg.get('d') == 'local':
                    src = origin.get(arg['id'])
                    if src == 'fresh' and cached_fn and 'AutoPtr' not in (arg.get('ty') or ''):
                        src = 'the collator cache'
                elif isinstance(arg, dict) and arg.get('k') == 'Ref' and arg.get('d') == 'param':
                    src = 'param'       # passed on: the caller's call site decides
                if src is None:
                    raise AnalysisBroken('C16-R8: %s passes a collator of unknown origin (%s)' % (short(a.get('fq') or ''), pp(c['args'][i])[:50]))
                if src in ('fresh', 'param'):
                    continue
                uses.setdefault(src, {}).setdefault(kd, []).append((a, c))
    if not uses:
        raise AnalysisBroken('C16-R8: no use of a long-lived collator found')
    for src, d in sorted(uses.items()):
        if 'sets' in d and 'compares' in d:
            a, c = d['sets'][0]
            b, c2 = d['compares'][0]
            r.violation('ICU collation: %s is used with and without setting its attributes' % src,
                        '%s compares through %s, which sets the case-first attribute of the collator, and %s compares through the variant that sets nothing: a text key without '
                        'case-order is then ordered upper-first or lower-first depending on the last sort that had a case-order' %
                        (short(a.get('fq') or ''), pp(c)[:40], short(b.get('fq') or '')), common.file_line(a, c))
        else:
            kd = 'sets' if 'sets' in d else 'compares'
            r.ok('ICU collation: %s' % src, 'always compared %s (%d call site(s))' % ('after setting the case-first attribute' if kd == 'sets' else 'without touching its attributes', len(d[kd])))
    r.instances += len(kind)
    return r
