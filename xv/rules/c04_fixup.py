"""C04-R9 — the content fix-ups of xsl:comment and xsl:processing-instruction by interpretation.

XSLT 1.0 7.4 / 7.3 let a processor repair content that would not be well-formed: a space after every '-' that is followed by another '-' or ends a comment, a space
between '?' and '>' in processing-instruction data.  ElemComment::endElement and ElemPI::endElement do that in place with string iterators.  Both are interpreted on every
string of up to 7 characters over {a, -} resp. {a, ?, >} (the string is a vector of characters, its iterators are positions in it, insert() moves the tail).  What is
handed to the serializer must contain no '--', not end in '-' (no '?>'), and be the original with spaces inserted only at those places."""
import itertools
from ..build import AnalysisBroken
from ..mast import Unsupported, callee, strip_casts, pp
from ..facts import NS
from ..omach import OMachine, Obj, Vec, It, Fault
from . import common


class FWorld:
    def __init__(self, facts):
        self.facts = facts
        self.depth = 0
        self.calls = 0
        self.max_calls = 3000
        self.pending = []
        self.out = None

    def tables(self, q):
        return None

    def glob(self, name):
        return ('GLOBAL', name.split('::')[-1])

    def allow(self, body, c):
        return False

    def hook(self, m, c):
        k = c['k']
        n = c.get('n') or callee(c).split('::')[-1]
        if k == 'MCall':
            if n in ('endChildrenToString', 'popCopyTextNodesOnly'):
                return 0
            if n == 'getAndPopCachedString':
                if not self.pending:
                    raise Unsupported('more cached strings popped than the instruction pushed')
                return self.pending.pop(0)
            if n in ('comment', 'processingInstruction'):
                self.out = [m.ev(x) for x in c['args']]
                return 0
            tgt = m.target_obj(c)
            if isinstance(tgt, Vec) and tgt.kind == 'str':
                if n == 'c_str':
                    return tgt
                if n == 'append' and len(c['args']) == 2:
                    cnt, ch = m.ev(c['args'][0]), m.ev(c['args'][1])
                    tgt.items.extend([ch] * int(cnt))
                    return tgt
                if n == 'length':
                    return len(tgt.items)
        return NotImplemented


def text(v):
    return ''.join(chr(x) for x in v.items) if isinstance(v, Vec) else str(v)


def spec_comment(s):
    out = ''
    for i, ch in enumerate(s):
        out += ch
        if ch == '-' and (i + 1 == len(s) or s[i + 1] == '-'):
            out += ' '
    return out


def spec_pi(s):
    return s.replace('?>', '? >')


def run_rule(res, facts, tier):
    r = res.rule('C04-R9', "content fix-ups: ElemComment::endElement and ElemPI::endElement interpreted on every string of up to 7 characters over {a, -} resp. {a, ?, >}: the data handed "
                 "to the serializer has no '--' and no final '-' (no '?>') and is the original with a space inserted exactly at those places (XSLT 1.0 7.4, 7.3)", floor=500)
    w = FWorld(facts)

    def one(name):
        c = [a for a in facts.asts(name, must=False) if a.get('body') is not None and len(a['params']) == 1]
        if len(c) != 1:
            raise AnalysisBroken('%s: %d bodies' % (name, len(c)))
        return c[0]
    maxlen = 8 if tier == 'thorough' else 7
    for kind, fn, alpha, spec in (('comment', one('ElemComment::endElement'), 'a-', spec_comment), ('processing instruction', one('ElemPI::endElement'), 'a?>', spec_pi)):
        reported = 0
        ml = maxlen if kind == 'comment' else maxlen - 1
        for ln in range(0, ml + 1):
            for t in itertools.product(alpha, repeat=ln):
                s = ''.join(t)
                data = Vec([ord(ch) for ch in s], 'str')
                w.pending = [data] if kind == 'comment' else [data, Vec([ord('t')], 'str')]
                w.out = None
                w.calls = 0
                this = Obj(NS + ('ElemComment' if kind == 'comment' else 'ElemPI'), {})
                site = '%s %r' % (kind, s)
                try:
                    m = OMachine(w, {}, this)
                    m.fuel = 4000
                    m.run_body(fn, ['ECTX'], this)
                    got = text(w.out[-1]) if w.out else None
                except Fault as f:
                    got = 'FAULT: %s' % f
                except Unsupported as u:
                    raise AnalysisBroken('%s::endElement outside the interpreted subset on %s: %s' % ('ElemComment' if kind == 'comment' else 'ElemPI', site, u))
                want = spec(s)
                if got == want:
                    r.instances += 1
                    continue
                reported += 1
                if reported <= 3:
                    bad = "contains '--' or ends in '-'" if kind == 'comment' and got is not None and ('--' in got or got.endswith('-')) else \
                          ("contains '?>'" if got is not None and '?>' in got else 'is not the original with single spaces inserted')
                    r.violation(site, 'the serializer receives %r, which %s; required %r' % (got, bad, want), common.file_line(fn))
                else:
                    r.instances += 1
    return r
