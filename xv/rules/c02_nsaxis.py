"""C02-R20 — the namespace axis: one node per prefix in scope, none for a default namespace that was undeclared.

XPath 1.0 5.4: an element has a namespace node for every prefix whose nearest declaration on the element or an ancestor binds it, and one for the default namespace if the
nearest xmlns declaration is non-empty; xmlns="" takes the default namespace away - there is then NO node for it, whatever an ancestor further up declares.
XPath::findNamespace (the axis function behind namespace::) is interpreted on chains of three elements, each with no / a first / a second / an empty default declaration and
no / a first / a second declaration of a prefix (576 chains); the node test accepts everything (namespace::*).  The set of (name, value) pairs collected must be the
namespaces in scope."""
import itertools
from ..build import AnalysisBroken
from ..mast import Unsupported, callee, strip_casts
from ..facts import NS
from ..omach import OMachine, Obj, Fault
from . import common
from .c09_match import NList


class E:
    identity = True

    def __init__(self, kind, name='', value='', parent=None):
        self.kind, self.name, self.value, self.parent = kind, name, value, parent
        self.attrs = []


class AMap:
    identity = True

    def __init__(self, owner):
        self.owner = owner


class NWorld:
    def __init__(self, facts):
        self.facts = facts
        self.depth = 0; self.calls = 0; self.max_calls = 4000
        self.T = {k: facts.enumconst.get(NS + 'XalanNode::' + k) for k in ('ELEMENT_NODE', 'ATTRIBUTE_NODE', 'DOCUMENT_NODE')}
        if None in self.T.values():
            raise AnalysisBroken('node type constants not found')
        self.doc = None

    def tables(self, q):
        return None

    def glob(self, name):
        n = name.split('::')[-1]
        return {'s_XMLNamespace': 'xmlns', 's_XMLNamespaceWithSeparator': 'xmlns:', 's_emptyString': ''}.get(n, ('GLOBAL', n))

    def allow(self, body, c):
        return False

    def destructor(self, o):
        return None

    def hook(self, m, c):
        k = c['k']
        n = c.get('n') or callee(c).split('::')[-1]
        a = c.get('args', [])
        if k == 'Ctor' and (c.get('cls') or '').endswith('NodeTester'):
            return Obj('tester', {})
        if k == 'OpCall' and c.get('op') == '()' and a:
            f = m.ev(a[0])
            if isinstance(f, Obj) and f.cls == 'tester':
                return 1            # namespace::* : every namespace declaration passes (the tester itself is C09-R9's business)
        if k == 'OpCall' and c.get('op') in ('==', '!=') and len(a) == 2:
            x, y = m.ev(a[0]), m.ev(a[1])
            if isinstance(x, str) and isinstance(y, str):
                return int((x == y) == (c['op'] == '=='))
        if k == 'Call' and n == 'startsWith' and len(a) == 2:
            return int(str(m.ev(a[0])).startswith(str(m.ev(a[1]))))
        if k == 'Call' and n == 'equals' and len(a) == 2:
            return int(m.ev(a[0]) == m.ev(a[1]))
        if k == 'MCall':
            tgt = m.target_obj(c)
            if isinstance(tgt, E):
                if n == 'getNodeType':
                    return self.T[{'elem': 'ELEMENT_NODE', 'attr': 'ATTRIBUTE_NODE', 'doc': 'DOCUMENT_NODE'}[tgt.kind]]
                if n == 'getOwnerDocument':
                    return self.doc
                if n == 'getAttributes':
                    return AMap(tgt) if tgt.kind == 'elem' else 0
                if n == 'getParentNode':
                    return tgt.parent if tgt.parent is not None else 0
                if n == 'getNodeName':
                    return tgt.name
                if n == 'getNodeValue':
                    return tgt.value
                raise Unsupported('node method ' + n)
            if isinstance(tgt, AMap):
                if n == 'getLength':
                    return len(tgt.owner.attrs)
                if n == 'item':
                    i = int(m.ev(a[0]))
                    return tgt.owner.attrs[i] if 0 <= i < len(tgt.owner.attrs) else 0
            if isinstance(tgt, NList):
                if n == 'empty':
                    return int(not tgt.items)
                if n == 'item':
                    return tgt.items[int(m.ev(a[0]))]
                if n == 'getLength':
                    return len(tgt.items)
                if n == 'addNode':
                    tgt.items.append(m.ev(a[0])); return 0
                if n == 'reverse':
                    tgt.items.reverse(); return 0
                if n in ('setDocumentOrder', 'setReverseDocumentOrder'):
                    return 0
                raise Unsupported('node list method ' + n)
            if isinstance(tgt, Obj) and tgt.cls.endswith('XPathExpression'):
                if n == 'getOpCodeArgumentLength':
                    return 1
            if n == 'getExpression':
                return Obj(NS + 'XPathExpression', {})
        return NotImplemented


def run_c12_rule(res, facts, tier):
    return run_rule(res, facts, tier, rid='C12-R10')


def run_rule(res, facts, tier, rid='C02-R20'):
    if rid == 'C12-R10':
        r = res.rule('C12-R10', 'the namespace axis delivers its nodes in document order, as it flags them: XPath::findNamespace interpreted on the 576 chains of C02-R20; the list that is '
                     'marked setDocumentOrder() is ordered by (element from the outermost in, position of the declaration among the attributes of its element) - the order every '
                     'index-based comparison (unions, sorted inserts) assumes', floor=500)
    else:
      r = res.rule('C02-R20', 'the namespace axis: XPath::findNamespace interpreted on chains of three elements with every combination of no / a first / a second / an empty default '
                   'declaration and no / two declarations of a prefix: the nodes collected are exactly the namespaces in scope - one per prefix from its nearest declaration, and '
                   'none for a default namespace that xmlns="" has taken away, whatever is declared further up (XPath 1.0 5.4)', floor=500)
    cands = [a for a in facts.asts('XPath::findNamespace', must=False) if a.get('body') is not None]
    if len(cands) != 1:
        raise AnalysisBroken('XPath::findNamespace: %d bodies' % len(cands))
    fn = cands[0]
    if len(fn['params']) != 5:
        raise AnalysisBroken('XPath::findNamespace has %d parameters (5 expected)' % len(fn['params']))
    w = NWorld(facts)
    dchoices = (None, 'urn:d1', 'urn:d2', '')
    pchoices = (None, 'urn:p1', 'urn:p2')
    reported = 0
    for d0, d1, d2, p0, p2 in itertools.product(dchoices, dchoices, dchoices, pchoices, pchoices):
        doc = E('doc')
        w.doc = doc
        chain = []
        parent = doc
        for i, (d, p) in enumerate(((d0, p0), (d1, None), (d2, p2))):
            e = E('elem', 'e%d' % i, '', parent)
            # a second attribute order as well: the prefix declaration before / after the default one
            decls = ([('xmlns', d)] if d is not None else []) + ([('xmlns:p', p)] if p is not None else []) + [('id', 'x')]
            if i == 2:
                decls.reverse()
            for nm, v in decls:
                e.attrs.append(E('attr', nm, v, e))
            chain.append(e)
            parent = e
        ctx = chain[-1]
        want = {}
        for e in chain:                      # outermost first: inner declarations override
            for at in e.attrs:
                if at.name == 'xmlns' or at.name.startswith('xmlns:'):
                    want[at.name] = at.value
        want = {k: v for k, v in want.items() if not (k == 'xmlns' and v == '')}
        site = 'namespace::* of <e2%s> in <e1%s> in <e0%s>' % tuple(''.join(' %s="%s"' % (a.name, a.value) for a in e.attrs if a.name != 'id') for e in reversed(chain))
        out = NList()
        w.calls = 0
        try:
            m = OMachine(w, {}, Obj(NS + 'XPath', {'m_expression': Obj(NS + 'XPathExpression', {})}))
            m.fuel = 20000
            m.run_body(fn, ['ECTX', ctx, 0, 0, out], m.this)
        except Fault as f:
            r.violation('namespace axis: fault', '%s: %s' % (site, f), common.file_line(fn)); continue
        except Unsupported as u:
            raise AnalysisBroken('XPath::findNamespace outside the interpreted subset (%s): %s' % (site, u))
        got = [(x.name, x.value) for x in out.items]
        if rid == 'C12-R10':
            keys = [(chain.index(x.parent), x.parent.attrs.index(x)) for x in out.items if x.parent in chain]
            if keys == sorted(keys) and len(keys) == len(out.items):
                r.ok(site, 'in document order')
            else:
                reported += 1
                if reported <= 3:
                    r.violation('namespace axis: the list flagged as document order is not in document order',
                                '%s delivers %s; by element and attribute position: %s' % (site, [x.name for x in out.items], [x.name for _, x in sorted(zip(keys, out.items), key=lambda t: t[0])]),
                                common.file_line(fn))
                else:
                    r.instances += 1
            continue
        if sorted(got) == sorted(want.items()) and len(got) == len(set(got)):
            r.ok(site, str(sorted(want)))
        else:
            reported += 1
            extra = [g for g in got if g not in want.items()]
            missing = [g for g in want.items() if g not in got]
            if reported <= 4:
                r.violation('namespace axis: %s' % ('a default namespace node although xmlns="" is nearer' if any(g[0] == 'xmlns' for g in extra) and '' in (d0, d1, d2) else
                                                   ('a namespace node too many' if extra else 'a namespace in scope is missing')),
                            '%s yields %s; in scope: %s' % (site, sorted(got), sorted(want.items())), common.file_line(fn))
            else:
                r.instances += 1
    return r
