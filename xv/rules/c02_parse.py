"""C02-R14 — the expression parser accepts exactly the XPath 1.0 grammar (bounded).

XPathProcessorImpl's recursive-descent functions (Expr ... Step, Basis, NodeTest, Predicate, PrimaryExpr, FunctionCall ...) with the token helpers (tokenIs, nextToken,
lookahead, consumeExpected ...) are interpreted on token sequences: every sentence the reference grammar derives up to a bound, and every sequence obtained from one of
those by deleting, replacing or inserting one token.  The token queue of XPathExpression is modelled by its contract (next / previous / relative / insert); everything
that writes the op-code map is opaque; error() ends the parse as a rejection.  The verdict (accepted with all tokens consumed / rejected) must be the one of a reference
recognizer for the XPath 1.0 grammar (Recommendation section 2 and 3, with the disambiguation rules of 3.7).  The tokenizer itself (splitting a string into tokens) is
not interpreted: the sequences are given as its output would be (`::`, `..`, numbers and quoted literals are single tokens; `//`, `!=`, `<=` are two).
What is decided: accept / reject, not the op codes produced (C02-R1, R2 and C11 look at those)."""
import itertools
from ..build import AnalysisBroken
from ..mast import Machine, Unsupported, callee, strip_casts, pp
from ..facts import NS, short
from . import common


class Reject(Exception):
    pass


class PVec:
    def __init__(self):
        self.items = []


class PMach(Machine):
    def __init__(self, world, env):
        super().__init__(env, call_hook=world.hook, global_hook=world.glob, tables=world.tables)
        self.world = world

    def ev(self, e):
        k = e['k']
        if k == 'Bin' and e['op'] in ('==', '!='):
            l, r = self.ev(e['lhs']), self.ev(e['rhs'])
            return int((l == r) == (e['op'] == '=='))
        if k == 'Cast' and e.get('ck') == 'PointerToBoolean':
            v = self.ev(e['e'])
            return int(v is not None and v != 0)
        if k == 'Member' and e.get('obj') is not None and strip_casts(e['obj']).get('k') != 'This':
            o = self.ev(e['obj'])
            if isinstance(o, dict) and e['m'] in o:
                return o[e['m']]
        return super().ev(e)

    def assign(self, t, v):
        k = t.get('k')
        if k in ('OpCall', 'MCall', 'Index'):
            # theArgs[0] = ..., m_positionPredicateStack.back() = true: bookkeeping for the op-code map
            if k == 'MCall' and t.get('n') == 'back':
                o = self.ev(t['obj'])
                if isinstance(o, PVec) and o.items:
                    o.items[-1] = v
            return
        super().assign(t, v)


class World:
    OPAQUE_PREFIX = ('appendOpCode', 'insertOpCode', 'updateOpCodeLength', 'updateShiftedOpCodeLength', 'opCodeMapLength', 'setOpCodeArgs', 'setOpCodeMapValue', 'getOpCodeMapValue',
                     'pushArgumentOnOpCodeMap', 'pushCurrentTokenOnOpCodeMap', 'pushNumberLiteralOnOpCodeMap', 'pushValueOnOpCodeMap', 'replaceOpCode', 'updateOpCodeLengthAfterNodeTest',
                     'getOpCodeLengthFromOpMap', 'getNextOpCodePosition')

    def __init__(self, facts):
        self.facts = facts
        self.tokens = []
        self.pos = 0
        self.depth = 0
        self.steps = 0
        self._tables = {}
        self._strings = {}
        self.interpreted = set()
        self.ENDOP = facts.enumconst.get(NS + 'XPathExpression::eENDOP')
        self.entry_tables = {}
        for nm in ('s_axisTable', 's_nodeTypeTable', 's_functionTable'):
            t = facts.table('XPathProcessorImpl::' + nm, must=False)
            if t is None:
                raise AnalysisBroken('XPathProcessorImpl::%s not found' % nm)
            ents = {}
            for row in facts.resolve(t['val']):
                name, op = row[0], row[1]
                s = self.chars(name)
                if s is None:
                    raise AnalysisBroken('%s: unreadable entry %r' % (nm, row))
                ents[s] = op['v'] if isinstance(op, dict) else op
            self.entry_tables[nm] = ents

    def chars(self, v):
        if isinstance(v, dict):
            if v.get('val') is not None:
                return self.chars(v['val'])
            if 'ref' in v:
                t = self.facts.TB.get(v['ref'])
                return self.chars(self.facts.resolve(t['val'])) if t is not None else None
            return None
        if isinstance(v, list):
            out = ''
            for c in v:
                c = c.get('val', c.get('v')) if isinstance(c, dict) else c
                if c == 0:
                    break
                if not isinstance(c, int):
                    return None
                out += chr(c)
            return out
        return None

    def tables(self, q):
        if q not in self._tables:
            t = self.facts.table(q, must=False)
            self._tables[q] = None if t is None else [x['v'] if isinstance(x, dict) and 'v' in x else (x.get('val') if isinstance(x, dict) else x) for x in t['val']]
        return self._tables[q]

    def glob(self, name):
        n = name.split('::')[-1]
        if n == 's_emptyString':
            return ''
        if name not in self._strings:
            t = self.facts.table(name, must=False)
            s = None
            if t is not None and 'char16_t' in (t.get('type') or ''):
                s = self.chars(self.facts.resolve(t['val']))
            self._strings[name] = s
        if self._strings[name] is not None:
            return self._strings[name]
        if n in ('s_axisTable', 's_nodeTypeTable', 's_functionTable'):
            return ('TABLE', n)
        if n.endswith('TableSize'):
            return 0
        return ('GLOBAL', n)

    # ---- token queue (XPathExpression), by contract
    def rel(self, off, forward):
        if not forward and off <= self.pos:
            p = self.pos - off
        elif forward and self.pos + off < len(self.tokens):
            p = self.pos + off
        else:
            p = len(self.tokens)
        return 0 if p == len(self.tokens) else ('TOK', self.tokens[p])

    def call_this(self, m, a, c):
        args = [m.ev(x) for x in c.get('args', [])]
        env = {p['id']: v for p, v in zip(a['params'], args)}
        for p in a['params'][len(args):]:
            if p.get('init') is None:
                raise Unsupported('missing argument for ' + pp(c)[:50])
            env[p['id']] = m.ev(p['init'])
        te = {k: v for k, v in m.env.items() if isinstance(k, str) and k.startswith('.')}
        env.update(te)
        self.depth += 1
        self.steps += 1
        if self.depth > 60 or self.steps > 4000:
            raise Unsupported('parser does not terminate (depth %d, calls %d)' % (self.depth, self.steps))
        try:
            sub = PMach(self, env)
            sub.fuel = 3000
            r = sub.call(a['body'])
            for k in te:
                m.env[k] = sub.env[k]
            self.interpreted.add((a.get('q') or c.get('fn') or '?').split('::')[-1])
            return r
        finally:
            self.depth -= 1

    def hook(self, m, c):
        k = c['k']
        n = c.get('n') or callee(c).split('::')[-1]
        cls = c.get('cls') or ''
        fn = c.get('fn') or ''
        if n == '__assert_fail':
            raise Unsupported('assertion fails: ' + (pp(c['args'][0])[:100] if c.get('args') else ''))
        if k == 'Ctor':
            if len(c.get('args', [])) == 1 and not cls.endswith('Vector') and 'OpCodeMapValueVectorType' not in (c.get('ty') or ''):
                try:
                    return m.ev(c['args'][0])
                except Unsupported:
                    return 'OBJ'
            return 'OBJ'
        if k == 'OpCall':
            op = c['op']
            if op == '[]':
                s = m.ev(c['args'][0])
                if isinstance(s, str):
                    i = int(m.ev(c['args'][1]))
                    if i == len(s):
                        return 0
                    if not (0 <= i < len(s)):
                        raise Unsupported('character %d of token %r' % (i, s))
                    return ord(s[i])
                return 0
            if op == '=' and len(c['args']) == 2:
                v = m.ev(c['args'][1])
                if isinstance(v, tuple) and v[0] == 'TOK':
                    v = v[1]
                m.assign(strip_casts(c['args'][0]), v)
                return v
            if op in ('==', '!=') and len(c['args']) == 2:
                a, b = m.ev(c['args'][0]), m.ev(c['args'][1])
                return int((a == b) == (op == '=='))
            if op in ('->', '*') and len(c['args']) == 1:
                return m.ev(c['args'][0])
            return NotImplemented
        if n == 'error' and (k == 'MCall') and cls.endswith('XPathProcessorImpl'):
            raise Reject(pp(c['args'][0])[:60] if c.get('args') else 'error')
        if k == 'MCall':
            o = strip_casts(c.get('obj')) if c.get('obj') is not None else None
            if cls.endswith('XPathExpression'):
                if n == 'getNextToken':
                    if self.pos < len(self.tokens):
                        self.pos += 1
                        return ('TOK', self.tokens[self.pos - 1])
                    return 0
                if n == 'getPreviousToken':
                    if self.pos > 0:
                        self.pos -= 1
                        return ('TOK', self.tokens[self.pos])
                    return 0
                if n == 'getRelativeToken':
                    off = int(m.ev(c['args'][0]))
                    d = m.ev(c['args'][1])
                    fwd = self.facts.enumconst.get(NS + 'XPathExpression::eRelativeForward')
                    return self.rel(off, d == fwd)
                if n == 'getTokenPosition':
                    return self.pos
                if n == 'tokenQueueSize':
                    return len(self.tokens)
                if n == 'hasMoreTokens':
                    return int(self.pos < len(self.tokens))
                if n == 'insertToken':
                    v = m.ev(c['args'][-1])
                    if self.pos < 1:
                        raise Unsupported('insertToken before the first token')
                    self.tokens.insert(self.pos - 1, v if isinstance(v, str) else '')
                    return 0
                if n in ('replaceRelativeToken',):
                    return 0
                if n.startswith(self.OPAQUE_PREFIX) or n in self.OPAQUE_PREFIX:
                    return 0
                raise Unsupported('XPathExpression::' + n)
            if cls.endswith('XToken') and n == 'str':
                v = m.ev(c['obj'])
                return v[1] if isinstance(v, tuple) and v[0] == 'TOK' else v
            if cls.endswith('XalanDOMString'):
                s = m.ev(c['obj'])
                if isinstance(s, tuple) and s[0] == 'TOK':
                    s = s[1]
                if isinstance(s, str):
                    if n in ('length', 'size'):
                        return len(s)
                    if n == 'empty':
                        return int(not s)
                    if n == 'c_str':
                        return s
                    if n == 'clear':
                        m.assign(strip_casts(c['obj']), '')
                        return 0
                return 0
            if 'XalanVector' in cls or 'XalanDeque' in cls or 'BoolVector' in cls:
                v = m.ev(c['obj'])
                if isinstance(v, PVec):
                    if n == 'push_back':
                        v.items.append(m.ev(c['args'][0])); return 0
                    if n == 'pop_back':
                        if not v.items:
                            raise Unsupported('pop_back of an empty predicate stack')
                        v.items.pop(); return 0
                    if n == 'empty':
                        return int(not v.items)
                    if n == 'back':
                        return v.items[-1]
                    if n == 'clear':
                        v.items = []; return 0
                return 0
            if cls.endswith('XPathProcessorImpl') and (o is None or o.get('k') == 'This'):
                if n == 'replaceTokenWithNamespaceToken':
                    return 0
                if n == 'searchTable':
                    return self.search(m, c)
                a = self.facts.ast(c['usr']) if c.get('usr') else None
                if a is not None and a.get('body') is not None:
                    return self.call_this(m, a, c)
                raise Unsupported('no body for XPathProcessorImpl::' + n)
            if n in ('getMemoryManager', 'getPooledString', 'get', 'getFunctionTable'):
                return 'OBJ'
            if n == 'nameToID':
                return 1
            return 'OBJ'
        if k == 'Call':
            if n == 'equals' and len(c['args']) == 2:
                a, b = m.ev(c['args'][0]), m.ev(c['args'][1])
                return int(a == b)
            if n == 'searchTable':
                return self.search(m, c)
            if n == 'isInstalledFunction':
                # the function table is C02-R10's business: id and key are installed, nothing else is assumed
                return int(m.ev(c['args'][0]) in ('id', 'key'))
            if n in ('toDouble',):
                return 0.0
            if n in ('NumberToDOMString',):
                return 0
            a = self.facts.ast(c['usr']) if c.get('usr') else None
            if a is not None and a.get('body') is not None and ('XalanXMLChar' in fn or 'XPathProcessorImpl' in fn):
                return self.call_this(m, a, c)
            return 'OBJ'
        return NotImplemented

    def search(self, m, c):
        t = m.ev(c['args'][0])
        key = m.ev(c['args'][2])
        if not (isinstance(t, tuple) and t[0] == 'TABLE'):
            raise Unsupported('searchTable over ' + repr(t))
        ents = self.entry_tables[t[1]]
        return {'m_opCode': ents.get(key, self.ENDOP), 'm_string': key}


# ------------------------------------------------------------------------------------------------------------------ reference recognizer (XPath 1.0)
NODETYPES = {'comment', 'text', 'processing-instruction', 'node'}
AXES = {'ancestor', 'ancestor-or-self', 'attribute', 'child', 'descendant', 'descendant-or-self', 'following', 'following-sibling', 'namespace', 'parent', 'preceding',
        'preceding-sibling', 'self'}
OPNAMES = {'and', 'or', 'mod', 'div'}
FUNCTION_ARITY = {'not': (1, 1)}


def is_name(t):
    return bool(t) and (t[0].isalpha() or t[0] == '_') and all(ch.isalnum() or ch in '-_.' for ch in t)


def is_number(t):
    return bool(t) and (t[0].isdigit() or (t[0] == '.' and len(t) > 1 and t[1].isdigit()))


def is_literal(t):
    return len(t) >= 2 and t[0] == t[-1] and t[0] in '\'"'


def classify(tokens):
    """XPath 1.0 3.7: token kinds after disambiguation"""
    kinds = []
    for i, t in enumerate(tokens):
        prev = kinds[i - 1] if i else None
        prevtok = tokens[i - 1] if i else None
        operand_context = prev is not None and not (prevtok in ('@', '::', '(', '[', ',') or prev == 'OP')
        nxt = tokens[i + 1] if i + 1 < len(tokens) else None
        if t == '*':
            kinds.append('OP' if operand_context else 'STAR')
        elif is_name(t):
            if operand_context:
                kinds.append('OP' if t in OPNAMES else 'BADNAME')
            elif nxt == '(':
                kinds.append('NODETYPE' if t in NODETYPES else 'FUNC')
            elif nxt == '::':
                kinds.append('AXIS' if t in AXES else 'BADAXIS')
            else:
                kinds.append('NAME')
        elif t in ('/', '|', '+', '-', '=', '!', '<', '>'):
            kinds.append('OP')
        elif is_number(t):
            kinds.append('NUM')
        elif is_literal(t):
            kinds.append('LIT')
        else:
            kinds.append(t)
    return kinds


class Ref:
    def __init__(self, tokens):
        self.t = tokens
        self.k = classify(tokens)
        self.i = 0

    def tok(self, d=0):
        return self.t[self.i + d] if self.i + d < len(self.t) else None

    def kind(self, d=0):
        return self.k[self.i + d] if self.i + d < len(self.k) else None

    def eat(self, t):
        if self.tok() == t:
            self.i += 1
            return True
        return False

    def need(self, t):
        if not self.eat(t):
            raise Reject('expected ' + t)

    def accept(self):
        try:
            self.expr()
            return self.i == len(self.t)
        except Reject:
            return False

    def expr(self):
        self.binary(0)

    LEVELS = [('or',), ('and',), ('=', '!='), ('<', '<=', '>', '>='), ('+', '-'), ('*', 'div', 'mod')]

    def op_at(self, level):
        t, k = self.tok(), self.kind()
        if k != 'OP':
            return 0
        ops = self.LEVELS[level]
        if t == '!' and self.tok(1) == '=' and '!=' in ops:
            return 2
        if t in ('<', '>') and level == 3:
            return 2 if self.tok(1) == '=' else 1
        if t in ops and t not in ('<', '>'):
            return 1
        return 0

    def binary(self, level):
        if level == len(self.LEVELS):
            return self.unary()
        self.binary(level + 1)
        while True:
            n = self.op_at(level)
            if not n:
                return
            self.i += n
            self.binary(level + 1)

    def unary(self):
        while self.tok() == '-' and self.kind() == 'OP':
            self.i += 1
        self.union()

    def union(self):
        self.path()
        while self.tok() == '|':
            self.i += 1
            self.path()

    def starts_step(self):
        t, k = self.tok(), self.kind()
        return t in ('.', '..', '@') or k in ('STAR', 'NAME', 'AXIS', 'NODETYPE')

    def path(self):
        t, k = self.tok(), self.kind()
        if t == '$' or t == '(' or k in ('LIT', 'NUM', 'FUNC'):
            self.primary()
            while self.tok() == '[':
                self.predicate()
            if self.tok() == '/':
                self.i += 1
                if self.tok() == '/':
                    self.i += 1
                self.relative()
            return
        if t == '/':
            self.i += 1
            if self.tok() == '/':
                self.i += 1
                self.relative()
            elif self.starts_step():
                self.relative()
            return
        self.relative()

    def relative(self):
        self.step()
        while self.tok() == '/':
            self.i += 1
            if self.tok() == '/':
                self.i += 1
            self.step()

    def step(self):
        t, k = self.tok(), self.kind()
        if t in ('.', '..'):
            self.i += 1
            return
        if k == 'AXIS':
            self.i += 1
            self.need('::')
        elif t == '@':
            self.i += 1
        self.nodetest()
        while self.tok() == '[':
            self.predicate()

    def nodetest(self):
        t, k = self.tok(), self.kind()
        if k == 'NODETYPE':
            self.i += 1
            self.need('(')
            if t == 'processing-instruction' and self.kind() == 'LIT':
                self.i += 1
            self.need(')')
        elif k == 'STAR':
            self.i += 1
        elif k == 'NAME':
            self.i += 1
            if self.tok() == ':':
                self.i += 1
                if self.kind() in ('STAR', 'NAME') or (self.tok() == '*'):
                    self.i += 1
                else:
                    raise Reject('local part')
        else:
            raise Reject('node test')

    def predicate(self):
        self.need('[')
        self.expr()
        self.need(']')

    def primary(self):
        t, k = self.tok(), self.kind()
        if t == '$':
            self.i += 1
            if not is_name(self.tok() or ''):
                raise Reject('variable name')
            self.i += 1
            if self.tok() == ':':
                self.i += 1
                if not is_name(self.tok() or ''):
                    raise Reject('variable local name')
                self.i += 1
        elif t == '(':
            self.i += 1
            self.expr()
            self.need(')')
        elif k in ('LIT', 'NUM'):
            self.i += 1
        elif k == 'FUNC':
            lo, hi = FUNCTION_ARITY.get(t, (None, None))
            if lo is None:
                raise Reject('function not in the modelled library')
            self.i += 1
            self.need('(')
            n = 0
            if self.tok() != ')':
                self.expr(); n = 1
                while self.tok() == ',':
                    self.i += 1
                    self.expr(); n += 1
            self.need(')')
            if not (lo <= n <= hi):
                raise Reject('arity')
        else:
            raise Reject('primary')


# ------------------------------------------------------------------------------------------------------------------ sentences
ALPHABET = ['/', '|', '=', '(', ')', '[', ']', '.', '..', '@', '*', 'a', '1', "'s'", '$', ',', 'and', 'div', '-', '::', 'child', 'text', 'not', '!', '<']


def sentences(maxlen):
    """sentences of the grammar over the alphabet, by bounded expansion (not all of them: a representative family)"""
    steps = [['a'], ['*'], ['.'], ['..'], ['@', 'a'], ['@', '*'], ['child', '::', 'a'], ['text', '(', ')'], ['a', '[', '1', ']'], ['child', '::', 'text', '(', ')']]
    rel = [s for s in steps]
    for s1, s2 in itertools.product(steps[:6], steps[:6]):
        rel.append(s1 + ['/'] + s2)
        rel.append(s1 + ['/', '/'] + s2)
    paths = [['/']] + rel + [['/'] + r for r in rel] + [['/', '/'] + r for r in rel[:10]]
    prim = [['1'], ["'s'"], ['$', 'a'], ['(', '1', ')'], ['(', '/', ')'], ['not', '(', '1', ')'], ['not', '(', '/', ')'], ['(', 'a', ')', '[', '1', ']'], ['$', 'a', '/', 'a'], ['(', 'a', ')', '/', '/', 'a']]
    operands = paths + prim
    out = [list(x) for x in operands]
    small = [['a'], ['/'], ['1'], ['*'], ['.'], ['$', 'a'], ['/', 'a'], ['@', 'a'], ['(', '/', ')'], ['text', '(', ')']]
    for op in (['|'], ['='], ['!', '='], ['<'], ['<', '='], ['and'], ['div'], ['*'], ['-']):
        for l, r in itertools.product(small, small):
            out.append(l + op + r)
    for l in small:
        out.append(['-'] + l)
        out.append(['-', '-'] + l)
        out.append(l + ['|'] + l + ['|', 'a'])
        out.append(['a', '['] + l + [']'])
        out.append(['not', '('] + l + [')'])
    seen = set(); res = []
    for s in out:
        if len(s) <= maxlen and tuple(s) not in seen:
            seen.add(tuple(s)); res.append(s)
    return res


def mutations(s, alphabet):
    for i in range(len(s)):
        yield s[:i] + s[i + 1:]
    for i in range(len(s)):
        for t in alphabet:
            if t != s[i]:
                yield s[:i] + [t] + s[i + 1:]
    for i in range(len(s) + 1):
        for t in alphabet:
            yield s[:i] + [t] + s[i:]


def run_rule(res, facts, tier):
    r = res.rule('C02-R14', 'the expression parser by interpretation: XPathProcessorImpl::Expr and the productions below it, with the token helpers, run on sentences of the XPath 1.0 '
                 'grammar (bounded) and on every sequence one token away from one (deletion, replacement, insertion over a 25-token alphabet, sampled in the quick tier); accepted '
                 'with all tokens consumed exactly when the reference recognizer for XPath 1.0 (with the disambiguation rules of 3.7) accepts', floor=1500)
    a = [x for x in facts.asts('XPathProcessorImpl::Expr', must=False) if x.get('body') is not None]
    nt = [x for x in facts.asts('XPathProcessorImpl::nextToken', must=False) if x.get('body') is not None]
    if len(a) != 1 or len(nt) != 1:
        raise AnalysisBroken('XPathProcessorImpl::Expr / nextToken: %d / %d bodies' % (len(a), len(nt)))
    a, nt = a[0], nt[0]
    w = World(facts)
    base = sentences(9 if tier == 'thorough' else 8)
    inputs = []
    seen = set()
    for s in base:
        if tuple(s) not in seen:
            seen.add(tuple(s)); inputs.append(s)
    stride = 1 if tier == 'thorough' else 7
    cnt = 0
    for s in base:
        if len(s) > (6 if tier == 'thorough' else 5):
            continue
        for mt in mutations(s, ALPHABET):
            cnt += 1
            if cnt % stride:
                continue
            if mt and tuple(mt) not in seen and len(seen) < (60000 if tier == 'thorough' else 6000):
                seen.add(tuple(mt)); inputs.append(mt)
    reported = {}
    n_acc = 0
    for toks in inputs:
        want = Ref(list(toks)).accept()
        w.tokens = list(toks)
        w.pos = 0
        w.steps = 0
        w.depth = 0
        env = {'.m_token': '', '.m_tokenChar': 0, '.m_expression': 'EXPR', '.m_xpath': 'XPATH', '.m_constructionContext': 'CCTX', '.m_prefixResolver': 'RES', '.m_locator': 0,
               '.m_isMatchPattern': 0, '.m_requireLiterals': 0, '.m_allowVariableReferences': 1, '.m_allowKeyFunction': 0, '.m_positionPredicateStack': PVec(), '.m_namespaces': PVec()}
        m = PMach(w, env)
        site = ' '.join(toks)
        try:
            try:
                w.call_this(m, nt, {'args': []})
                w.call_this(m, a, {'args': []})
                got = m.env['.m_token'] == ''
                why = 'tokens left: %s' % m.env['.m_token'] if not got else ''
            except Reject as x:
                got, why = False, str(x)
        except Unsupported as u:
            msg = str(u)
            if 'does not terminate' in msg or 'assertion fails' in msg or 'pop_back' in msg:
                got, why = None, msg
            else:
                raise AnalysisBroken('XPathProcessorImpl outside the interpreted subset on "%s": %s' % (site, u))
        if got is want:
            r.ok(site, 'accepted' if got else 'rejected')
            n_acc += int(bool(got))
            continue
        kind = 'valid expression rejected' if want else ('not an expression, accepted' if got else 'parser fault')
        reported.setdefault(kind, 0)
        reported[kind] += 1
        if reported[kind] <= 3:
            r.violation('%s: %s' % (kind, site), 'XPath 1.0 %s this token sequence; the parser %s' % (
                'derives' if want else 'does not derive', 'accepts it' if got else ('rejects it (%s)' % why if got is False else 'fails: %s' % why)), common.file_line(a))
        else:
            r.instances += 1
    r.note('%d token sequences (%d accepted); interpreted: %s' % (len(inputs), n_acc, sorted(w.interpreted)))
    return r


# ------------------------------------------------------------------------------------------------------------------ match patterns (XSLT 1.0 5.2)
class PatRef(Ref):
    def accept(self):
        try:
            self.pattern()
            return self.i == len(self.t)
        except Reject:
            return False

    def pattern(self):
        self.lpp()
        while self.tok() == '|':
            self.i += 1
            self.lpp()

    def lpp(self):
        t, k = self.tok(), self.kind()
        if k == 'FUNC' and t in ('id', 'key'):
            self.i += 1
            self.need('(')
            if self.kind() == 'LIT':
                self.i += 1
                while self.tok() == ',':
                    self.i += 1
                    if self.kind() != 'LIT':
                        raise Reject('literal argument')
                    self.i += 1
            self.need(')')
            if self.tok() == '/':
                self.i += 1
                if self.tok() == '/':
                    self.i += 1
                self.rpp()
            return
        if t == '/':
            self.i += 1
            if self.tok() == '/':
                self.i += 1
                self.rpp()
            elif self.starts_pstep():
                self.rpp()
            return
        self.rpp()

    def starts_pstep(self):
        t, k = self.tok(), self.kind()
        return t == '@' or k in ('STAR', 'NAME', 'AXIS', 'NODETYPE')

    def rpp(self):
        self.pstep()
        while self.tok() == '/':
            self.i += 1
            if self.tok() == '/':
                self.i += 1
            self.pstep()

    def pstep(self):
        t, k = self.tok(), self.kind()
        if k == 'AXIS':
            if t not in ('child', 'attribute'):
                raise Reject('axis')
            self.i += 1
            self.need('::')
        elif t == '@':
            self.i += 1
        self.nodetest()
        while self.tok() == '[':
            self.predicate()


PALPHABET = ['/', '|', '(', ')', '[', ']', '.', '@', '*', 'a', '1', "'s'", ',', '::', 'child', 'attribute', 'parent', 'text', 'id', 'key', '=', '$']


def pattern_sentences(maxlen):
    steps = [['a'], ['*'], ['@', 'a'], ['@', '*'], ['child', '::', 'a'], ['attribute', '::', 'a'], ['text', '(', ')'], ['a', '[', '1', ']'], ['a', '[', '@', 'a', ']'], ['child', '::', 'text', '(', ')']]
    rel = [list(s) for s in steps]
    for s1, s2 in itertools.product(steps[:6], steps[:6]):
        rel.append(s1 + ['/'] + s2)
        rel.append(s1 + ['/', '/'] + s2)
    idk = [['id', '(', "'s'", ')'], ['key', '(', "'s'", ',', "'s'", ')']]
    pats = [['/']] + rel + [['/'] + r for r in rel] + [['/', '/'] + r for r in rel[:12]] + idk
    for f in idk:
        for r in rel[:4]:
            pats.append(f + ['/'] + r)
            pats.append(f + ['/', '/'] + r)
    small = [['a'], ['/'], ['*'], ['@', 'a'], ['/', 'a'], ['/', '/', 'a'], ['text', '(', ')'], ['id', '(', "'s'", ')']]
    for l, r2 in itertools.product(small, small):
        pats.append(l + ['|'] + r2)
    seen = set(); res = []
    for s in pats:
        if len(s) <= maxlen and tuple(s) not in seen:
            seen.add(tuple(s)); res.append(s)
    return res


def run_pattern_rule(res, facts, tier):
    r = res.rule('C09-R8', 'the pattern parser by interpretation: XPathProcessorImpl::Pattern and the productions below it run on sentences of the XSLT 1.0 pattern grammar (bounded) '
                 'and on every sequence one token away from a short one; accepted with all tokens consumed exactly when the reference recognizer for XSLT 1.0 5.2 accepts '
                 '(the number of arguments of id() / key() is not decided here)', floor=1500)
    a = [x for x in facts.asts('XPathProcessorImpl::Pattern', must=False) if x.get('body') is not None]
    nt = [x for x in facts.asts('XPathProcessorImpl::nextToken', must=False) if x.get('body') is not None]
    if len(a) != 1 or len(nt) != 1:
        raise AnalysisBroken('XPathProcessorImpl::Pattern / nextToken: %d / %d bodies' % (len(a), len(nt)))
    a, nt = a[0], nt[0]
    w = World(facts)
    base = pattern_sentences(10 if tier == 'thorough' else 9)
    inputs, seen = [], set()
    for s in base:
        seen.add(tuple(s)); inputs.append(s)
    stride = 1 if tier == 'thorough' else 5
    cnt = 0
    for s in base:
        if len(s) > (6 if tier == 'thorough' else 5):
            continue
        for mt in mutations(s, PALPHABET):
            cnt += 1
            if cnt % stride:
                continue
            if mt and tuple(mt) not in seen and len(seen) < (50000 if tier == 'thorough' else 5000):
                seen.add(tuple(mt)); inputs.append(mt)
    reported = {}
    n_acc = 0
    for toks in inputs:
        want = PatRef(list(toks)).accept()
        w.tokens = list(toks); w.pos = 0; w.steps = 0; w.depth = 0
        env = {'.m_token': '', '.m_tokenChar': 0, '.m_expression': 'EXPR', '.m_xpath': 'XPATH', '.m_constructionContext': 'CCTX', '.m_prefixResolver': 'RES', '.m_locator': 0,
               '.m_isMatchPattern': 1, '.m_requireLiterals': 0, '.m_allowVariableReferences': 1, '.m_allowKeyFunction': 1, '.m_positionPredicateStack': PVec(), '.m_namespaces': PVec()}
        m = PMach(w, env)
        site = ' '.join(toks)
        try:
            try:
                w.call_this(m, nt, {'args': []})
                w.call_this(m, a, {'args': []})
                got = m.env['.m_token'] == ''
                why = 'tokens left: %s' % m.env['.m_token'] if not got else ''
            except Reject as x:
                got, why = False, str(x)
        except Unsupported as u:
            msg = str(u)
            if 'does not terminate' in msg or 'assertion fails' in msg or 'pop_back' in msg:
                got, why = None, msg
            else:
                raise AnalysisBroken('XPathProcessorImpl outside the interpreted subset on pattern "%s": %s' % (site, u))
        if got is want:
            r.ok(site, 'accepted' if got else 'rejected')
            n_acc += int(bool(got))
            continue
        kind = 'valid pattern rejected' if want else ('not a pattern, accepted' if got else 'parser fault')
        reported[kind] = reported.get(kind, 0) + 1
        if reported[kind] <= 4:
            r.violation('%s: %s' % (kind, site), 'XSLT 1.0 5.2 %s this token sequence; the parser %s' % (
                'derives' if want else 'does not derive', 'accepts it' if got else ('rejects it (%s)' % why if got is False else 'fails: %s' % why)), common.file_line(a))
        else:
            r.instances += 1
    r.note('%d token sequences (%d accepted)' % (len(inputs), n_acc))
    return r


# ------------------------------------------------------------------------------------------------------------------ the tokenizer
NPOS = 2 ** 64 - 1


class LexError(Exception):
    pass


def is_ncname(s):
    return bool(s) and (s[0].isalpha() or s[0] == '_') and all(ch.isalnum() or ch in '-_.' for ch in s)


def ref_lex(s):
    """XPath 1.0 3.7 lexing (longest match), delivered in the token convention of XPathExpression's queue"""
    out, i, n = [], 0, len(s)
    while i < n:
        c = s[i]
        if c in ' \t\r\n':
            i += 1; continue
        if c in '\'"':
            j = s.find(c, i + 1)
            if j < 0:
                raise LexError('unterminated literal')
            out.append(s[i:j + 1]); i = j + 1; continue
        if c.isdigit() or (c == '.' and i + 1 < n and s[i + 1].isdigit()):
            j = i
            while j < n and s[j].isdigit():
                j += 1
            if j < n and s[j] == '.':
                j += 1
                while j < n and s[j].isdigit():
                    j += 1
            out.append(s[i:j]); i = j; continue
        if s.startswith('..', i):
            out.append('..'); i += 2; continue
        if s.startswith('::', i):
            out.append('::'); i += 2; continue
        if s.startswith('!=', i):
            out += ['!', '=']; i += 2; continue
        if s.startswith('<=', i) or s.startswith('>=', i):
            out += [c, '=']; i += 2; continue
        if c in './|+-=<>*()[]@,':
            out.append(c); i += 1; continue
        if c == '$':
            out.append('$'); i += 1
            if i >= n or not (s[i].isalpha() or s[i] == '_'):
                raise LexError('variable reference without a name')
            continue
        if c.isalpha() or c == '_':
            j = i
            while j < n and (s[j].isalnum() or s[j] in '-_.'):
                j += 1
            name = s[i:j]
            if j < n and s[j] == ':' and not s.startswith('::', j):
                if len(name) != 1:
                    raise LexError('prefix not declared (the modelled resolver knows the one-letter prefixes)')
                k = j + 1
                if k < n and s[k] == '*':
                    out += [name, ':']; i = k; continue        # '*' is delivered by the next round
                m2 = k
                while m2 < n and (s[m2].isalnum() or s[m2] in '-_.'):
                    m2 += 1
                if m2 == k or not is_ncname(s[k:m2]):
                    raise LexError('prefix without a local part')
                out += [name, ':', s[k:m2]]; i = m2; continue
            out.append(name); i = j; continue
        raise LexError('character ' + repr(c))
    if not out:
        raise LexError('empty expression')
    return out


class TMach(PMach):
    def ev(self, e):
        k = e['k']
        if k == 'Bin' and e['op'] in ('-', '+') and 'unsigned long' in (e.get('ty') or ''):
            a, b = self.ev(e['lhs']), self.ev(e['rhs'])
            if isinstance(a, int) and isinstance(b, int):
                return (a - b if e['op'] == '-' else a + b) % (2 ** 64)
        if k == 'Un' and e['op'] in ('++', '--') and 'unsigned long' in (e.get('ty') or ''):
            t = strip_casts(e['e'])
            old = self.ev(t)
            new = (old + (1 if e['op'] == '++' else -1)) % (2 ** 64)
            self.assign(t, new)
            return old if e.get('post') else new
        return super().ev(e)


class TWorld(World):
    def call_this(self, m, a, c):
        # same as World.call_this, with the tokenizer's machine
        args = [m.ev(x) for x in c.get('args', [])]
        env = {p['id']: v for p, v in zip(a['params'], args)}
        te = {k: v for k, v in m.env.items() if isinstance(k, str) and k.startswith('.')}
        env.update(te)
        self.depth += 1
        if self.depth > 12:
            raise Unsupported('depth')
        try:
            sub = TMach(self, env)
            sub.fuel = 3000
            r = sub.call(a['body'])
            for k in te:
                m.env[k] = sub.env[k]
            return r
        finally:
            self.depth -= 1

    def glob(self, name):
        n = name.split('::')[-1]
        if n == 'npos':
            return NPOS
        if n == 's_XMLNamespaceSeparatorString':
            return ':'
        return super().glob(name)

    def hook(self, m, c):
        k = c['k']
        n = c.get('n') or callee(c).split('::')[-1]
        cls = c.get('cls') or ''
        if k == 'Call' and n == 'substring' and len(c['args']) == 4:
            s, st, en = m.ev(c['args'][0]), int(m.ev(c['args'][2])), int(m.ev(c['args'][3]))
            if not (0 <= st <= en <= len(s)):
                raise Unsupported('substring(%d, %d) of a string of %d' % (st, en, len(s)))
            m.assign(strip_casts(c['args'][1]), s[st:en])
            return 0
        if k == 'Call' and n == 'isValidNCName':
            return int(is_ncname(m.ev(c['args'][0])))
        if k == 'MCall':
            if n == 'isValidNCName':
                return int(is_ncname(m.ev(c['args'][0])))
            if n == 'getPooledString':
                return m.ev(c['args'][0])
            if n == 'getNamespaceForPrefix':
                p = m.ev(c['args'][0])
                return ('urn:' + p) if isinstance(p, str) and len(p) == 1 else 0
            if cls.endswith('XPathExpression') and n == 'pushToken':
                v = m.ev(c['args'][-1])
                self.tokens.append(v if isinstance(v, str) else repr(v))
                return 0
            if cls.endswith('XPathExpression') and n in ('setCurrentPattern', 'resetTokenPosition'):
                return 0
            if cls.endswith('XalanDOMString') and n == 'assign' and len(c['args']) == 3:
                s, st, ln = m.ev(c['args'][0]), int(m.ev(c['args'][1])), int(m.ev(c['args'][2]))
                if not (0 <= st and st + ln <= len(s)):
                    raise Unsupported('assign(%d, %d) from a string of %d' % (st, ln, len(s)))
                m.assign(strip_casts(c['obj']), s[st:st + ln])
                return 0
            if cls.endswith('XalanDOMString') and n == 'empty':
                v = m.ev(c['obj'])
                return int(not v) if isinstance(v, str) else 0
            if n == 'get' and 'GetCachedString' in cls:
                return ''
        if k == 'Ctor' and 'GetCachedString' in cls:
            return ''
        return super().hook(m, c)


A1 = ['a', '1', '.', '-', ':', '*', ' ', '/', '$', "'"]
A2 = ['a', '(', ')', '!', '=', '<', '@', '[', ']', '|', ' ', '1', ',']


def run_tokenizer_rule(res, facts, tier):
    r = res.rule('C02-R15', 'the tokenizer by interpretation: XPathProcessorImpl::tokenize with mapNSTokens and addToTokenQueue run on every string up to a bound over two small alphabets; '
                 'for a string that is an XPath 1.0 expression the token queue is the lexical analysis of XPath 1.0 3.7 (longest match), and a string is accepted by '
                 'tokenizer + grammar exactly when it is an expression', floor=5000)
    a = [x for x in facts.asts('XPathProcessorImpl::tokenize', must=False) if x.get('body') is not None]
    if len(a) != 1:
        raise AnalysisBroken('XPathProcessorImpl::tokenize: %d bodies' % len(a))
    a = a[0]
    w = TWorld(facts)
    deep = tier == 'thorough'
    strings = []
    for alpha, ln in ((A1, 5 if deep else 4), (A2, 4 if deep else 3)):
        for n in range(1, ln + 1):
            strings += [''.join(t) for t in itertools.product(alpha, repeat=n)]
    strings += ['a:b', 'a:*', 'a::b', 'child::a:b', "a'x'", "'x'a", '1.5.2', '..5', '5..', 'a - b', 'a -b', 'a- b', '$a:b', '$ a', 'a:b:c', 'a :b', 'a: b', '1a', 'a.1', '.a', '-.5', '1e3', '"x\'y"', "'", '"',
                'a!=b', 'a<=b', 'a>=1', 'a//b', '//a', 'a | b', '@a', '@ a', 'a[1]', 'a [ 1 ]', 'f(a,b)', 'f ( a , b )', 'a\tb', 'a\nand\nb', ' a', 'a ', 'ab٠', '١']
    strings = sorted(set(strings), key=lambda x: (len(x), x))
    reported = {}
    for s in strings:
        w.tokens = []; w.pos = 0; w.depth = 0; w.steps = 0
        env = {a['params'][0]['id']: s, '.m_expression': 'EXPR', '.m_xpath': 'XPATH', '.m_constructionContext': 'CCTX', '.m_prefixResolver': 'RES', '.m_namespaces': PVec(),
               '.m_token': '', '.m_tokenChar': 0}
        m = TMach(w, env)
        m.fuel = 4000
        site = repr(s)
        try:
            try:
                m.call(a['body'])
                got = list(w.tokens)
            except Reject as x:
                got = None
        except Unsupported as u:
            raise AnalysisBroken('tokenize outside the interpreted subset on %s: %s' % (site, u))
        lexerr = ''
        try:
            ref = ref_lex(s)
        except LexError as x:
            ref = None
            lexerr = str(x)
        want_ok = ref is not None and Ref(list(ref)).accept()
        got_ok = got is not None and Ref(list(got)).accept()
        kind = None
        if want_ok and got != ref:
            kind, what = 'expression tokenized differently', 'the queue is %s, XPath 1.0 3.7 gives %s' % (got, ref)
        elif want_ok != got_ok:
            kind = 'valid expression rejected' if want_ok else 'not an expression, accepted'
            what = 'the queue is %s; XPath 1.0 %s' % (got, ('gives %s' % ref) if ref is not None else 'has no lexical analysis of this string')
        if kind is None:
            r.ok(site, 'expression' if want_ok else 'rejected')
            continue
        if kind == 'not an expression, accepted' and got is not None:
            # one family, one site: '$' / prefix / ':' / local part are separate tokens of the queue, so white space between them goes unnoticed
            squeezed = ''.join(ch for ch in s if ch not in ' \t\r\n')
            try:
                same = ref_lex(squeezed) == got
            except LexError:
                same = False
            if same and any(t in ('$', ':') for t in got):
                kind = 'white space inside a variable reference or a prefixed name test'
                reported[kind] = reported.get(kind, 0) + 1
                if reported[kind] == 1:
                    r.violation("not an expression, accepted: white space inside '$name' or 'prefix:*'", "e.g. %s: the queue is %s, as for %r; in XPath 1.0 a variable reference and a name "
                                "test are single tokens (VariableReference ::= '$' QName, NameTest ::= NCName ':' '*')" % (site, got, squeezed), common.file_line(a))
                else:
                    r.instances += 1
                continue
        reported[kind] = reported.get(kind, 0) + 1
        if reported[kind] <= 4:
            r.violation('%s: %s' % (kind, site), what, common.file_line(a))
        else:
            r.instances += 1
    r.note('%d strings' % len(strings))
    return r
