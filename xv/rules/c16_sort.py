"""C16-R7 — a whole sort, end to end, by interpretation.

NodeSorter::sort(context, list): copy of the selection into the scratch vector with positions, the NodeSortKeyCompare object (constructor, operator(), compare, the two
caches), and the copy back - interpreted from the parsed program on selections of up to 4 nodes with two sort keys (text / number, ascending / descending) and key values
drawn from small sets that include equal keys, the empty string and NaN.  std::stable_sort is modelled by an insertion sort that asks the interpreted comparator (a stable
sort for any strict weak order); the collation of two strings by the context is code-point order.  The list afterwards must be the selection sorted as XSLT 1.0 10
prescribes: lexicographically by the keys, NaN before every number, descending reversing that key only, equal nodes in their original (document) order."""
import itertools
from ..build import AnalysisBroken
from ..mast import Unsupported, callee, strip_casts, pp
from ..facts import NS
from ..omach import OMachine, Obj, Vec, It, Fault
from . import common
from .c16_cache import CWorld


class NodeListModel:
    def __init__(self, items):
        self.items = list(items)


class ClearGuard(Obj):
    pass


class SWorld(CWorld):
    construct_objects = True

    def __init__(self, facts):
        super().__init__(facts)
        self.max_calls = 20000
        self._dtors = {}

    def allow(self, body, c):
        return body['file'].endswith(('NodeSorter.cpp', 'NodeSorter.hpp', 'NodeSortKey.hpp', 'NodeSortKey.cpp'))

    def compare(self, m, comp, x, y):
        body = [a for a in self.facts.asts('NodeSorter::NodeSortKeyCompare::operator()', must=False) if a.get('body') is not None]
        if len(body) != 1:
            raise Unsupported('NodeSortKeyCompare::operator(): %d bodies' % len(body))
        if not isinstance(comp, Obj):
            raise Unsupported('comparator %r' % (comp,))
        return m.run_body(body[0], [x, y, 0][:len(body[0]['params'])], comp)

    def destructor(self, o):
        if isinstance(o, ClearGuard):
            return lambda g: g.fields['vec'].items.clear()          # CollectionClearGuard: clears its collection when the scope ends
        return None

    def hook(self, m, c):
        k = c['k']
        n = c.get('n') or callee(c).split('::')[-1]
        cls = c.get('cls') or ''
        if k == 'Ctor' and 'CollectionClearGuard' in cls:
            v = m.ev(c['args'][0])
            if not isinstance(v, Vec):
                raise Unsupported('CollectionClearGuard on %r' % (v,))
            return ClearGuard('guard', {'vec': v})
        if k == 'Call' and n in ('stable_sort', 'sort') and len(c['args']) == 3:
            unstable = n == 'sort'      # std::sort may leave equal elements in any order: modelled by the legal outcome that reverses them
            b, e, comp = (m.ev(x) for x in c['args'])
            body = [a for a in self.facts.asts('NodeSorter::NodeSortKeyCompare::operator()', must=False) if a.get('body') is not None]
            if len(body) != 1:
                raise Unsupported('NodeSortKeyCompare::operator(): %d bodies' % len(body))
            # insertion sort IN PLACE, the way libstdc++ sorts short ranges (std::__insertion_sort: the value is taken out, larger elements are moved up one by one):
            # while the comparator runs the vector is partly permuted, as it is in the real sort.  Stable: x goes after every element it is not less than
            v = b.vec.items
            np_ = len(body[0]['params'])
            for i in range(b.i + 1, e.i):
                x = v[i]
                j = i
                while j > b.i and (m.run_body(body[0], [x, v[j - 1], 0][:np_], comp) or
                                   (unstable and not m.run_body(body[0], [v[j - 1], x, 0][:np_], comp))):
                    v[j] = v[j - 1]
                    j -= 1
                v[j] = x
            return 0
        if k == 'Call' and n in ('upper_bound', 'lower_bound') and len(c['args']) == 4:
            b, e, val, comp = (m.ev(x) for x in c['args'])
            if isinstance(b, It) and isinstance(e, It):
                v = b.vec.items
                lo, hi = b.i, e.i
                while lo < hi:          # the binary search of the standard library, asking the interpreted comparator
                    mid = (lo + hi) // 2
                    if n == 'upper_bound':
                        go_right = not self.compare(m, comp, val, v[mid])
                    else:
                        go_right = bool(self.compare(m, comp, v[mid], val))
                    if go_right:
                        lo = mid + 1
                    else:
                        hi = mid
                return It(b.vec, lo)
        if k == 'Call' and n == 'rotate' and len(c['args']) == 3:
            b, mid, e = (m.ev(x) for x in c['args'])
            if isinstance(b, It) and isinstance(mid, It) and isinstance(e, It):
                v = b.vec.items
                v[b.i:e.i] = v[mid.i:e.i] + v[b.i:mid.i]
                return It(b.vec, b.i + (e.i - mid.i))
        if k == 'Call' and n in ('merge', 'inplace_merge'):
            raise Unsupported('std::%s: the order among equal elements it leaves is not modelled' % n)
        if k == 'OpCall' and c.get('op') == '()' and len(c.get('args', [])) == 3:
            f = m.ev(c['args'][0])
            if isinstance(f, Obj) and f.cls.endswith('NodeSortKeyCompare'):
                return self.compare(m, f, m.ev(c['args'][1]), m.ev(c['args'][2]))
        if k == 'MCall':
            tgt = m.target_obj(c)
            if isinstance(tgt, NodeListModel):
                if n == 'getLength':
                    return len(tgt.items)
                if n == 'item':
                    return tgt.items[int(m.ev(c['args'][0]))]
                if n == 'clear':
                    tgt.items = []; return 0
                if n == 'addNode':
                    tgt.items.append(m.ev(c['args'][0])); return 0
            if n == 'collationCompare':
                a, b = m.ev(c['args'][0]), m.ev(c['args'][1])
                return (a > b) - (a < b)
            if isinstance(tgt, Obj) and tgt.cls.endswith('NodeSortKey'):
                if n == 'getSelectPattern':
                    return ('XPATH', tgt.fields['index'])
                if n == 'getPrefixResolver':
                    return 'RES'
                if n == 'getTreatAsNumbers':
                    return tgt.fields['number']
                if n == 'getDescending':
                    return tgt.fields['descending']
                if n == 'getLanguageString':
                    return ''
                if n == 'getCaseOrder':
                    return 0
        if k == 'Call' and n in ('lessThan', 'greaterThan') and len(c['args']) == 2:
            a, b = m.ev(c['args'][0]), m.ev(c['args'][1])
            return int(a < b if n == 'lessThan' else a > b)
        return super().hook(m, c)


def spec_sort(nodes, keys, vals):
    """XSLT 1.0 10: stable, lexicographic by keys; numbers: NaN first; descending per key"""
    import functools

    def cmp(a, b):
        for ki, (number, desc) in enumerate(keys):
            x, y = vals[ki][a], vals[ki][b]
            if number:
                xn, yn = x != x, y != y
                c = 0 if (xn and yn) else (-1 if xn else (1 if yn else (x > y) - (x < y)))
            else:
                c = (x > y) - (x < y)
            if c:
                return -c if desc else c
        return 0
    return sorted(nodes, key=functools.cmp_to_key(cmp))


def run_rule(res, facts, tier):
    r = res.rule('C16-R7', 'a whole sort end to end: NodeSorter::sort(context, list) with the comparator object, its caches and the copy back interpreted on selections of up to 4 nodes, '
                 'two keys (text / number, ascending / descending) and key values with ties, empty strings and NaN: the list comes out sorted as XSLT 1.0 10 prescribes '
                 '(stable, NaN first, descending per key)', floor=1500)
    w = SWorld(facts)
    cands = [a for a in facts.asts('NodeSorter::sort', must=False) if a.get('body') is not None and len(a['params']) == 2]
    if len(cands) != 1:
        raise AnalysisBroken('NodeSorter::sort(context, list): %d bodies' % len(cands))
    sort = cands[0]
    nan = float('nan')
    tvals = ['', 'a', 'b']
    nvals = [nan, 1.0, 2.0]
    deep = tier == 'thorough'
    reported = 0
    reported_reuse = {}
    n = 0
    kfields = {f['n'] for f in (facts.K.get(NS + 'NodeSorter') or {}).get('fields', [])}
    for nnodes in (3, 4) if deep else (3,):
        nodes = list(range(nnodes))
        for k1num, k1desc, k2num, k2desc in itertools.product((0, 1), repeat=4):
            v1s = list(itertools.product(nvals if k1num else tvals, repeat=nnodes))
            v2s = list(itertools.product(nvals if k2num else tvals, repeat=nnodes))
            combos = list(itertools.product(v1s, v2s))
            step = 1 if deep and nnodes == 3 else (7 if nnodes == 3 else 97)
            for ci, (v1, v2) in enumerate(combos):
                if ci % step:
                    continue
                vals = [list(v1), list(v2)]
                w.values = vals
                keys = [(k1num, k1desc), (k2num, k2desc)]
                keyobjs = Vec([Obj(NS + 'NodeSortKey', {'index': i, 'number': kn, 'descending': kd}) for i, (kn, kd) in enumerate(keys)])
                sorter = Obj(NS + 'NodeSorter', {'m_stringResultsCache': Vec([]), 'm_numberResultsCache': Vec([]), 'm_keys': keyobjs, 'm_scratchVector': Vec([])})
                for f in kfields:
                    sorter.fields.setdefault(f, Vec([]))
                lst = NodeListModel(nodes)
                w.calls = 0
                site = 'keys %s, values %s' % (' then '.join('%s %s' % ('number' if kn else 'text', 'descending' if kd else 'ascending') for kn, kd in keys), vals)
                try:
                    m = OMachine(w, {}, sorter)
                    m.fuel = 60000
                    m.run_body(sort, ['ECTX', lst], sorter)
                    got = list(lst.items)
                except Fault as f:
                    got = 'FAULT: %s' % f
                except Unsupported as u:
                    raise AnalysisBroken('NodeSorter::sort outside the interpreted subset on %s: %s' % (site, u))
                want = spec_sort(nodes, keys, vals)
                n += 1
                if got == want and ci % (step * 5) == 0:
                    # the sorter is reused by the next sort of the transformation: same object, same keys, other values (rotated), same number of nodes
                    vals2 = [v[1:] + v[:1] for v in vals]
                    if vals2 != vals:
                        w.values = vals2
                        lst2 = NodeListModel(nodes)
                        w.calls = 0
                        try:
                            m2 = OMachine(w, {}, sorter)
                            m2.fuel = 60000
                            m2.run_body(sort, ['ECTX', lst2], sorter)
                            got2 = list(lst2.items)
                        except Fault as f:
                            got2 = 'FAULT: %s' % f
                        except Unsupported as u:
                            raise AnalysisBroken('NodeSorter::sort (second sort on the same sorter) outside the interpreted subset on %s: %s' % (site, u))
                        want2 = spec_sort(nodes, keys, vals2)
                        n += 1
                        if got2 != want2:
                            reused = reported_reuse.get('n', 0)
                            reported_reuse['n'] = reused + 1
                            if reused < 2:
                                r.violation('second sort with the same sorter', 'after sorting by values %s the same sorter sorts values %s (%s) into %s, XSLT 1.0 10 requires %s: something of the '
                                            'first sort is still in the sorter' % (vals, vals2, site.split(',')[0], got2, want2), common.file_line(sort))
                            else:
                                r.instances += 1
                        else:
                            r.instances += 1
                if got == want:
                    r.instances += 1
                    continue
                reported += 1
                if reported <= 3:
                    r.violation('sort: ' + site, 'the nodes come out as %s, XSLT 1.0 10 requires %s (nodes numbered in document order)' % (got, want), common.file_line(sort))
                else:
                    r.instances += 1
    # a selection longer than any short-range shortcut of a sorting routine (runs of 16 / 32 sorted by insertion, then merged): many ties in both keys, not in order
    big = 40 if not deep else 70
    nodes = list(range(big))
    for keys in (((0, 0), (0, 0)), ((1, 1), (0, 0)), ((0, 1), (1, 0))):
        vals = []
        for ki, (kn, kd) in enumerate(keys):
            src = nvals if kn else tvals
            vals.append([src[(i * (7 if ki == 0 else 5) + i // 9) % 3] if ki == 0 else src[(i // 13) % 2 + 1] for i in nodes])
        w.values = vals
        keyobjs = Vec([Obj(NS + 'NodeSortKey', {'index': i, 'number': kn, 'descending': kd}) for i, (kn, kd) in enumerate(keys)])
        sorter = Obj(NS + 'NodeSorter', {'m_stringResultsCache': Vec([]), 'm_numberResultsCache': Vec([]), 'm_keys': keyobjs, 'm_scratchVector': Vec([])})
        for f in kfields:
            sorter.fields.setdefault(f, Vec([]))
        lst = NodeListModel(nodes)
        w.calls = 0
        old_max = w.max_calls
        w.max_calls = 400000
        site = 'sort of %d nodes with many ties, keys %s' % (big, ' then '.join('%s %s' % ('number' if kn else 'text', 'descending' if kd else 'ascending') for kn, kd in keys))
        try:
            m = OMachine(w, {}, sorter)
            m.fuel = 4000000
            m.run_body(sort, ['ECTX', lst], sorter)
            got = list(lst.items)
        except Fault as f:
            got = 'FAULT: %s' % f
        except Unsupported as u:
            raise AnalysisBroken('NodeSorter::sort outside the interpreted subset on %s: %s' % (site, u))
        finally:
            w.max_calls = old_max
        want = spec_sort(nodes, keys, vals)
        n += 1
        if got == want:
            r.ok(site, 'stable')
        else:
            firstbad = next((i for i, (g, x) in enumerate(zip(got, want)) if g != x), None) if isinstance(got, list) else None
            r.violation(site, 'the nodes come out as %s..., XSLT 1.0 10 requires %s... (first difference at position %s): equal keys must keep document order whatever the length of the list' %
                        (got[:12] if isinstance(got, list) else got, want[:12], firstbad), common.file_line(sort))
    r.note('%d sorts' % n)
    return r
