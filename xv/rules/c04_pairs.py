"""C04-R20 / C08-R11 — the output stream never cuts a surrogate pair when it flushes a full buffer.

XalanOutputStream collects UTF-16 code units and hands them to the transcoder when its buffer is full (512 units for stdout, 8192 for a file).  A transcoder cannot consume
a high surrogate without its other half: a chunk that ends in one stalls it (before the repair a2570a3: the destination was doubled until the allocation failed).  Where
the buffer boundary falls depends on everything written before - on the encoding, on indentation, on the output being a file.  XalanOutputStream::write(unit),
write(units, length), flushFullBuffer and flushBuffer are interpreted with a buffer of four units on texts of up to nine units that contain one or two surrogate pairs at
every position, written unit by unit and in chunks of 1, 2, 3, 5 and 7 units, followed by flush(): the chunks that reach doWrite() concatenate to the text, none but the
last ends in a high surrogate, none starts with a low one."""
import itertools
from ..build import AnalysisBroken
from ..mast import Unsupported, callee, strip_casts
from ..facts import NS
from ..omach import OMachine, Obj, Vec, It, Fault
from . import common

HI, LO = 0xD83D, 0xDE00


class Guard(Obj):
    pass


class SWorld:
    def __init__(self, facts):
        self.facts = facts
        self.depth = 0; self.calls = 0; self.max_calls = 4000
        self.chunks = []

    def tables(self, q):
        return None

    def glob(self, name):
        return ('GLOBAL', name.split('::')[-1])

    def allow(self, body, c):
        n = (body.get('fq') or '').split('::')[-1]
        return body['file'].endswith(('PlatformSupport/XalanOutputStream.cpp', 'PlatformSupport/XalanOutputStream.hpp')) and (n in ('write', 'flushBuffer', 'flushFullBuffer', 'flush') or not body.get('cls'))

    def destructor(self, o):
        if isinstance(o, Guard):
            return lambda g: g.fields['vec'].items.clear()
        return None

    def hook(self, m, c):
        k = c['k']
        n = c.get('n') or callee(c).split('::')[-1]
        a = c.get('args', [])
        if k == 'Ctor' and 'CollectionClearGuard' in (c.get('cls') or ''):
            v = m.ev(a[0])
            if not isinstance(v, Vec):
                raise Unsupported('CollectionClearGuard on %r' % (v,))
            return Guard('guard', {'vec': v})
        if n == 'doWrite' and len(a) == 2:
            p, ln = m.ev(a[0]), int(m.ev(a[1]))
            if isinstance(p, It):
                self.chunks.append(list(p.vec.items[p.i:p.i + ln]))
                return 0
            raise Unsupported('doWrite(%r)' % (p,))
        if n == 'doFlush':
            return 0
        return NotImplemented


def run_rule(res, facts, tier, rid='C04-R20'):
    r = res.rule(rid, 'XalanOutputStream (write(unit), write(units, length), flushFullBuffer, flushBuffer) interpreted with a buffer of 4 units on texts with surrogate pairs at every '
                 'position, written unit by unit and in chunks of 1-7 units, then flushed: what reaches the transcoder concatenates to the text, and no chunk but the last ends in a '
                 'high surrogate or starts with a low one', floor=300)

    def one(name, pred):
        c = [x for x in facts.asts(name, must=False) if x.get('body') is not None and pred(x)]
        if len(c) != 1:
            raise AnalysisBroken('%s: %d bodies' % (name, len(c)))
        return c[0]
    wunit = one('XalanOutputStream::write', lambda x: len(x['params']) == 1 and (x['params'][0].get('ty') or '').strip() in ('char16_t', 'xalanc_1_12::XalanDOMChar', 'XalanDOMChar'))
    wbuf = one('XalanOutputStream::write', lambda x: len(x['params']) == 2 and 'char16_t' in (x['params'][0].get('ty') or ''))
    flush = one('XalanOutputStream::flush', lambda x: len(x['params']) == 0)
    kfields = {f['n'] for f in (facts.K.get(NS + 'XalanOutputStream') or {}).get('fields', [])}
    w = SWorld(facts)
    texts = set()
    for n in range(0, 8):
        t = [0x61] * n + [HI, LO]
        texts.add(tuple(t + [0x62]))
        texts.add(tuple(t))
        for k2 in range(0, 4):
            texts.add(tuple(t + [0x62] * k2 + [HI, LO, 0x63]))
    modes = ['unit'] + [('chunk', s) for s in (1, 2, 3, 5, 7)] + [('chunk', 12)]
    reported = {}
    for text in sorted(texts):
        for mode in modes:
            this = Obj(NS + 'XalanOutputStream', {'m_buffer': Vec([]), 'm_bufferSize': 4, 'm_writeAsUTF16': 0, 'm_transcoder': 1})
            for f in kfields:
                this.fields.setdefault(f, 0)
            w.chunks = []
            site = 'text %s written %s' % (' '.join('%04X' % u for u in text), 'unit by unit' if mode == 'unit' else 'in chunks of %d units' % mode[1])
            try:
                if mode == 'unit':
                    for u in text:
                        w.calls = 0
                        m = OMachine(w, {}, this); m.fuel = 5000
                        m.run_body(wunit, [u], this)
                else:
                    src = Vec(list(text))
                    i = 0
                    while i < len(text):
                        ln = min(mode[1], len(text) - i)
                        w.calls = 0
                        m = OMachine(w, {}, this); m.fuel = 5000
                        m.run_body(wbuf, [It(src, i), ln], this)
                        i += ln
                w.calls = 0
                m = OMachine(w, {}, this); m.fuel = 5000
                m.run_body(flush, [], this)
            except Fault as f:
                r.violation('output stream: fault', '%s: %s' % (site, f), common.file_line(wbuf)); continue
            except Unsupported as u:
                raise AnalysisBroken('XalanOutputStream outside the interpreted subset (%s): %s' % (site, u))
            flat = [u for ch in w.chunks for u in ch]
            bad = None
            if flat != list(text):
                bad = ('what reaches the transcoder is not the text', 'the chunks are %s' % [' '.join('%04X' % u for u in ch) for ch in w.chunks])
            else:
                for ci, ch in enumerate(w.chunks):
                    if ch and 0xD800 <= ch[-1] < 0xDC00 and ci != len(w.chunks) - 1:
                        bad = ('a chunk ends in a high surrogate', 'chunk %d of %d is %s: the transcoder cannot consume the last unit without its other half' %
                               (ci + 1, len(w.chunks), ' '.join('%04X' % u for u in ch))); break
                    if ch and 0xDC00 <= ch[0] < 0xE000:
                        bad = ('a chunk starts with a low surrogate', 'chunk %d of %d is %s' % (ci + 1, len(w.chunks), ' '.join('%04X' % u for u in ch))); break
            if bad:
                reported[bad[0]] = reported.get(bad[0], 0) + 1
                if reported[bad[0]] <= 2:
                    r.violation('output stream: %s' % bad[0], '%s (buffer of 4 units): %s' % (site, bad[1]), common.file_line(wbuf))
                else:
                    r.instances += 1
            else:
                r.ok(site, '%d chunk(s)' % len(w.chunks))
    return r


def run_c08_rule(res, facts, tier):
    return run_rule(res, facts, tier, 'C08-R11')
