"""C11 — one value whichever way the caller asks: the six executeMore switches are the same function modulo
the canonical conversion (sibling dispatch agreement, E1)."""
import collections, re
from ..build import AnalysisBroken
from ..mast import walk, calls, callee, switch_cases, label_name, strip_casts, pp
from ..facts import short
from . import common, xpathops

# requested-type tag of each sibling, from the type of its result parameter
RESULT_TAG = {'bool &': 'bool', 'double &': 'num', 'XalanDOMString &': 'str', 'FormatterListener &': 'fl', 'MutableNodeRefList &': 'ns'}

# conversion vocabulary: callee -> family it converts TO
CONV_FAMILY = {
    'XObject::boolean': 'bool', 'XObject::number': 'num', 'XObject::num': 'num', 'XObject::string': 'str', 'XObject::str': 'str',
    'XObject::nodeset': 'ns', 'XObject::rtree': 'ns',
    'XObjectFactory::createBoolean': 'obj:bool', 'XObjectFactory::createNumber': 'obj:num', 'XObjectFactory::createString': 'obj:str',
    'XObjectFactory::createStringReference': 'obj:str', 'XObjectFactory::createStringAdapter': 'obj:str', 'XObjectFactory::createNodeSet': 'obj:ns',
    'XalanDOMString::append': 'str', 'XalanDOMString::assign': 'str', 'XalanDOMString::operator=': 'str', 'stringToCharacters': 'str',
    'DoubleSupport::toDouble': 'num',
}
# plumbing that carries no conversion
PLUMBING = {'XPathExecutionContext::getXObjectFactory', 'ExecutionContext::getMemoryManager', 'XPathExecutionContext::getMemoryManager', 'XObjectPtr::operator->', 'XObjectPtr::operator=',
            'XObjectPtr::operator*', 'XObjectPtr::get', 'XObjectPtr::null', 'XalanDOMString::c_str', 'XalanDOMString::length', 'length'}
ERRORS = {'XPath::notNodeSetError', 'XPath::unknownOpCodeError'}
# what a sibling asking for R must apply to a kernel result of class K  (K: bool/num/str/obj, or 'out' = the kernel overload writes R itself)
CANON = {
    ('bool', 'obj'): {'obj:bool'}, ('bool', 'bool'): set(), ('bool', 'num'): {'num'}, ('bool', 'str'): {'str'}, ('bool', 'fl'): {'str'},
    ('num', 'obj'): {'obj:num'}, ('num', 'bool'): {'bool'}, ('num', 'num'): set(), ('num', 'str'): {'str'}, ('num', 'fl'): {'str'},
    ('str', 'obj'): {'obj:str'}, ('str', 'bool'): {'bool'}, ('str', 'num'): {'num'}, ('str', 'str'): {'str'}, ('str', 'fl'): {'str'},
    ('obj', 'obj'): set(), ('obj', 'bool'): {'bool'}, ('obj', 'num'): {'num'}, ('obj', 'str'): {'str'}, ('obj', 'fl'): {'str'},
    ('out', 'obj'): set(), ('out', 'bool'): set(), ('out', 'num'): set(), ('out', 'str'): set(), ('out', 'fl'): set(), ('out', 'ns'): set(),
}
# kernels that cannot be node-sets by grammar: the node-list sibling routes them to notNodeSetError
NON_NODESET_OBJ_KERNELS = {'literal': 'a string literal', 'numberlit': 'a number literal'}


def sibling_tag(a):
    ps = [short(p['ty']) for p in a['params']]
    if len(ps) <= 3:
        return 'obj'
    return RESULT_TAG.get(ps[3])


def ktype(ty):
    ty = short(ty or '')
    if ty == 'bool':
        return 'bool'
    if ty in ('double', 'float', 'int', 'unsigned long', 'unsigned int', 'long'):
        return 'num'
    if ty.startswith('XalanDOMString') or ty.startswith('const XalanDOMString'):
        return 'str'
    if ty.startswith('const XObjectPtr') or ty.startswith('XObjectPtr'):
        return 'obj'
    if ty == 'void':
        return 'out'
    return '?' + ty


def analyse_case(stmts, result_param_id):
    """-> dict(kernel=(name, argtexts) | ('const', v) | None, ktype, convs=set(families), errors=set, other=set)"""
    kern = None; convs = collections.Counter(); errors = set(); other = set()
    for s in stmts:
        for c in calls(s):
            n = callee(c)
            if c['k'] == 'Ctor':
                if short(c['cls']) in ('XObjectPtr',):
                    continue
                other.add('ctor:' + short(c['cls']))
                continue
            if n in ERRORS:
                errors.add(n); continue
            if n in PLUMBING:
                continue
            if n in CONV_FAMILY:
                convs[CONV_FAMILY[n]] += 1; continue
            if n.startswith('XPath::'):
                args = []
                for a in c['args']:
                    sa = strip_casts(a)
                    if sa is not None and sa.get('k') == 'Ref' and sa.get('d') == 'param' and sa.get('id') in result_param_id:
                        continue
                    if 'XPathExecutionContext' in (sa or {}).get('ty', ''):
                        continue   # environment, not an operand
                    args.append(pp(a))
                k = (n.split('::')[-1], tuple(args), ktype(c.get('ty')))
                if kern is None:
                    kern = k
                else:
                    other.add('second kernel ' + n)
                continue
            other.add(n)
    if kern is None:
        # constant case: result = true / createBoolean(false) / XObject::number(true)
        consts = []
        for s in stmts:
            for x in walk(s):
                if x['k'] == 'Bool':
                    consts.append(('bool', x['cv']))
                elif x['k'] == 'Float':
                    consts.append(('num', x['v']))
        if consts:
            kern = ('const:%s' % (consts[0][1],), (), consts[0][0])
    return {'kernel': kern, 'convs': set(convs), 'errors': errors, 'other': other}


def siblings(facts):
    sibs = {}
    for a in facts.asts('XPath::executeMore'):
        tag = sibling_tag(a)
        if tag is None:
            raise AnalysisBroken('executeMore overload with unrecognised result parameter: ' + str([p['ty'] for p in a['params']]))
        sws = [n for n in walk(a['body']) if n['k'] == 'Switch']
        if len(sws) != 1:
            raise AnalysisBroken('executeMore(%s) has %d switch statements' % (tag, len(sws)))
        cons = xpathops.Consumer(facts, a, sws[0])
        rp = {p['id'] for p in a['params'][3:]}
        sibs[tag] = (a, cons, rp)
    if set(sibs) != {'obj', 'bool', 'num', 'str', 'fl', 'ns'}:
        raise AnalysisBroken('expected the six executeMore siblings, found ' + str(sorted(sibs)))
    return sibs


def run(res, facts, tier):
    sibs = siblings(facts)
    P = xpathops.Producers(facts)
    emitted = P.emitted()
    r1 = res.rule('C11-R1', 'the six executeMore overloads handle the same op codes (a label may be missing from a sibling only if the compiler never emits it)', floor=6 * 35)
    all_labels = set()
    for tag, (a, cons, rp) in sibs.items():
        all_labels |= set(cons.labels)
        if cons.default is None or not cons.default_is_error():
            r1.violation('executeMore(%s) default' % tag, 'default: does not end in unknownOpCodeError', common.file_line(a))
    for lab in sorted(all_labels):
        for tag, (a, cons, rp) in sibs.items():
            site = 'case %s of executeMore(%s)' % (lab.split('::')[-1], tag)
            if lab in cons.labels:
                r1.ok(site)
            elif lab not in emitted:
                r1.ok(site, 'absent, and never emitted by the compiler (dead op code)')
            elif lab.endswith('eOP_XPATH') and tag != 'ns':
                r1.ok(site, 'eOP_XPATH heads a whole expression; execute() skips it; only the node-list sibling may see it via Union')
            else:
                r1.violation(site, 'op code %s is emitted by the compiler (%s) but this overload has no case for it: falls to unknownOpCodeError' %
                             (lab, ', '.join(sorted({short(facts.name[k]).split('::')[-1] for k, l, n in P.by_code[lab]}))), common.file_line(a))

    r2 = res.rule('C11-R2', 'per op code the six overloads call the same kernel on the same operands and apply the canonical conversion for (kernel result type -> requested type)', floor=6 * 35)
    for lab in sorted(all_labels):
        per = {}
        for tag, (a, cons, rp) in sibs.items():
            g = cons.labels.get(lab)
            if g is None:
                continue
            per[tag] = (analyse_case(g['stmts'], rp), a, g)
        if 'obj' not in per:
            continue
        ref, ra, rg = per['obj']
        rk = ref['kernel']
        if rk is None:
            r2.violation('case %s of executeMore(obj)' % lab.split('::')[-1], 'no kernel call recognised', common.file_line(ra, rg['stmts'][0]))
            continue
        # class of the kernel's value, from the XObjectPtr sibling: which factory wraps it
        objconv = {c.split(':')[1] for c in ref['convs'] if c.startswith('obj:')}
        kclass = list(objconv)[0] if len(objconv) == 1 else ('obj' if rk[2] == 'obj' else rk[2])
        for tag, (info, a, g) in per.items():
            site = 'case %s of executeMore(%s)' % (lab.split('::')[-1], tag)
            loc = common.file_line(a, g['stmts'][0])
            k = info['kernel']
            if info['other']:
                r2.violation(site, 'call outside the kernel/conversion vocabulary: %s' % ', '.join(sorted(info['other'])), loc)
                continue
            if tag == 'ns' and info['errors']:
                if kclass in ('bool', 'num', 'str') or rk[0] in NON_NODESET_OBJ_KERNELS:
                    r2.ok(site, 'notNodeSetError: kernel %s yields a %s' % (rk[0], kclass if kclass != 'obj' else NON_NODESET_OBJ_KERNELS[rk[0]]))
                else:
                    r2.violation(site, 'routes to notNodeSetError although kernel %s can yield a node-set' % rk[0], loc)
                continue
            if info['errors']:
                r2.violation(site, 'error routine %s where siblings evaluate %s' % (sorted(info['errors']), rk[0]), loc)
                continue
            if k is None or k[0] != rk[0] or k[1] != rk[1]:
                r2.violation(site, 'kernel %s%s differs from sibling executeMore(obj): %s%s' % (k and k[0], k and list(k[1]), rk[0], list(rk[1])), loc)
                continue
            if tag == 'ns':
                r2.ok(site, 'kernel %s' % k[0])
                continue
            have = k[2]
            src = have
            if have in ('bool', 'num', 'str') and have != kclass and kclass in ('bool', 'num', 'str'):
                r2.violation(site, 'kernel overload returns %s but the XObjectPtr sibling wraps it as %s' % (have, kclass), loc)
                continue
            want = CANON.get((src, tag))
            if want is None:
                r2.violation(site, 'no canonical conversion known for kernel result %s -> %s' % (src, tag), loc)
                continue
            got = {c for c in info['convs']}
            if tag == 'obj' and src == 'obj':
                got = {c for c in got if not c.startswith('obj:')} if False else got
            if got == want:
                r2.ok(site, 'kernel %s/%d -> %s via %s' % (k[0], len(k[1]), tag, sorted(got) or 'identity'))
            else:
                r2.violation(site, 'kernel %s yields %s, requested %s: conversion applied %s, canonical %s' % (k[0], src, tag, sorted(got) or 'none', sorted(want) or 'none'), loc)

    r3 = res.rule('C11-R3', 'every typed XPath member (result parameter bool&/double&/XalanDOMString&/FormatterListener&) converts only with conversions of its own result family', floor=35)
    for k in facts.astidx:
        f = facts.F.get(k)
        if not f or f.get('cls') != 'xalanc_1_12::XPath' or f['name'].endswith('::executeMore'):
            continue
        a = facts.ast(k)
        tags = [RESULT_TAG.get(short(p['ty'])) for p in a['params']]
        tags = [t for t in tags if t in ('bool', 'num', 'str', 'fl')]
        if len(tags) != 1:
            continue
        tag = tags[0]
        fam = 'str' if tag == 'fl' else tag
        bad = []
        n = 0
        rp = {p['id'] for p in a['params'] if RESULT_TAG.get(short(p['ty'])) == tag}
        for x in walk(a['body']):
            # conversions that feed the result parameter: assignment result = conv(..) or conv(.., result)
            if x['k'] == 'Bin' and x['op'] == '=':
                l = strip_casts(x['lhs'])
                if l and l.get('k') == 'Ref' and l.get('id') in rp:
                    rhs = strip_casts(x['rhs'])
                    n += 1
                    if rhs and rhs.get('k') in ('Call', 'MCall'):
                        cf = CONV_FAMILY.get(callee(rhs))
                        if cf and not cf.startswith('obj:') and cf != fam:
                            bad.append((callee(rhs), x.get('l')))
                    # implicit C++ conversion double -> bool is not XPath boolean()
                    if tag == 'bool' and rhs is not None and x['rhs'].get('k') == 'Cast' and x['rhs'].get('ck') in ('FloatingToBoolean', 'IntegralToBoolean', 'PointerToBoolean'):
                        bad.append(('implicit %s' % x['rhs']['ck'], x.get('l')))
                    if tag == 'num' and x['rhs'].get('k') == 'Cast' and x['rhs'].get('ck') == 'IntegralToFloating' and x['rhs'].get('from') == 'bool' and not (rhs.get('k') in ('Bool',)):
                        pass
            elif x['k'] in ('Call', 'MCall'):
                cf = CONV_FAMILY.get(callee(x))
                if cf and not cf.startswith('obj:'):
                    for arg in x['args']:
                        sa = strip_casts(arg)
                        if sa is not None and sa.get('k') == 'Ref' and sa.get('id') in rp:
                            n += 1
                            if cf != fam:
                                bad.append((callee(x), x.get('l')))
        site = facts.sig(k)
        if bad:
            for b, l in bad:
                r3.violation(site, 'result parameter of family %s is fed by %s' % (fam, b), '%s:%s' % (a['file'].replace('/repo/', ''), l))
        else:
            r3.ok(site, '%d result writes' % n)

    r5 = res.rule('C11-R5', 'string-result protocol: every typed XPath member that receives a XalanDOMString& result appends to it (attribute value templates and '
                  'concatenating callers pass one accumulating buffer); none assigns or clears it', floor=10)
    for k in facts.astidx:
        f = facts.F.get(k)
        if not f or f.get('cls') != 'xalanc_1_12::XPath':
            continue
        a = facts.ast(k)
        rp = {p['id']: p['n'] for p in a['params'] if short(p['ty']) == 'XalanDOMString &'}
        if not rp:
            continue
        bad = []
        for x in walk(a['body']):
            tgt = None
            if x['k'] == 'OpCall' and x['op'] == '=' and x['args']:
                tgt = strip_casts(x['args'][0])
            elif x['k'] == 'MCall' and x.get('n') in ('assign', 'clear', 'erase', 'swap', 'resize', 'operator='):
                tgt = strip_casts(x.get('obj'))
            elif x['k'] == 'Bin' and x['op'] == '=':
                tgt = strip_casts(x['lhs'])
            if tgt is not None and tgt.get('k') == 'Ref' and tgt.get('id') in rp:
                bad.append(x)
        site = facts.sig(k)
        if bad:
            r5.violation(site, 'the string result parameter %s is overwritten (%s) where the other typed members append: text accumulated by the caller (e.g. the literal part of an attribute value template before a {literal}) is lost' % (rp[list(rp)[0]], pp(bad[0])[:60]), common.file_line(a, bad[0]))
        else:
            r5.ok(site)

    r4 = res.rule('C11-R4', 'instruction classes reach the interpreter only through the public XPath::execute overloads', floor=10)
    private = set()
    for k, f in facts.F.items():
        if f.get('cls') == 'xalanc_1_12::XPath' and f.get('access') in ('private', 'protected') and f.get('kind') == 'method':
            private.add(k)
    n = 0
    for c in facts.calls:
        if c['to'] in private:
            fr = facts.F.get(c['from'], {})
            n += 1
            cls = fr.get('clsq', '')
            if cls.startswith('xalanc_1_12::XPath') and (cls == 'xalanc_1_12::XPath' or cls.startswith('xalanc_1_12::XPath::')):
                continue
            r4.violation('%s -> %s' % (facts.sig(c['from']), facts.sig(c['to'])), 'non-public interpreter entry called from outside class XPath', c['loc'].replace('/repo/', ''))
    pub = [k for k in facts.fn('XPath::execute')]
    callers = collections.Counter()
    for c in facts.calls:
        if c['to'] in pub:
            callers[short(facts.F.get(c['from'], {}).get('clsq', '?'))] += 1
    for cls, cnt in callers.items():
        r4.ok('%s calls XPath::execute (%d sites)' % (cls, cnt))
    r4.note('%d call sites of non-public XPath members, all inside class XPath' % n)
    res.extra['executeMore_labels'] = len(all_labels)


# ----------------------------------------------------------------------------------------------- R6: typed overloads of a helper are wrappers
WRAPPER_OK_CALLS = {'boolean', 'number', 'string', 'createNodeSet', 'getXObjectFactory', 'get', 'createNumber', 'createBoolean', 'createString', 'createStringReference'}


def r6_wrappers(res, facts):
    r6 = res.rule('C11-R6', 'helper families of XPath (Union, locationPath, plus, minus, mult, div, mod, neg: one name, several result types): exactly one overload computes the value; '
                  'every other overload only calls an overload of the same name and converts its result with the canonical XObject conversion — no second implementation of the '
                  'operation per result type', floor=15)
    fam = collections.defaultdict(list)
    for k in facts.astidx:
        fn = facts.F.get(k)
        if not fn or fn.get('cls') != 'xalanc_1_12::XPath':
            continue
        a = facts.ast(k)
        if a is None or not a['file'].endswith('XPath.cpp') or len(a['params']) < 3:
            continue
        ptys = [p['ty'] for p in a['params']]
        if 'XalanNode' not in ptys[0] or 'OpCodeMapPositionType' not in ' '.join(ptys[:3]) and 'unsigned' not in ptys[1] and 'int' not in ptys[1]:
            continue
        fam[fn['name'].split('::')[-1]].append(a)
    n_f = 0
    for nm, lst in sorted(fam.items()):
        if len(lst) < 2 or nm in ('execute', 'executeMore') or nm.startswith('function') or nm == 'getMatchScore':
            continue
        info = []
        for a in lst:
            same = [c for c in calls(a['body']) if (c.get('n') or '') == nm and c.get('k') == 'MCall']
            info.append((a, same))
        called = {c.get('usr') for a, same in info for c in same}
        if not called:
            continue        # overloads that do not build on each other: not a wrapper family
        n_f += 1
        for a, same in info:
            tag = short(a['params'][3]['ty']).replace('const ', '').replace(' &', '') if len(a['params']) > 3 else 'object'
            site = '%s(%s)' % (nm, tag)
            if not same:
                if a.get('usr') in called:
                    r6.ok(site, 'computes the value; the other overloads build on it')
                else:
                    r6.violation(site, 'this overload computes the value on its own instead of building on the overload the others call: the operation is implemented a second time '
                                 'for this result type and can disagree with the others', common.file_line(a))
                continue
            probs = []
            for x in walk(a['body']):
                if x.get('k') in ('While', 'For', 'Do', 'If', 'Switch', 'Cond'):
                    probs.append('contains a %s statement' % x['k'].lower())
            others = []
            for c in calls(a['body']):
                n = c.get('n') or callee(c).split('::')[-1]
                if c.get('k') == 'Ctor' or c.get('k') == 'OpCall':
                    continue
                if n == nm or n in WRAPPER_OK_CALLS:
                    continue
                others.append(n)
            if others:
                probs.append('calls %s' % sorted(set(others)))
            if len(same) != 1:
                probs.append('%d calls to %s' % (len(same), nm))
            convs = [c.get('n') for c in calls(a['body']) if c.get('n') in ('boolean', 'number', 'string', 'createNodeSet', 'createNumber', 'createBoolean', 'createString')]
            if not convs:
                probs.append('no canonical conversion of the result')
            if probs:
                r6.violation(site, 'this overload is not a wrapper around another %s overload (%s): the operation is implemented a second time for this result type and can disagree '
                             'with the others' % (nm, '; '.join(probs)), common.file_line(a))
            else:
                r6.ok(site, 'wrapper: %s + XObject::%s' % (nm, convs[0]))
    if n_f < 6:
        raise AnalysisBroken('only %d wrapper families found in XPath.cpp (Union, locationPath and the arithmetic helpers expected)' % n_f)
    return r6


_run_c11_prev = run


def run(res, facts, tier):
    _run_c11_prev(res, facts, tier)
    r6_wrappers(res, facts)


# ----------------------------------------------------------------------------------------------- R7: string twin == character-events twin
TWIN_ALIAS = {'doGetNodeData': 'getNodeData', 'NumberToDOMString': 'NUM', 'NumberToCharacters': 'NUM'}
# pairs whose bodies legitimately differ in shape, one reason each (function name -> reason)
TWIN_REVIEWED = {
    'XNumber::str': 'the character-events overloads send str(), which fills m_cachedStringValue with NumberToDOMString(m_value) when it is empty; the string overloads '
                    'append the cached value or NumberToDOMString(m_value): the same characters',
}


def _twin_canon(a):
    """canonical form of a conversion body with the sink (XalanDOMString& result / FormatterListener& + member function) abstracted away"""
    sinks = set()
    for p in a['params']:
        t = short(p.get('ty', ''))
        if t == 'XalanDOMString &' or t.startswith('FormatterListener &') or '(FormatterListener::*)' in t:
            sinks.add(p['id'])

    def is_sink(e):
        e = strip_casts(e)
        return e is not None and e.get('k') == 'Ref' and e.get('id') in sinks

    def is_assert(s):
        s0 = s
        while s0.get('k') == 'Cast':
            s0 = s0['e']
        if s0.get('k') in ('Int', 'Bool'):
            return True
        return s0.get('k') == 'Cond' and any((c.get('n') or '') == '__assert_fail' for c in calls(s0))

    def emit(x):
        x = strip_casts(x)
        if x.get('k') == 'Cond':
            return [('if', pp(x['c']), emit(x['t']), emit(x['f']))]
        return ['EMIT(%s)' % pp(x)]

    def expr_stmt(s):
        e = strip_casts(s)
        if e.get('k') in ('Call', 'MCall'):
            n = e.get('n') or (callee(e).split('::')[-1] if e.get('fn') != '<memptr>' else '<memptr>')
            args = e.get('args', [])
            plain = [x for x in args if not is_sink(x)]
            obj_sink = e.get('k') == 'MCall' and e.get('obj') is not None and is_sink(e['obj'])
            carries = obj_sink or len(plain) != len(args)
            if not carries:
                return [pp(e)]
            if obj_sink and n == 'append' and len(plain) == 1:
                return emit(plain[0])
            if n == 'sendData' and len(plain) == 1:
                return emit(plain[0])
            if n == 'string' and len(plain) == 1 and 'XalanDOMString' in (strip_casts(plain[0]).get('ty') or ''):
                return emit(plain[0])
            if obj_sink and (e.get('n') is None or e.get('fn') == '<memptr>') and len(plain) == 2:
                p0, p1 = strip_casts(plain[0]), strip_casts(plain[1])
                if p0.get('k') == 'MCall' and p0.get('n') == 'c_str' and p1.get('k') == 'MCall' and p1.get('n') == 'length' and pp(p0['obj']) == pp(p1['obj']):
                    return emit(p0['obj'])
                return ['EMIT-RANGE(%s, %s)' % (pp(p0), pp(p1))]
            if e.get('k') == 'MCall' and not obj_sink and n == 'str' and not plain:
                return ['EMIT(%s.str())' % pp(e['obj'])]
            if n == 'string' and plain and 'XalanDOMString' not in (strip_casts(plain[0]).get('ty') or ''):
                n = 'getNodeData'
            n = TWIN_ALIAS.get(n, n)
            pre = (pp(e['obj']) + '.') if e.get('k') == 'MCall' and e.get('obj') is not None and not obj_sink and strip_casts(e['obj']).get('k') != 'This' else ''
            return ['%s%s(%s | SINK)' % (pre, n, ', '.join(pp(x) for x in plain))]
        return [pp(e)]

    def stmt(s):
        k = s.get('k')
        if k == 'Compound':
            out = []
            for c in s['c']:
                out.extend(stmt(c))
            return out
        if k == 'If':
            return [('if', pp(s['cond']), stmt(s['then']), stmt(s['else']) if s.get('else') else [])]
        if k == 'Decl':
            return ['%s = %s' % (v['n'], pp(v['init']) if v.get('init') is not None else '') for v in s['vars']]
        if k == 'Return':
            return [('return', expr_stmt(s['e']) if s.get('e') else [])]
        if k in ('While', 'For', 'Do'):
            return [(k, pp(s['cond']) if s.get('cond') else '', stmt(s['init']) if s.get('init') else [], pp(s['inc']) if s.get('inc') else '', stmt(s['body']))]
        if k == 'Switch':
            return [('switch', pp(s['cond']), stmt(s['body']))]
        if k in ('Case', 'Default'):
            return [(k, pp(s['v']) if s.get('v') else '', stmt(s['s']) if s.get('s') else [])]
        if k in ('Break', 'Continue', 'Null'):
            return [k]
        if is_assert(s):
            return []
        return expr_stmt(s)
    return stmt(a['body'])


def _first_diff(x, y, path=''):
    if type(x) != type(y):
        return path, x, y
    if isinstance(x, (list, tuple)):
        for i in range(max(len(x), len(y))):
            if i >= len(x) or i >= len(y):
                return path + '[%d]' % i, x[i] if i < len(x) else '(nothing)', y[i] if i < len(y) else '(nothing)'
            d = _first_diff(x[i], y[i], path + '[%d]' % i)
            if d:
                return d
        return None
    return None if x == y else (path, x, y)


def r7_twins(res, facts):
    r7 = res.rule('C11-R7', 'the conversions to character events and to a string buffer are the same function: for every pair of overloads in DOMServices and the XObject classes that differ '
                  'only in the result sink (XalanDOMString& against FormatterListener& + member function), the bodies are equal once the sink is abstracted (same tests, same callees, '
                  'same other arguments - in particular the execution context is handed on by both or by neither)', floor=40)
    byname = collections.defaultdict(list)
    for k in facts.astidx:
        a = facts.ast(k)
        if a is None or a.get('body') is None:
            continue
        fn = facts.F.get(k)
        if not fn:
            continue
        f = a['file']
        if not (f.endswith(('DOMServices.cpp', 'DOMServices.hpp')) or re.search(r'/XPath/X[A-Z][A-Za-z]*\.(cpp|hpp)$', f)) or re.search(r'/XPath/XPath[A-Za-z]*\.(cpp|hpp)$', f):
            continue
        byname[fn['name']].append(a)

    def kinds(a):
        return [short(p.get('ty', '')) for p in a['params']]
    n_pairs = 0
    for name, lst in sorted(byname.items()):
        for a in lst:
            t = kinds(a)
            if not (any(x.startswith('FormatterListener &') for x in t) and any('(FormatterListener::*)' in x for x in t)):
                continue
            key = [x for x in t if not x.startswith('FormatterListener &') and '(FormatterListener::*)' not in x]
            tw = [b for b in lst if kinds(b).count('XalanDOMString &') == 1 and [x for x in kinds(b) if x != 'XalanDOMString &'] == key]
            site = '%s(%s)' % (short(name), ', '.join(x.replace('const ', '').replace(' &', '') for x in key) or 'no other argument')
            if len(tw) != 1:
                continue
            n_pairs += 1
            ca, cb = _twin_canon(a), _twin_canon(tw[0])
            d = _first_diff(ca, cb)
            sn = short(name)
            if d is None:
                r7.ok(site, 'equal modulo the sink')
            elif sn in TWIN_REVIEWED:
                r7.ok(site, 'reviewed: ' + TWIN_REVIEWED[sn])
            else:
                r7.violation(site, 'the character-events overload and the string overload differ: events %s / string %s (first difference; %s:%s against %s:%s)'
                             % (str(d[1])[:160], str(d[2])[:160], a['file'].split('/')[-1], a['line'], tw[0]['file'].split('/')[-1], tw[0]['line']), common.file_line(a))
    if n_pairs < 40:
        raise AnalysisBroken('only %d string / character-events pairs found (DOMServices and the XObject classes have 47)' % n_pairs)
    return r7


_run_c11_prev6 = run


def run(res, facts, tier):
    _run_c11_prev6(res, facts, tier)
    r7_twins(res, facts)


# ----------------------------------------------------------------------------------------------- R9: the entry wrappers set up the same environment
RESULT_TYPES = ('bool &', 'double &', 'XalanDOMString &', 'MutableNodeRefList &')


def r9_entry_wrappers(res, facts):
    """XPath::execute exists once per (way of giving the context) x (result type).  What an expression can observe - context node, current node (current()), prefix resolver,
    context node list - must not depend on the result type: within one family the wrappers construct the same scope objects with the same arguments and hand the same
    context on to executeMore / execute."""
    r9 = res.rule('C11-R9', 'the XPath::execute wrappers of one family (same way of giving the context, different result type) set up the same environment: the same scope objects '
                  '(prefix resolver, current node, context node list) constructed with the same arguments, the same context handed on; only the result argument differs', floor=20)
    fam = collections.defaultdict(list)
    for a in facts.asts('XPath::execute', must=False):
        if a.get('body') is None or not a['file'].endswith(('XPath/XPath.cpp', 'XPath/XPath.hpp')):
            continue
        tys = [short(p.get('ty', '')) for p in a['params']]
        res_ids = set()
        env_tys = []
        for p, t in zip(a['params'], tys):
            if t in RESULT_TYPES or t.startswith('FormatterListener &') or '(FormatterListener::*)' in t:
                res_ids.add(p['id'])
            else:
                env_tys.append(t)
        guards = []
        handoff = None
        other = []
        for st in a['body'].get('c', []):
            if st['k'] == 'Decl':
                for v in st['vars']:
                    ini = strip_casts(v['init']) if v.get('init') is not None else None
                    if ini is not None and ini.get('k') == 'Ctor':
                        guards.append('%s(%s)' % (short(ini.get('cls') or '').split('::')[-1], ', '.join(pp(x) for x in ini.get('args', []))))
                    else:
                        other.append(pp(st)[:80])
                continue
            if st['k'] == 'Cast' and st.get('ck') == 'ToVoid':
                continue            # assert() compiled out
            cs = [c for c in calls(st) if (c.get('n') or '') in ('executeMore', 'execute')]
            if cs:
                c = cs[0]
                keep = [pp(x) for x in c.get('args', []) if not (strip_casts(x).get('k') == 'Ref' and strip_casts(x).get('id') in res_ids)]
                handoff = '%s(%s)' % (c.get('n'), ', '.join(keep))
            else:
                other.append(pp(st)[:80])
        fam[tuple(env_tys)].append((a, (tuple(guards), handoff, tuple(other)), [t for t in tys if t not in env_tys]))
    if len(fam) < 3:
        raise AnalysisBroken('XPath::execute: %d families of wrappers (3 or more expected)' % len(fam))
    for env_tys, members in sorted(fam.items()):
        if len(members) < 2:
            continue
        count = collections.Counter(m[1] for m in members)
        ref, _ = count.most_common(1)[0]
        label = 'execute(%s; ...)' % ', '.join(env_tys)
        for a, prof, rt in members:
            site = '%s -> %s' % (label, ', '.join(rt) or 'XObjectPtr')
            if prof == ref:
                r9.ok(site, '%s then %s' % (list(prof[0]), prof[1]))
            else:
                what = []
                if prof[0] != ref[0]:
                    what.append('scope objects %s where its siblings have %s' % (list(prof[0]) or 'none', list(ref[0]) or 'none'))
                if prof[1] != ref[1]:
                    what.append('hands on %s where its siblings hand on %s' % (prof[1], ref[1]))
                if prof[2] != ref[2]:
                    what.append('other statements %s against %s' % (list(prof[2]), list(ref[2])))
                r9.violation(site, '; '.join(what) + ': the expression sees another environment when it is asked for this result type', common.file_line(a))
    return r9


_run_c11_prev7 = run


def run(res, facts, tier):
    _run_c11_prev7(res, facts, tier)
    r9_entry_wrappers(res, facts)
    from . import c02_expr
    c02_expr.run_c11_rule(res, facts, tier)
    from . import c11_nodeconv
    c11_nodeconv.run_rule(res, facts, tier)
    from . import c11_xstring
    c11_xstring.run_rule(res, facts, tier)
