"""C01 — XSLT conformance: every element of the XSLT 1.0 vocabulary is recognised and constructed (DESIGN.md §3)."""
import collections
from ..build import AnalysisBroken
from ..mast import walk, calls, callee, strip_casts, pp, switch_cases, label_name
from ..facts import short, NS
from . import common, tables

XSLT10 = ['apply-imports', 'apply-templates', 'attribute', 'attribute-set', 'call-template', 'choose', 'comment', 'copy', 'copy-of', 'decimal-format', 'element', 'fallback',
          'for-each', 'if', 'import', 'include', 'key', 'message', 'namespace-alias', 'number', 'otherwise', 'output', 'param', 'preserve-space', 'processing-instruction',
          'sort', 'strip-space', 'stylesheet', 'template', 'text', 'transform', 'value-of', 'variable', 'when', 'with-param']
TOP_LEVEL = ['attribute-set', 'decimal-format', 'import', 'include', 'key', 'namespace-alias', 'output', 'param', 'preserve-space', 'strip-space', 'template', 'variable']
INSTRUCTIONS = ['apply-imports', 'apply-templates', 'attribute', 'call-template', 'choose', 'comment', 'copy', 'copy-of', 'element', 'fallback', 'for-each', 'if', 'message',
                'number', 'processing-instruction', 'text', 'value-of', 'variable', 'when', 'otherwise', 'sort', 'with-param', 'param']
TOKEN_ALIAS = {'processing-instruction': 'PI', 'stylesheet': 'STYLESHEET', 'transform': 'STYLESHEET'}


def squash(s):
    return s.replace('-', '').replace('_', '').upper()


def token_of(name):
    return 'ELEMNAME_' + (TOKEN_ALIAS.get(name) or name.replace('-', '_').upper())


def run(res, facts, tier):
    r1 = res.rule('C01-R1', "the XSLT element-name table is strictly sorted under the comparator of its binary search, ends with the dummy entry the search falls back to, "
                  'and maps each of the 35 XSLT 1.0 element names to the token of its own name', floor=70)
    tables.check_docompare_shape(facts)
    cmpf = tables.comparator_of(facts, 'StylesheetConstructionContextDefault::getElementNameToken', {'compare', 'compareIgnoreCaseASCII'})
    t = facts.table('StylesheetConstructionContextDefault::s_elementTokenTable')
    loc = t['loc'].replace('/repo/', '')
    rows = []
    for row in t['val']:
        s = '' if row[0] == 0 else tables.as_string(facts, row[0])
        if s is None:
            raise AnalysisBroken('s_elementTokenTable: cannot decode a name cell')
        rows.append((s, (tables.enum_of(row[1]) or '').split('::')[-1]))
    size = facts.table('StylesheetConstructionContextDefault::s_elementTokenTableSize')['val']
    if size != len(rows):
        r1.violation('s_elementTokenTableSize', 'size constant %s, table has %d rows' % (size, len(rows)), loc)
    body, dummy = rows[:-1], rows[-1]
    if dummy[0] == '' and dummy[1] == 'ELEMNAME_UNDEFINED':
        r1.ok('dummy entry (empty name -> ELEMNAME_UNDEFINED) last')
    else:
        r1.violation('s_elementTokenTable terminator', 'the last row (returned for unknown names) is %s' % (dummy,), loc)
    tr = tables.TRANSFORMS[cmpf]
    for i in range(1, len(body)):
        a, b = body[i - 1][0], body[i][0]
        if tables.xalan_compare(a, b, tr) < 0:
            r1.ok('order "%s" < "%s"' % (a, b))
        else:
            r1.violation('s_elementTokenTable order at "%s"' % b, '"%s" does not sort after "%s" under %s (length first): the binary search cannot find it' % (b, a, cmpf), loc)
    got = dict(body)
    for name in XSLT10:
        site = 'element "%s"' % name
        if got.get(name) == token_of(name):
            r1.ok(site, got[name])
        elif name in got:
            r1.violation(site, 'xsl:%s is mapped to %s, expected %s' % (name, got[name], token_of(name)), loc)
        else:
            r1.violation(site, 'xsl:%s is missing from the element table: a conforming stylesheet using it is rejected' % name, loc)
    toks = collections.Counter(tk for n, tk in body if n not in ('stylesheet', 'transform'))
    for tk, c in toks.items():
        if c > 1:
            r1.violation('token %s' % tk, 'token used by %d different element names' % c, loc)

    r2 = res.rule('C01-R2', 'every XSLT 1.0 instruction token has a constructing case in StylesheetHandler::startElement (inside templates) and in '
                  'StylesheetConstructionContextDefault::createElement; every top-level element token has a non-error case in processTopLevelElement', floor=50)
    def token_switch(fn_ast):
        """the switch over element tokens: the one with the most ELEMNAME_ case labels (whatever the switched variable is called)"""
        best, bn = None, 0
        for x in walk(fn_ast['body']):
            if x['k'] == 'Switch':
                n = sum(1 for g in switch_cases(x) for l in g['labels'] if l is not None and 'ELEMNAME_' in (label_name(l) or ''))
                if n > bn:
                    best, bn = x, n
        return best
    se = facts.asts('StylesheetHandler::startElement')[0]
    sw = token_switch(se)
    if sw is None:
        raise AnalysisBroken('StylesheetHandler::startElement: token switch not found')
    groups = switch_cases(sw)
    label_group = {}
    for i, g in enumerate(groups):
        for l in g['labels']:
            if l is not None:
                label_group[short(label_name(l)).split('::')[-1]] = i

    def group_stmts(i):
        # labels falling through share the statements of the following groups up to the first break
        out = []
        for g in groups[i:]:
            out += g['stmts']
            if g['stmts'] and g['stmts'][-1]['k'] in ('Break', 'Return'):
                break
        return out
    passed_to_create = set()
    for name in INSTRUCTIONS:
        tk = token_of(name)
        site = 'startElement: %s' % tk
        if tk not in label_group:
            r2.violation(site, 'xsl:%s has no case inside templates: it falls to the default branch (extension / unknown element handling)' % name, common.file_line(se))
            continue
        st = group_stmts(label_group[tk])
        cs = [c.get('n') for s in st for c in calls(s)]
        if 'createElement' in cs:
            r2.ok(site, 'constructs the element')
            passed_to_create.add(tk)
        elif any((c or '').startswith(('process', 'create')) for c in cs):
            r2.ok(site, 'constructs through %s' % sorted({c for c in cs if (c or '').startswith(('process', 'create'))})[:2])
        elif name == 'text' and any('m_inText' in pp(s) or 'm_accumulateText' in str(s) or 'XSLText' in str(s) for s in st) or (name == 'text' and not common.reports_error(facts, [x for x in st if x['k'] not in ('If',)])):
            r2.ok(site, 'xsl:text: handled by accumulating the characters that follow')
        else:
            r2.violation(site, 'the case for xsl:%s constructs nothing%s' % (name, ' and reports an error' if 'error' in cs else ''), common.file_line(se, st[0] if st else None))
    ce = facts.asts('StylesheetConstructionContextDefault::createElement')
    ce = [a for a in ce if token_switch(a) is not None]
    if not ce:
        raise AnalysisBroken('StylesheetConstructionContextDefault::createElement: no overload with a switch over element tokens')
    a0 = max(ce, key=lambda a: sum(1 for g in switch_cases(token_switch(a)) for l in g['labels'] if l is not None))
    csw = token_switch(a0)
    clabels = set()
    cdefault = None
    for g in switch_cases(csw):
        for l in g['labels']:
            if l is None:
                cdefault = g
            else:
                clabels.add(short(label_name(l)).split('::')[-1])
    for tk in sorted(passed_to_create):
        site = 'createElement: %s' % tk
        if tk in clabels:
            r2.ok(site)
        elif cdefault is not None and not common.reports_error(facts, cdefault['stmts']):
            r2.ok(site, 'non-error default')
        else:
            r2.violation(site, 'startElement asks createElement for a %s element, but createElement has no case for it: the default reports an error' % tk, common.file_line(a0))
    ptl = facts.asts('StylesheetHandler::processTopLevelElement')[0]
    psw = token_switch(ptl)
    if psw is None:
        raise AnalysisBroken('StylesheetHandler::processTopLevelElement: token switch not found')
    pgroups = switch_cases(psw)
    pl = {}
    for i, g in enumerate(pgroups):
        for l in g['labels']:
            if l is not None:
                pl[short(label_name(l)).split('::')[-1]] = i
    for name in TOP_LEVEL:
        tk = token_of(name)
        site = 'processTopLevelElement: %s' % tk
        if tk not in pl:
            r2.violation(site, 'top-level xsl:%s has no case' % name, common.file_line(ptl))
            continue
        st = []
        for g in pgroups[pl[tk]:]:
            st += g['stmts']
            if g['stmts'] and g['stmts'][-1]['k'] in ('Break', 'Return'):
                break
        straight = [s for s in st if s['k'] not in ('If', 'Switch', 'While', 'For')]
        if common.reports_error(facts, straight, depth=0) and not any(c.get('n', '').startswith(('process', 'create', 'init', 'set', 'push')) for s in st for c in calls(s)):
            r2.violation(site, 'the case for top-level xsl:%s only reports an error' % name, common.file_line(ptl, st[0] if st else None))
        else:
            r2.ok(site)
    res.assume('C01: what each instruction does, alone or combined, is behavioural and not decided')
    from . import c01_ns
    c01_ns.run(res, facts)
    c01_ns.r4_literal_namespaces(res, facts)


_run_c01_prev_scope = run


def run(res, facts, tier):
    _run_c01_prev_scope(res, facts, tier)
    from . import c01_scope
    c01_scope.run_rule(res, facts, tier)
    c01_scope.r6_params(res, facts)
    c01_scope.r14_attribute_needs_element(res, facts)
    c01_scope.r19_fragment_not_text_only(res, facts)


_run_c01_prev_avt = run


def run(res, facts, tier):
    _run_c01_prev_avt(res, facts, tier)
    from . import c01_avt
    c01_avt.run_rule(res, facts, tier)


_run_c01_prev_vars = run


def run(res, facts, tier):
    _run_c01_prev_vars(res, facts, tier)
    from . import c01_vars
    c01_vars.run_rule(res, facts, tier)


_run_c01_prev_number = run


def run(res, facts, tier):
    _run_c01_prev_number(res, facts, tier)
    from . import c01_number
    c01_number.run_rule(res, facts, tier)


_run_c01_prev_copyns = run


def run(res, facts, tier):
    _run_c01_prev_copyns(res, facts, tier)
    from . import c01_copyns
    c01_copyns.run_rule(res, facts, tier)


_run_c01_prev_copyattr = run


def run(res, facts, tier):
    _run_c01_prev_copyattr(res, facts, tier)
    from . import c01_copyns
    c01_copyns.run_attr_rule(res, facts, tier)


_run_c01_prev_count = run


def run(res, facts, tier):
    _run_c01_prev_count(res, facts, tier)
    from . import c01_count
    c01_count.run_rule(res, facts, tier)


_run_c01_prev_nomatch = run


def run(res, facts, tier):
    _run_c01_prev_nomatch(res, facts, tier)
    from . import c10_builtin
    c10_builtin.run_c01_nomatch_rule(res, facts, tier)
    from . import c10_attrorder
    c10_attrorder.run_c01_rule(res, facts, tier)
    from . import c04_attrset
    c04_attrset.run_c01_rule(res, facts, tier)
    from . import c01_keys
    c01_keys.run_rule(res, facts, tier)
    from . import c01_keyfn
    c01_keyfn.run_rule(res, facts, tier)
