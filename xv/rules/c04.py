"""C04 — XML output is well-formed and round-trips.  Structural clauses R1..R5 (see DESIGN.md §3)."""
from ..build import AnalysisBroken
from ..mast import Evaluator, Unsupported, CFG, calls, callee, walk, pp
from . import common

SB = 'XalanXMLSerializerBase::'
LT, GT, AMP, QUOT, TAB, LF, CR, NEL = 0x3C, 0x3E, 0x26, 0x22, 0x9, 0xA, 0xD, 0x85


def table_ints(facts, qname):
    t = facts.table(qname)
    vals = []
    for v in t['val']:
        if v == '<filler>':
            continue
        if isinstance(v, dict) and 'v' in v:
            vals.append(v['v'])
        elif isinstance(v, int):
            vals.append(v)
        else:
            raise AnalysisBroken('table %s: cell not a constant: %r' % (qname, v))
    # declared size
    import re
    m = re.search(r'\[(\d+)\]', t['type'])
    if m:
        n = int(m.group(1))
        if len(vals) > n:
            raise AnalysisBroken('table %s longer than its type' % qname)
        vals += [0] * (n - len(vals))  # zero-filled by the language
    return vals


def predicates(facts, functor):
    """evaluate the five predicates of CharFunctor1_x for every code unit 0..0x2FF by interpreting their ASTs"""
    tabs = {}

    def tables(q):
        q = q.replace('xalanc_1_12::', '')
        if q not in tabs:
            tabs[q] = table_ints(facts, q)
        return tabs[q]
    out = {}
    for pred in ('attribute', 'content', 'range', 'isForbidden', 'isCharRefForbidden'):
        asts = facts.asts(SB + functor + '::' + pred)
        a = asts[0]
        vals = []
        for c in range(0x300):
            ev = Evaluator({a['params'][0]['id']: c}, tables)
            try:
                vals.append(bool(ev.run(a['body'])))
            except Unsupported as u:
                raise AnalysisBroken('%s::%s uses a construct outside the interpreted subset: %s' % (functor, pred, u))
        out[pred] = vals
    return out, tabs


def outcome_content(p, c):
    if p['range'][c]:
        return 'BIG'
    if not p['content'][c]:
        return 'RAW'
    if c in (LT, GT, AMP):
        return 'ENTITY'
    if c == LF:
        return 'NEWLINE'
    if p['isForbidden'][c]:
        return 'ERROR'
    return 'CHARREF'


def outcome_attr(p, c):
    if p['range'][c]:
        return 'BIG'
    if not p['attribute'][c]:
        return 'RAW'
    if c in (LT, GT, AMP, QUOT):
        return 'ENTITY'
    if p['isForbidden'][c]:
        return 'ERROR'
    return 'CHARREF'


def outcome_markup(p, c):  # comments, PIs, CDATA sections: writeNormalizedChar / writeCDATAChars
    if c == LF:
        return 'NEWLINE'
    if p['isCharRefForbidden'][c]:
        return 'ERROR'
    return 'RAW'


def required(version, c):
    """allowed outcomes (content, attribute, markup) per the XML 1.0 / 1.1 Recommendations and the round-trip obligations
    of the statement; None = out of the table's scope"""
    ANY = {'RAW', 'ENTITY', 'CHARREF', 'NEWLINE'}
    ESC = {'ENTITY', 'CHARREF'}
    if version == '1_0':
        if c < 0x20 and c not in (TAB, LF, CR):
            return {'ERROR'}, {'ERROR'}, {'ERROR'}   # not a Char [2]
    else:
        if c == 0:
            return {'ERROR'}, {'ERROR'}, {'ERROR'}   # U+0000 is not a Char in XML 1.1 either
        if (c < 0x20 and c not in (TAB, LF, CR)) or (0x7F <= c <= 0x9F and c != NEL):
            return {'CHARREF'}, {'CHARREF'}, {'ERROR'}  # RestrictedChar [2a]: only as a character reference
        if c == NEL:
            return {'CHARREF'}, {'CHARREF'}, ANY      # a literal NEL is normalised to LF by the parser (XML 1.1 §2.11)
    if c in (LT, AMP):
        return ESC, ESC, ANY
    if c == GT:
        return ESC, ANY, ANY                          # ']]>' in content
    if c == QUOT:
        return ANY, ESC, ANY
    if c == TAB:
        return ANY, {'CHARREF'}, {'RAW'}              # attribute-value normalisation §3.3.3
    if c == LF:
        return ANY, {'CHARREF'}, {'NEWLINE', 'RAW'}
    if c == CR:
        return {'CHARREF'}, {'CHARREF'}, {'RAW'}      # end-of-line handling §2.11
    return ANY, ANY, ANY


def r1_tables(res, facts):
    r = res.rule('C04-R1', 'special-character tables x CharFunctor predicates give, for every code unit the tables cover, '
                 'the outcome (raw / entity / character reference / error) the XML 1.0 and 1.1 productions and end-of-line / '
                 'attribute normalisation rules require', floor=2 * 3 * 128)
    for ver, functor in (('1_0', 'CharFunctor1_0'), ('1_1', 'CharFunctor1_1')):
        p, tabs = predicates(facts, functor)
        tname = SB + functor + '::s_specialChars'
        tab = tabs.get(tname) or table_ints(facts, tname)
        last = facts.table(SB + functor + '::s_lastSpecial')['val']
        if last + 1 != len(tab):
            r.violation('%s::s_lastSpecial' % functor, 's_lastSpecial+1 = %d but the table has %d cells' % (last + 1, len(tab)), facts.table(tname)['loc'])
        else:
            r.ok('%s: s_lastSpecial+1 == table length == %d' % (functor, len(tab)))
        lo_needed = 0x80 if ver == '1_0' else 0xA0
        for c in range(0x300):
            if p['range'][c]:
                if c < lo_needed:
                    r.violation('%s cell 0x%02X' % (functor, c), 'code unit below 0x%X is classified "range" (never escaped or rejected)' % lo_needed, facts.table(tname)['loc'])
                continue
            rc, ra, rm = required(ver, c)
            for what, got, allowed in (('content', outcome_content(p, c), rc), ('attribute', outcome_attr(p, c), ra), ('comment/PI/CDATA', outcome_markup(p, c), rm)):
                site = '%s cell 0x%02X %s' % (functor, c, what)
                if got in allowed:
                    r.ok(site, got)
                else:
                    r.violation(site, 'U+%04X in %s under XML %s: serializer outcome %s, Recommendation requires %s (cell value %d)' %
                                (c, what, ver.replace('_', '.'), got, '/'.join(sorted(allowed)), tab[c] if c < len(tab) else -1), facts.table(tname)['loc'])
    return r


def r1b_model(res, facts):
    """the outcome model used by R1 is the decision structure of the serializer: checked on the CFGs"""
    r = res.rule('C04-R1b', 'FormatterToXMLUnicode consults the predicates the way R1 models it: numeric character references are written '
                 'only where isForbidden is false, forbidden characters reach throwInvalidXMLCharacterException, raw writes in comment/PI/CDATA '
                 'happen only where isCharRefForbidden is false', floor=12)
    tmpl = 'FormatterToXMLUnicode'
    insts = [k for k in facts.astidx if facts.F.get(k, {}).get('clsq', '') == 'xalanc_1_12::FormatterToXMLUnicode']
    byfn = {}
    for k in insts:
        byfn.setdefault(facts.F[k]['name'].split('::')[-1], []).append(k)

    def each(fname):
        ks = byfn.get(fname, [])
        if not ks:
            raise AnalysisBroken('FormatterToXMLUnicode::%s has no instantiation' % fname)
        return ks
    # (function, guarded callee, guard predicate, required branch)
    specs = [('writeDefaultEscape', 'writeNumericCharacterReference', 'isForbidden', False),
             ('writeDefaultEscape', 'throwInvalidXMLCharacterException', 'isForbidden', True),
             ('writeDefaultAttributeEscape', 'writeNumericCharacterReference', 'isForbidden', False),
             ('writeDefaultAttributeEscape', 'throwInvalidXMLCharacterException', 'isForbidden', True),
             ('writeNormalizedChar', 'write', 'isCharRefForbidden', False),
             ('writeNormalizedChar', 'throwInvalidXMLCharacterException', 'isCharRefForbidden', True),
             ('writeCDATAChars', 'writeCDATAChar', 'isCharRefForbidden', False),
             ('writeCDATAChars', 'throwInvalidXMLCharacterException', 'isCharRefForbidden', True)]
    for fname, target, pred, branch in specs:
        for k in each(fname):
            a = facts.ast(k)
            cfg = CFG(a)
            must = common.must_conds(cfg)
            found = 0
            for n in cfg.nodes:
                if n.kind != 'stmt':
                    continue
                for c in calls(n.ast):
                    if (c.get('n') or callee(c).split('::')[-1]) == target:
                        found += 1
                        conds = must.get(n.id, [])
                        ok = any(common.cond_is_call(ct, pred, br, branch) for ct, br in conds)
                        site = '%s: %s guarded by %s==%s' % (common.short_fq(facts, k), target, pred, str(branch).lower())
                        if ok:
                            r.ok(site)
                        else:
                            r.violation(site, 'call to %s is not dominated by %s(ch) %s' % (target, pred, 'true' if branch else 'false'), '%s:%s' % (a['file'].replace('/repo/', ''), c.get('l')))
            if not found:
                r.violation('%s: %s present' % (common.short_fq(facts, k), target), 'expected call to %s not found' % target, a['file'].replace('/repo/', ''))
    return r


def run(res, facts, tier):
    r1_tables(res, facts)
    r1b_model(res, facts)
