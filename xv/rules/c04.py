"""C04 — XML output is well-formed and round-trips.  Structural clauses R1..R5 (see DESIGN.md §3)."""
from ..build import AnalysisBroken
from ..mast import Evaluator, Unsupported, CFG, calls, callee, walk, pp
from . import common

SB = 'XalanXMLSerializerBase::'
LT, GT, AMP, QUOT, TAB, LF, CR, NEL = 0x3C, 0x3E, 0x26, 0x22, 0x9, 0xA, 0xD, 0x85


def table_ints(facts, qname):
    t = facts.table(qname)
    vals = []
    for v in t['val']:
        if v == '<filler>':
            continue
        if isinstance(v, dict) and 'v' in v:
            vals.append(v['v'])
        elif isinstance(v, int):
            vals.append(v)
        else:
            raise AnalysisBroken('table %s: cell not a constant: %r' % (qname, v))
    # declared size
    import re
    m = re.search(r'\[(\d+)\]', t['type'])
    if m:
        n = int(m.group(1))
        if len(vals) > n:
            raise AnalysisBroken('table %s longer than its type' % qname)
        vals += [0] * (n - len(vals))  # zero-filled by the language
    return vals


def scalar_const(facts, q):
    t = facts.table(q.replace('xalanc_1_12::', ''), must=False)
    if t is not None and isinstance(t['val'], int):
        return t['val']
    return None


def predicates(facts, functor):
    """evaluate the five predicates of CharFunctor1_x for every code unit 0..0x2FF by interpreting their ASTs"""
    tabs = {}

    def tables(q):
        q = q.replace('xalanc_1_12::', '')
        if q not in tabs:
            tabs[q] = table_ints(facts, q)
        return tabs[q]
    out = {}
    for pred in ('attribute', 'content', 'range', 'isForbidden', 'isCharRefForbidden'):
        asts = facts.asts(SB + functor + '::' + pred)
        a = asts[0]
        vals = []
        for c in range(0x300):
            ev = Evaluator({a['params'][0]['id']: c}, tables, consts=lambda q: scalar_const(facts, q))
            try:
                vals.append(bool(ev.run(a['body'])))
            except Unsupported as u:
                raise AnalysisBroken('%s::%s uses a construct outside the interpreted subset: %s' % (functor, pred, u))
        out[pred] = vals
    return out, tabs


def outcome_content(p, c):
    if p['range'][c]:
        return 'BIG'
    if not p['content'][c]:
        return 'RAW'
    if c in (LT, GT, AMP):
        return 'ENTITY'
    if c == LF:
        return 'NEWLINE'
    if p['isForbidden'][c]:
        return 'ERROR'
    return 'CHARREF'


def outcome_attr(p, c):
    if p['range'][c]:
        return 'BIG'
    if not p['attribute'][c]:
        return 'RAW'
    if c in (LT, GT, AMP, QUOT):
        return 'ENTITY'
    if p['isForbidden'][c]:
        return 'ERROR'
    return 'CHARREF'


def outcome_markup(p, c):  # comments, PIs, CDATA sections: writeNormalizedChar / writeCDATAChars
    if c == LF:
        return 'NEWLINE'
    if p['isCharRefForbidden'][c]:
        return 'ERROR'
    return 'RAW'


def required(version, c):
    """allowed outcomes (content, attribute, markup) per the XML 1.0 / 1.1 Recommendations and the round-trip obligations
    of the statement; None = out of the table's scope"""
    ANY = {'RAW', 'ENTITY', 'CHARREF', 'NEWLINE'}
    ESC = {'ENTITY', 'CHARREF'}
    if version == '1_0':
        if c < 0x20 and c not in (TAB, LF, CR):
            return {'ERROR'}, {'ERROR'}, {'ERROR'}   # not a Char [2]
    else:
        if c == 0:
            return {'ERROR'}, {'ERROR'}, {'ERROR'}   # U+0000 is not a Char in XML 1.1 either
        if (c < 0x20 and c not in (TAB, LF, CR)) or (0x7F <= c <= 0x9F and c != NEL):
            return {'CHARREF'}, {'CHARREF'}, {'ERROR'}  # RestrictedChar [2a]: only as a character reference
        if c == NEL:
            return {'CHARREF'}, {'CHARREF'}, ANY      # a literal NEL is normalised to LF by the parser (XML 1.1 §2.11)
    if c in (LT, AMP):
        return ESC, ESC, ANY
    if c == GT:
        return ESC, ANY, ANY                          # ']]>' in content
    if c == QUOT:
        return ANY, ESC, ANY
    if c == TAB:
        return ANY, {'CHARREF'}, {'RAW'}              # attribute-value normalisation §3.3.3
    if c == LF:
        return ANY, {'CHARREF'}, {'NEWLINE', 'RAW'}
    if c == CR:
        return {'CHARREF'}, {'CHARREF'}, {'RAW'}      # end-of-line handling §2.11
    return ANY, ANY, ANY


def r1_tables(res, facts):
    r = res.rule('C04-R1', 'special-character tables: s_lastSpecial + 1 equals the table length, and no code unit below 0x80 (1.0) / 0xA0 (1.1) is left to the '
                 '"range" path that never escapes or rejects; what each cell makes the serializer do is decided by R1c', floor=256)
    for ver, functor in (('1_0', 'CharFunctor1_0'), ('1_1', 'CharFunctor1_1')):
        p, tabs = predicates(facts, functor)
        tname = SB + functor + '::s_specialChars'
        tab = tabs.get(tname) or table_ints(facts, tname)
        last = facts.table(SB + functor + '::s_lastSpecial')['val']
        if last + 1 != len(tab):
            r.violation('%s::s_lastSpecial' % functor, 's_lastSpecial+1 = %d but the table has %d cells' % (last + 1, len(tab)), facts.table(tname)['loc'])
        else:
            r.ok('%s: s_lastSpecial+1 == table length == %d' % (functor, len(tab)))
        lo_needed = 0x80 if ver == '1_0' else 0xA0
        for c in range(0x300):
            if p['range'][c]:
                if c < lo_needed:
                    r.violation('%s cell 0x%02X' % (functor, c), 'code unit below 0x%X is classified "range" (never escaped or rejected)' % lo_needed, facts.table(tname)['loc'])
                continue
            r.ok('%s cell 0x%02X handled by the table' % (functor, c))
    return r


def r1b_model(res, facts):
    """the outcome model used by R1 is the decision structure of the serializer: checked on the CFGs"""
    r = res.rule('C04-R1b', 'CDATA sections: a character is handed to the writer only where isCharRefForbidden is false, and a forbidden one reaches '
                 'throwInvalidXMLCharacterException', floor=12)
    tmpl = 'FormatterToXMLUnicode'
    insts = [k for k in facts.astidx if facts.F.get(k, {}).get('clsq', '') == 'xalanc_1_12::FormatterToXMLUnicode']
    byfn = {}
    for k in insts:
        byfn.setdefault(facts.F[k]['name'].split('::')[-1], []).append(k)

    def each(fname):
        ks = byfn.get(fname, [])
        if not ks:
            raise AnalysisBroken('FormatterToXMLUnicode::%s has no instantiation' % fname)
        return ks
    # (function, guarded callee, guard predicate, required branch)
    # the per-character escape functions are interpreted by R1c; the CDATA loop is not (it is a loop), so its two guards are checked here
    specs = [('writeCDATAChars', 'writeCDATAChar', 'isCharRefForbidden', False),
             ('writeCDATAChars', 'throwInvalidXMLCharacterException', 'isCharRefForbidden', True)]
    for fname, target, pred, branch in specs:
        for k in each(fname):
            a = facts.ast(k)
            cfg = CFG(a)
            must = common.must_conds(cfg)
            found = 0
            for n in cfg.nodes:
                if n.kind != 'stmt':
                    continue
                for c in calls(n.ast):
                    if (c.get('n') or callee(c).split('::')[-1]) == target:
                        found += 1
                        conds = must.get(n.id, [])
                        ok = any(common.cond_is_call(ct, pred, br, branch) for ct, br in conds)
                        site = '%s: %s guarded by %s==%s' % (common.short_fq(facts, k), target, pred, str(branch).lower())
                        if ok:
                            r.ok(site)
                        else:
                            r.violation(site, 'call to %s is not dominated by %s(ch) %s' % (target, pred, 'true' if branch else 'false'), '%s:%s' % (a['file'].replace('/repo/', ''), c.get('l')))
            if not found:
                r.violation('%s: %s present' % (common.short_fq(facts, k), target), 'expected call to %s not found' % target, a['file'].replace('/repo/', ''))
    return r


def run(res, facts, tier):
    r1_tables(res, facts)
    r1b_model(res, facts)


# ----------------------------------------------------------------------------------------------- R2: writer guard accounting
WRITERS = ('XalanUTF8Writer', 'XalanUTF16Writer', 'XalanOtherEncodingWriter')
LONGEST_NCR = len('&#1114111;')


# locals whose value is bounded far below every writer capacity, one reason each
BOUNDED_SYMBOLS = {('writeNumericCharacterReference', 'theLength'): 'length of a numeric character reference (&#1114111; = 10 characters)'}


class BufState:
    __slots__ = ('G', 'sg_num', 'sg_sym', 'S_num', 'S_sym', 'A_num', 'A_sym', 'P_num', 'P_sym', 'le_cap')

    def __init__(self):
        self.G = ('num', 0); self.sg_num = 0; self.sg_sym = []; self.S_num = 0; self.S_sym = []; self.A_num = 0; self.A_sym = []
        self.P_num = 0; self.P_sym = []; self.le_cap = set()

    def copy(self):
        s = BufState()
        for k in self.__slots__:
            v = getattr(self, k)
            setattr(s, k, list(v) if isinstance(v, list) else (set(v) if isinstance(v, set) else v))
        return s


def is_member(e, name):
    e = common.strip_casts(e) if hasattr(common, 'strip_casts') else e
    return e is not None and e.get('k') == 'Member' and e.get('m') == name


def sym_of(e):
    from ..mast import strip_casts
    e = strip_casts(e)
    if e is None:
        return None
    if 'cv' in e and e.get('k') != 'Ref':
        return ('num', e['cv'])
    if e.get('k') == 'Ref' and 'cv' in e and e.get('d') not in ('param', 'local'):
        return ('num', e['cv'])
    if e.get('k') == 'Ref' and e.get('d') in ('param', 'local'):
        return ('sym', e['n'])
    return None


class WriterInterp:
    def __init__(self, a, cap, elem_size, report):
        self.a = a; self.cap = cap; self.elem_size = elem_size; self.report = report; self.nstores = 0

    def fail(self, node, msg):
        self.report(node, msg)

    # --- expression-level events
    def events(self, e, st):
        """apply stores / increments / decrements / flushes found in an expression statement"""
        from ..mast import strip_casts, walk as _walk
        for x in _walk(e):
            k = x['k']
            if k == 'Bin' and x['op'] == '=':
                l = strip_casts(x['lhs'])
                if l is not None and l.get('k') == 'Un' and l['op'] == '*' and is_member(strip_casts(l['e']), 'm_bufferPosition'):
                    self.store(x, st, 1)
                elif is_member(l, 'm_bufferPosition'):
                    r = strip_casts(x['rhs'])
                    if r is not None and r.get('k') == 'Call' and r.get('n') == 'copy':
                        # m_bufferPosition = copy(begin, end, m_bufferPosition): as many stores as the source is long
                        self.store_sym(x, st, self.copy_length(r), pos_too=True)
                    elif not (r is not None and is_member(r, 'm_buffer')):
                        self.fail(x, 'm_bufferPosition assigned from an unrecognised expression')
                elif is_member(l, 'm_bufferRemaining'):
                    r = strip_casts(x['rhs'])
                    if r is not None and r.get('k') == 'Bin' and r['op'] == '-' and is_member(strip_casts(r['lhs']), 'm_bufferRemaining'):
                        self.account(x, st, sym_of(r['rhs']))
                    elif r is not None and (r.get('cv') == self.cap):
                        pass
                    else:
                        self.fail(x, 'm_bufferRemaining assigned from an unrecognised expression')
            elif k == 'Bin' and x['op'] == '-=' and is_member(strip_casts(x['lhs']), 'm_bufferRemaining'):
                self.account(x, st, sym_of(x['rhs']))
            elif k == 'Un' and x['op'] == '--' and is_member(strip_casts(x['e']), 'm_bufferRemaining'):
                self.account(x, st, ('num', 1))
            elif k == 'Un' and x['op'] == '++' and is_member(strip_casts(x['e']), 'm_bufferPosition'):
                st.P_num += 1
            elif k == 'MCall' and x.get('n') == 'flushBuffer':
                st.G = ('cap',); st.sg_num = 0; st.sg_sym = []

    def copy_length(self, call):
        # the length symbol is whatever the function later subtracts; use the name 'theLength' convention-free: take the container argument text
        return 'theLength'

    def store(self, node, st, n):
        self.nstores += 1
        st.S_num += n; st.sg_num += n
        g = st.G
        if g[0] == 'num':
            if st.sg_num > g[1] or st.sg_sym:
                self.fail(node, 'store #%d since the last space check, but only %d element(s) of room established (guard m_bufferRemaining < %d)' % (st.sg_num, g[1], g[1]))
        elif g[0] == 'cap':
            if st.sg_num > self.cap:
                self.fail(node, 'more stores than the buffer holds after a flush')
            for s in st.sg_sym:
                if s not in st.le_cap:
                    self.fail(node, 'store after a flush with %s elements pending, and %s is not known to fit the buffer' % (s, s))
        elif g[0] == 'sym':
            self.fail(node, 'single store under a symbolic guard %s' % g[1])

    def store_sym(self, node, st, sym, pos_too=False):
        self.nstores += 1
        st.S_sym.append(sym); st.sg_sym.append(sym)
        if pos_too:
            st.P_sym.append(sym)
        g = st.G
        if g[0] == 'sym' and g[1] == sym and st.sg_num == 0 and st.sg_sym == [sym]:
            return
        if g[0] == 'cap' and st.sg_num == 0 and st.sg_sym == [sym] and (sym in st.le_cap):
            return
        if g[0] == 'cap' and sym not in st.le_cap:
            self.fail(node, '%s elements stored after a flush, but %s was never compared with the buffer capacity' % (sym, sym))
            return
        self.fail(node, '%s elements stored but the established room is %s' % (sym, g))

    def account(self, node, st, v):
        if v is None:
            self.fail(node, 'm_bufferRemaining decremented by an unrecognised amount'); return
        if v[0] == 'num':
            st.A_num += v[1]
        else:
            st.A_sym.append(v[1])

    # --- statements
    def run(self, s, states):
        from ..mast import strip_casts, walk as _walk
        if s is None:
            return states
        k = s['k']
        if k == 'Compound':
            for c in s['c']:
                states = self.run(c, states)
            return states
        if k == 'If':
            outs = []
            for st in states:
                t = st.copy(); f = st.copy()
                self.apply_cond(s['cond'], t, f)
                outs += self.run(s['then'], [t])
                outs += self.run(s.get('else'), [f]) if s.get('else') else [f]
            return outs
        if k in ('For', 'While', 'Do'):
            body = s['body']
            stores = [x for x in _walk(body) if x['k'] == 'Bin' and x['op'] == '=' and strip_casts(x['lhs']).get('k') == 'Un' and strip_casts(x['lhs'])['op'] == '*'
                      and is_member(strip_casts(strip_casts(x['lhs'])['e']), 'm_bufferPosition')]
            decs = [x for x in _walk(body) if (x['k'] == 'Un' and x['op'] == '--' and is_member(strip_casts(x['e']), 'm_bufferRemaining'))
                    or (x['k'] == 'Bin' and x['op'] == '-=' and is_member(strip_casts(x['lhs']), 'm_bufferRemaining'))]
            if not stores and not decs:
                return states   # calls other (self-contained) write functions only
            # symbolic loop: for (i = 0; i < L; ++i) { *pos = x; ++pos; }
            cond = strip_casts(s.get('cond')) if s.get('cond') else None
            L = None
            if cond is not None and cond.get('k') == 'Bin' and cond['op'] == '<':
                v = sym_of(cond['rhs'])
                if v and v[0] == 'sym':
                    L = v[1]
            incs = [x for x in _walk(body) if x['k'] == 'Un' and x['op'] == '++' and is_member(strip_casts(x['e']), 'm_bufferPosition')]
            if L is None or len(stores) != 1 or len(incs) != 1 or decs:
                for st in states:
                    self.fail(s, 'loop writes the buffer in a shape the guard accounting does not recognise')
                return states
            for st in states:
                self.store_sym(stores[0], st, L)
                st.P_sym.append(L)
            return states
        if k == 'Return':
            for st in states:
                self.finish(s, st)
            if s.get('e') is not None:
                for st in states:
                    self.events(s['e'], st)
            return []
        if k == 'Decl':
            for v in s['vars']:
                if v.get('init') is not None:
                    for st in states:
                        self.events(v['init'], st)
                        if (self.a['name'].split('::')[-1], v['n']) in BOUNDED_SYMBOLS:
                            st.le_cap.add(v['n'])
            return states
        if k in ('Switch', 'Try', 'Goto', 'Label'):
            if any(is_member(x, 'm_bufferPosition') or is_member(x, 'm_bufferRemaining') for x in _walk(s)):
                for st in states:
                    self.fail(s, 'buffer manipulated inside a %s statement: outside the interpreted subset' % k)
            return states
        if k in ('Break', 'Continue', 'Null'):
            return states
        for st in states:
            self.events(s, st)
        return states

    def apply_cond(self, c, t, f):
        from ..mast import strip_casts
        core, eff = common.norm_atom(c, True)
        if core is None or core.get('k') != 'Bin':
            return
        op = core['op']; l = strip_casts(core['lhs']); r = strip_casts(core['rhs'])
        tb, fb = (t, f) if eff else (f, t)   # tb: state where the comparison holds
        if is_member(l, 'm_bufferRemaining') and op == '<':
            v = sym_of(r)
            if v:
                fb.G = v if (v[0] == 'sym' or fb.G[0] != 'num' or v[1] > fb.G[1]) else fb.G
                fb.sg_num = 0; fb.sg_sym = []
        elif is_member(l, 'm_bufferRemaining') and op == '==' and r.get('cv') == 0:
            if fb.G[0] == 'num' and fb.G[1] < 1:
                fb.G = ('num', 1); fb.sg_num = 0; fb.sg_sym = []
        elif op == '>' and sym_of(l) and sym_of(l)[0] == 'sym' and 'cv' in r and (r.get('k') == 'Sizeof' or r.get('n') == 'kBufferSize'):
            # theLength > capacity
            if r['cv'] != self.cap:
                self.fail(c, 'length compared with %d, but the buffer holds %d elements (sizeof of a %d-byte-element array is a byte count)' % (r['cv'], self.cap, self.elem_size))
            fb.le_cap.add(sym_of(l)[1])

    def finish(self, node, st):
        if st.S_num != st.A_num or sorted(st.S_sym) != sorted(st.A_sym):
            self.fail(node, 'path stores %s element(s) but decrements m_bufferRemaining by %s' % (self.fmt(st.S_num, st.S_sym), self.fmt(st.A_num, st.A_sym)))
        if st.S_num != st.P_num or sorted(st.S_sym) != sorted(st.P_sym):
            self.fail(node, 'path stores %s element(s) but advances m_bufferPosition %s time(s)' % (self.fmt(st.S_num, st.S_sym), self.fmt(st.P_num, st.P_sym)))

    @staticmethod
    def fmt(n, syms):
        return ' + '.join([str(n)] + sorted(syms)) if syms else str(n)


def r2_writers(res, facts):
    r = res.rule('C04-R2', 'writer buffer stores are covered by the space guard: along every path of every method of the three buffered writers, the stores through '
                 'm_bufferPosition since the last check fit the room that check established, m_bufferRemaining is decremented by exactly the number of stores, and a length is '
                 'compared with the capacity in elements', floor=8)
    n_fn = 0
    for k in sorted(facts.astidx, key=lambda k: facts.name.get(k, '')):
        f = facts.F.get(k)
        if not f or not short_cls(f).startswith(WRITERS):
            continue
        a = facts.ast(k)
        txt = str(a['body'])
        if 'm_bufferPosition' not in txt and 'm_bufferRemaining' not in txt:
            continue
        nm = f['name'].split('::')[-1]
        if nm in ('flushBuffer',) or f.get('kind') in ('ctor', 'dtor'):
            continue
        cls = facts.K.get(f['cls'])
        cap = None; elem = 1
        for fl in (cls or {}).get('fields', []):
            if fl['n'] == 'm_buffer':
                import re as _re
                m = _re.match(r'^(.*)\[(\d+)\]$', fl['ty'])
                if m:
                    cap = int(m.group(2)); elem = 1 if m.group(1).strip() in ('char', 'unsigned char') else 2
        if cap is None:
            raise AnalysisBroken('cannot find m_buffer[] in %s' % f['cls'])
        n_fn += 1
        viol = []
        wi = WriterInterp(a, cap, elem, lambda node, msg: viol.append((node, msg)))
        ends = wi.run(a['body'], [BufState()])
        for st in ends:
            wi.finish(a['body'], st)
        site = '%s' % facts.sig(k).replace('xalanc_1_12::', '')
        site = re_targs(site)
        outside = [msg for node, msg in viol if 'unrecognised' in msg or 'does not recognise' in msg or 'outside the interpreted subset' in msg]
        if outside:
            # a shape the accounting cannot follow is neither a pass nor a violation (a correct block copy would look the same)
            res.broken.append('C04-R2: %s at %s: %s' % (site, common.file_line(a), outside[0]))
            r.instances += 1
            continue
        if viol:
            seen = set()
            for node, msg in viol:
                if msg in seen:
                    continue
                seen.add(msg)
                r.violation(site, msg, common.file_line(a, node))
        else:
            r.ok(site, '%d store site(s), capacity %d x %d byte(s)' % (wi.nstores, cap, elem))
        if cap < LONGEST_NCR:
            r.violation(site + ' capacity', 'buffer of %d elements cannot hold the longest numeric character reference' % cap, common.file_line(a))
    if n_fn < 8:
        raise AnalysisBroken('only %d buffer-writing writer methods found (floor 8)' % n_fn)
    res.assume('C04-R2: formatNumericCharacterReference yields at most %d characters (&#1114111;), far below every writer capacity' % LONGEST_NCR)
    return r


def short_cls(f):
    return (f.get('cls') or '').replace('xalanc_1_12::', '')


def re_targs(s):
    out = ''; d = 0
    for ch in s:
        if ch == '<':
            d += 1
        elif ch == '>':
            d -= 1
        elif d == 0:
            out += ch
    return out


_run_r1 = run


def run(res, facts, tier):
    _run_r1(res, facts, tier)
    r2_writers(res, facts)


# ----------------------------------------------------------------------------------------------- R3 (shared with C03-R5), R4, R5
def serializer_instantiations(facts):
    out = []
    for n, k in facts.K.items():
        if k.get('tmpl') == 'xalanc_1_12::FormatterToXMLUnicode':
            ta = [t.replace('xalanc_1_12::', '') for t in k['targs']]
            out.append((n, ta))
    if len(out) < 12:
        raise AnalysisBroken('only %d FormatterToXMLUnicode instantiations (floor 12)' % len(out))
    return out


def writer_family(t):
    return 'UTF8' if t.startswith('XalanUTF8Writer') else ('UTF16' if t.startswith('XalanUTF16Writer') else ('OTHER' if t.startswith('XalanOtherEncodingWriter') else '?'))


def r4_instantiations(res, facts):
    r = res.rule('C04-R4', 'every FormatterToXMLUnicode instantiation is internally consistent (character predicate and version tag of the same XML version, constants of the '
                 "writer's code-unit width, indent helper bound to the same writer), and XalanXMLSerializerFactory::create picks on every branch the instantiation its conditions describe", floor=24)
    for name, ta in serializer_instantiations(facts):
        writer, consts, pred, indent, ver = ta
        site = 'FormatterToXMLUnicode<%s, %s, %s, %s, %s>' % (writer_family(writer), consts.split('::')[-1], pred.split('::')[-1], indent.split('<')[0], ver.split('::')[-1])
        probs = []
        if pred.endswith('1_0') != ver.endswith('1_0'):
            probs.append('character predicate %s with version tag %s' % (pred.split('::')[-1], ver.split('::')[-1]))
        fam = writer_family(writer)
        if (fam == 'UTF8') != consts.endswith('UTF8'):
            probs.append('%s writer with %s constants' % (fam, consts.split('::')[-1]))
        if writer.split('<')[0] not in indent:
            probs.append('indent helper %s is bound to another writer' % indent[:50])
        if probs:
            r.violation(site, '; '.join(probs), facts.K[name]['loc'].replace('/repo/', ''))
        else:
            r.ok(site)
    a = facts.asts('XalanXMLSerializerFactory::create')[0]
    cfg = CFG(a)
    must = common.must_conds(cfg)
    n = 0
    for nd in cfg.nodes:
        if nd.ast is None:
            continue
        for c in calls(nd.ast):
            if c.get('n') == 'create' and 'FormatterToXMLUnicode<' in (c.get('cls') or ''):
                n += 1
                cls = c['cls'].replace('xalanc_1_12::', '')
                facts_here = {}
                for atom, br in must.get(nd.id, []):
                    core, eff = common.norm_atom(atom, br)
                    t = pp(core)
                    if core.get('k') in ('Call', 'MCall') and core.get('n') in ('encodingIsUTF8', 'encodingIsUTF16'):
                        facts_here[core['n']] = eff
                    elif 'isVersion1_1' in t:
                        facts_here['isVersion1_1'] = eff
                    elif 'doIndent' in t:
                        facts_here['doIndent'] = eff
                fam = 'UTF8' if cls.startswith('FormatterToXMLUnicode<XalanUTF8Writer') else ('UTF16' if cls.startswith('FormatterToXMLUnicode<XalanUTF16Writer') else 'OTHER')
                want_fam = 'UTF8' if facts_here.get('encodingIsUTF8') else ('UTF16' if facts_here.get('encodingIsUTF16') else 'OTHER')
                is11 = 'XML_VERSION_1_1' in cls
                isind = 'XalanIndentWriter<' in cls
                site = 'create(): branch %s' % ', '.join('%s=%s' % (k, str(v).lower()) for k, v in sorted(facts_here.items()))
                probs = []
                if fam != want_fam:
                    probs.append('%s serializer chosen where the encoding tests select %s' % (fam, want_fam))
                if is11 != bool(facts_here.get('isVersion1_1')):
                    probs.append('XML %s serializer on the isVersion1_1 == %s branch' % ('1.1' if is11 else '1.0', str(bool(facts_here.get('isVersion1_1'))).lower()))
                if isind != bool(facts_here.get('doIndent')):
                    probs.append('%s serializer on the doIndent == %s branch' % ('indenting' if isind else 'non-indenting', str(bool(facts_here.get('doIndent'))).lower()))
                if probs:
                    r.violation(site, '; '.join(probs), common.file_line(a, c))
                else:
                    r.ok(site, '%s / %s / %s' % (fam, '1.1' if is11 else '1.0', 'indent' if isind else 'no indent'))
    if n < 12:
        raise AnalysisBroken('only %d serializer creations found in XalanXMLSerializerFactory::create (floor 12)' % n)
    return r


def r3_cdata(res, facts):
    from . import c03
    r = res.rule('C04-R3', "the CDATA ']]>' look-ahead stays inside the text: no unsigned 'i - length' under 'i < length' in the serializer (same analysis as C03-R5, restricted to XMLSupport)", floor=1)
    tmp = type(res)(res.prop, res.tier)
    rr = c03.r5_wrap(tmp, facts)
    hits = [v for v in rr.viol if 'XMLSupport' in (v.get('loc') or '') or 'Formatter' in v['site'] or 'Writer' in v['site']]
    for v in hits:
        r.violation(v['site'], v['what'], v.get('loc'))
    if not hits:
        r.ok('FormatterToXMLUnicode::writeCDATAChars and the writers: no wrapping look-ahead distance')
    return r


def r5_names(res, facts):
    r = res.rule('C04-R5', 'names reach the writer only through writeName -> writeNameChar (an unrepresentable character raises an error, never a character reference inside a name); '
                 'computed comments and PIs are raised only by childrenToResultComment / childrenToResultPI (the -- and ?> repair cannot be bypassed)', floor=20)
    # (a) in FormatterToXMLUnicode: startElement / endElement / processAttribute / processing instruction target / doctype write names via writeName
    byfn = collections.defaultdict(list)
    for k in facts.astidx:
        f = facts.F.get(k)
        if f and f.get('clsq') == 'xalanc_1_12::FormatterToXMLUnicode':
            byfn[f['name'].split('::')[-1]].append(k)
    for fn, argname in (('startElement', 'name'), ('endElement', 'name'), ('processAttribute', 'name'), ('writeProcessingInstruction', 'target')):
        for k in byfn.get(fn, []):
            a = facts.ast(k)
            pnames = {p['n']: p['id'] for p in a['params']}
            if argname not in pnames:
                continue
            uses = []
            for c in calls(a['body']):
                for arg in c.get('args', []):
                    sa = strip_casts_(arg)
                    if sa is not None and sa.get('k') == 'Ref' and sa.get('id') == pnames[argname]:
                        uses.append(c.get('n') or callee(c))
            site = '%s(%s)' % (common.short_fq(facts, k).split('>::')[-1][:60], argname)
            bad = [u for u in uses if u in ('write', 'writeSafe', 'safeWriteContent', 'writeNormalizedData', 'writeCharacters', 'writeAttrString')]
            if 'writeName' in uses and not bad:
                r.ok('FormatterToXMLUnicode::%s: %s written through writeName' % (fn, argname))
            elif bad:
                r.violation('FormatterToXMLUnicode::%s name path' % fn, 'the %s is written through %s, which substitutes character references instead of failing' % (argname, bad[0]), common.file_line(a))
    for k in byfn.get('writeName', []):
        a = facts.ast(k)
        ns = [c.get('n') for c in calls(a['body'])]
        if 'writeNameChar' in ns and not (set(ns) & {'write', 'writeSafe'}):
            r.ok('writeName -> writeNameChar')
        else:
            r.violation('FormatterToXMLUnicode::writeName', 'writeName no longer goes through writeNameChar', common.file_line(a))
        break
    # (b) Elem* classes: comment() / processingInstruction() events carry data that went through the repair loop in the same function
    for c in facts.calls:
        tn = c.get('toName', '')
        if tn not in ('xalanc_1_12::StylesheetExecutionContext::comment', 'xalanc_1_12::StylesheetExecutionContext::processingInstruction'):
            continue
        fr = facts.F.get(c['from'], {})
        fn = fr.get('name', '?').replace('xalanc_1_12::', '')
        cls = fr.get('clsq', '').replace('xalanc_1_12::', '')
        if not cls.startswith('Elem'):
            continue
        a = facts.ast(c['from'])
        what = tn.split('::')[-1]
        site = '%s raises %s' % (fn, what)
        marker = 'charHyphenMinus' if what == 'comment' else 'charQuestionMark'
        ok = False
        for call in calls(a['body']):
            if call.get('n') == what and 'ExecutionContext' in (call.get('cls') or ''):
                data = strip_casts_(call['args'][-1])
                # data is S.c_str(): find S
                var = None
                if data is not None and data.get('k') == 'MCall' and data.get('n') == 'c_str':
                    o = strip_casts_(data['obj'])
                    var = o.get('id') if o is not None and o.get('k') == 'Ref' else None
                repaired = False
                for lp in walk(a['body']):
                    if lp['k'] in ('While', 'For', 'Do'):
                        txt = pp_all(lp)
                        ins = [x for x in calls(lp['body']) if x.get('n') == 'insert' and strip_casts_(x.get('obj')) is not None and strip_casts_(x['obj']).get('id') == var
                               and any(strip_casts_(y) is not None and strip_casts_(y).get('n') == 'charSpace' for y in x['args'])]
                        if ins and marker in txt:
                            repaired = True
                ok = repaired and var is not None
        if ok:
            r.ok(site, 'data passes the %s repair loop in the same function' % ("'--'" if what == 'comment' else "'?>'"))
        else:
            r.violation(site, 'the data handed to %s() did not go through the %s repair (space insertion) in this function: computed content can close the construct early' % (what, "'--'" if what == 'comment' else "'?>'"), c['loc'].replace('/repo/', ''))
    return r


def pp_all(n):
    from ..mast import walk as _w
    return ' '.join(x.get('n', '') for x in _w(n) if x['k'] == 'Ref')


def strip_casts_(e):
    from ..mast import strip_casts
    return strip_casts(e)


import collections
_run_r12 = run


def run(res, facts, tier):
    _run_r12(res, facts, tier)
    r3_cdata(res, facts)
    r4_instantiations(res, facts)
    r5_names(res, facts)


# ----------------------------------------------------------------------------------------------- derived escape outcomes (replaces the frozen model of R1)
class _Thrown(Exception):
    pass


def escape_outcome(facts, inst_usrs, fname, args_by_name, preds):
    """Interpret FormatterToXMLUnicode<...>::<fname> (and the members of the same instantiation it calls) for concrete arguments.
    Returns the list of output events: ENTITY / NEWLINE / CHARREF / RAW / ERROR."""
    from ..mast import Machine, Unsupported as _U, strip_casts as _sc
    events = []

    def run_fn(usr, argvals, depth):
        a = facts.ast(usr)
        env = {}
        for p, v in zip(a['params'], argvals):
            env[p['id']] = v

        def hook(m, c):
            n = c.get('n') or ''
            o = _sc(c.get('obj')) if c.get('obj') is not None else None
            if c['k'] == 'MCall' and o is not None and o.get('k') == 'Member' and o.get('m') == 'm_charPredicate' and n in preds:
                v = m.ev(c['args'][0])
                return int(preds[n][v])
            if c['k'] == 'MCall' and o is not None and o.get('k') == 'Member' and o.get('m') == 'm_writer':
                if n in ('write', 'writeSafe', 'writeCDATAChar', 'writePIChars', 'writeCommentChars', 'writeNameChar'):
                    a0 = _sc(c['args'][0]) if c['args'] else None
                    if a0 is not None and a0.get('k') == 'Member' and 'EntityString' in a0.get('m', ''):
                        events.append('ENTITY')
                    else:
                        events.append('RAW')
                    return 0
                if n == 'outputNewline':
                    events.append('NEWLINE'); return 0
                return 0
            if n == 'outputNewline':
                events.append('NEWLINE'); return 0
            if n == 'writeNumericCharacterReference':
                events.append('CHARREF'); return 0
            if n.startswith('throwInvalid'):
                events.append('ERROR'); raise _Thrown()
            if n in ('getMemoryManager',):
                return 0
            if n == 'isUTF16HighSurrogate':
                return int(0xD800 <= m.ev(c['args'][0]) <= 0xDBFF)
            if n == 'isUTF16LowSurrogate':
                return int(0xDC00 <= m.ev(c['args'][0]) <= 0xDFFF)
            tgt = c.get('usr')
            if c['k'] == 'MCall' and (o is None or o.get('k') == 'This') and tgt in inst_usrs and depth < 6:
                return run_fn(tgt, [m.ev(x) for x in c['args']], depth + 1)
            return NotImplemented
        m = Machine(env, call_hook=hook)
        return m.call(a['body'])
    start = [u for u in inst_usrs if facts.F[u]['name'].split('::')[-1] == fname]
    if not start:
        raise AnalysisBroken('FormatterToXMLUnicode::%s not instantiated' % fname)
    a = facts.ast(start[0])
    argvals = [args_by_name.get(p['n'], 0) for p in a['params']]
    try:
        run_fn(start[0], argvals, 0)
    except _Thrown:
        pass
    except _U as u:
        raise AnalysisBroken('FormatterToXMLUnicode::%s uses a construct outside the interpreted subset: %s' % (fname, u))
    return events


def r1c_derived(res, facts):
    r = res.rule('C04-R1c', 'escape outcomes derived from the code: FormatterToXMLUnicode::writeDefaultEscape / writeDefaultAttributeEscape / writeNormalizedChar are interpreted '
                 '(with the helpers they call) for every code unit the predicates send to them, and the events they raise must be the ones the XML rules require', floor=300)
    insts = collections.defaultdict(set)
    for k in facts.astidx:
        f = facts.F.get(k)
        if f and f.get('clsq') == 'xalanc_1_12::FormatterToXMLUnicode':
            insts[f['cls']].add(k)
    done = set()
    for cls, usrs in sorted(insts.items()):
        ver = '1_1' if 'XML_VERSION_1_1' in cls else '1_0'
        fam = 'UTF8' if 'XalanUTF8Writer,' in cls else ('UTF16' if 'XalanUTF16Writer,' in cls else 'OTHER')
        if (ver, fam) in done or 'XalanIndentWriter<' in cls:
            continue   # the escape functions do not depend on the indent handler: one instantiation per (version, writer family)
        done.add((ver, fam))
        functor = 'CharFunctor' + ver
        p, tabs = predicates(facts, functor)
        loc = 'src/xalanc/XMLSupport/FormatterToXMLUnicode.hpp'
        for c in range(0x100):
            if p['range'][c]:
                continue
            rc, ra, rm = required(ver, c)
            outs = []
            if p['content'][c]:
                ev = escape_outcome(facts, usrs, 'writeDefaultEscape', {'ch': c}, p)
                outs.append(('content', ev[0] if len(ev) == 1 else '+'.join(ev) or 'NOTHING', rc))
            else:
                outs.append(('content', 'RAW', rc))
            if p['attribute'][c]:
                ev = escape_outcome(facts, usrs, 'writeDefaultAttributeEscape', {'ch': c}, p)
                outs.append(('attribute', ev[0] if len(ev) == 1 else '+'.join(ev) or 'NOTHING', ra))
            else:
                outs.append(('attribute', 'RAW', ra))
            ev = escape_outcome(facts, usrs, 'writeNormalizedChar', {'ch': c, 'start': 0, 'length': 1, 'chars': 0}, p)
            outs.append(('comment/PI', ev[0] if len(ev) == 1 else '+'.join(ev) or 'NOTHING', rm))
            for what, got, allowed in outs:
                site = 'XML %s %s writer: U+%04X in %s' % (ver.replace('_', '.'), fam, c, what)
                if got in allowed:
                    r.ok(site, got)
                else:
                    r.violation(site, 'the serializer code yields %s for U+%04X in %s, the XML rules require %s' % (got, c, what, '/'.join(sorted(allowed))), loc)
    return r


_run_r1_5 = run


def run(res, facts, tier):
    _run_r1_5(res, facts, tier)
    r1c_derived(res, facts)
    from . import c04_cdata
    c04_cdata.run(res, facts, tier)


# ----------------------------------------------------------------------------------------------- R5c: failure policy of the name / PI / comment writers
def _functor_policy(facts, ty):
    """'throw' / 'charref' / None for a failure-handler functor class: what its operator() does with an unrepresentable character"""
    ty = (ty or '').replace('const ', '').strip()
    for a in (facts.asts(ty + '::operator()', must=False) or [])[:2]:
        ns = [c.get('n') or callee(c).split('::')[-1] for c in calls(a['body'])]
        if any(n.startswith('throw') for n in ns) and 'writeNumericCharacterReference' not in ns:
            return 'throw'
        if 'writeNumericCharacterReference' in ns:
            return 'charref'
    return None


def r5c_writer_policy(res, facts):
    r = res.rule('C04-R5c', 'writers that can meet unrepresentable characters (a failure-handler functor is passed to their code-point writer): writeNameChar, writePIChars and '
                 'writeCommentChars hand characters on only with a handler that raises an error — a character reference inside a name, a PI or a comment is not an escape — '
                 'while content paths use the character-reference handler; comment and PI data reach the writer through those entry points', floor=4)
    by_cls = collections.defaultdict(dict)
    for k in facts.astidx:
        f = facts.F.get(k)
        if f and (f.get('clsq') or '').endswith('EncodingWriter') or (f and 'Writer' in (f.get('clsq') or '') and f.get('clsq', '').startswith('xalanc_1_12::Xalan')):
            by_cls[f['cls']].setdefault(f['name'].split('::')[-1], []).append(k)
    n_cls = 0
    for cls, fns in sorted(by_cls.items()):
        # does this writer have a handler-taking code-point writer at all?
        policies = {}

        def policy_of(usr, depth=0, seen=None):
            """set of handler policies the function can apply to the characters it is given"""
            seen = seen if seen is not None else set()
            if usr in seen or depth > 3:
                return set()
            seen.add(usr)
            a = facts.ast(usr)
            out = set()
            if a is None:
                return out
            for c in calls(a['body']):
                if c.get('k') != 'MCall' or not (c.get('n') or '').startswith('write'):
                    continue
                o = strip_casts_(c.get('obj'))
                if o is not None and o.get('k') != 'This':
                    continue
                handler = None
                for x in c.get('args', []):
                    sx = strip_casts_(x)
                    if sx is not None and sx.get('k') in ('Member', 'Ref') and 'Functor' in (sx.get('m') or sx.get('n') or ''):
                        handler = sx
                    elif sx is not None and sx.get('k') in ('Member', 'Ref') and _functor_policy(facts, sx.get('ty')):
                        handler = sx
                if handler is not None:
                    p = _functor_policy(facts, handler.get('ty'))
                    out.add(p or ('unknown:' + (handler.get('ty') or '?')))
                elif c.get('usr') and c['usr'] != usr and facts.F.get(c['usr'], {}).get('cls') == cls:
                    out |= policy_of(c['usr'], depth + 1, seen)
            return out
        has_handlers = False
        for nm, us in fns.items():
            for u in us:
                a = facts.ast(u)
                if a is not None and any('Functor' in pp(x) for c in calls(a['body']) for x in c.get('args', [])):
                    has_handlers = True
        if not has_handlers:
            continue
        n_cls += 1
        fam = short_cls(facts.F[fns[next(iter(fns))][0]]) if False else cls.replace('xalanc_1_12::', '').split('<')[0]
        for nm, want in (('writeNameChar', {'throw'}), ('writePIChars', {'throw'}), ('writeCommentChars', {'throw'})):
            for u in fns.get(nm, [])[:1]:
                got = policy_of(u)
                site = '%s::%s' % (fam, nm)
                if got and got <= want:
                    r.ok(site, 'unrepresentable character -> error')
                elif not got:
                    r.violation(site, 'hands its characters to no handler-taking writer: unrepresentable characters are not detected here', common.file_line(facts.ast(u)))
                else:
                    r.violation(site, 'characters of a %s are written with the %s policy: an unrepresentable character becomes a character reference inside the %s, which is not well-formed, '
                                'and the transformation reports success' % ({'writeNameChar': 'name', 'writePIChars': 'processing instruction', 'writeCommentChars': 'comment'}[nm],
                                                                           '/'.join(sorted(got)), {'writeNameChar': 'name', 'writePIChars': 'PI', 'writeCommentChars': 'comment'}[nm]),
                                common.file_line(facts.ast(u)))
    # the serializer's comment / PI data path ends in the writers' throwing entry points
    seen_cls = set()
    for k in facts.astidx:
        f = facts.F.get(k)
        if not (f and f.get('clsq') == 'xalanc_1_12::FormatterToXMLUnicode' and f['name'].split('::')[-1] == 'writeNormalizedChar'):
            continue
        fam = writer_family(f['cls'].replace('xalanc_1_12::', '').split('FormatterToXMLUnicode<')[-1])
        if fam in seen_cls:
            continue
        seen_cls.add(fam)
        a = facts.ast(k)
        sinks = [c.get('n') for c in calls(a['body']) if c.get('k') == 'MCall' and strip_casts_(c.get('obj')) is not None and strip_casts_(c['obj']).get('m') == 'm_writer']
        site = 'FormatterToXMLUnicode<%s>::writeNormalizedChar (comment and PI data)' % fam
        bad = [x for x in sinks if x not in ('writePIChars', 'writeCommentChars', 'outputNewline')]
        if sinks and not bad:
            r.ok(site, 'characters go to %s' % sorted(set(sinks)))
        else:
            r.violation(site, 'comment / PI data is handed to m_writer.%s, which substitutes character references for unrepresentable characters: the comment or PI parses back to different '
                        'content and no error is reported' % (bad[0] if bad else '?'), common.file_line(a))
    if n_cls == 0:
        raise AnalysisBroken('no writer class with failure-handler functors found (XalanOtherEncodingWriter expected)')
    return r


_run_c04_prev = run


def run(res, facts, tier):
    _run_c04_prev(res, facts, tier)
    r5c_writer_policy(res, facts)


_run_c04_prev_stream = run


def run(res, facts, tier):
    _run_c04_prev_stream(res, facts, tier)
    from . import c04_stream
    c04_stream.run_rule(res, facts, tier)


_run_c04_prev_order = run


def run(res, facts, tier):
    _run_c04_prev_order(res, facts, tier)
    from . import c04_order
    c04_order.run_rule(res, facts, tier)


_run_c04_prev_fixup = run


def run(res, facts, tier):
    _run_c04_prev_fixup(res, facts, tier)
    from . import c04_fixup
    c04_fixup.run_rule(res, facts, tier)


_run_c04_prev_repr = run


def run(res, facts, tier):
    _run_c04_prev_repr(res, facts, tier)
    from . import c04_repr
    c04_repr.run_rule(res, facts, tier)


_run_c04_prev_copyns = run


def run(res, facts, tier):
    _run_c04_prev_copyns(res, facts, tier)
    from . import c01_copyns
    c01_copyns.run_c04_rule(res, facts, tier)


_run_c04_prev_copyattr = run


def run(res, facts, tier):
    _run_c04_prev_copyattr(res, facts, tier)
    from . import c01_copyns
    c01_copyns.run_c04_attr_rule(res, facts, tier)


_run_c04_prev_surrogate = run


def run(res, facts, tier):
    _run_c04_prev_surrogate(res, facts, tier)
    from . import c08_surrogate
    c08_surrogate.run_c04_rule(res, facts, tier)


_run_c04_prev_declenc = run


def run(res, facts, tier):
    _run_c04_prev_declenc(res, facts, tier)
    from . import c04_declenc
    c04_declenc.run_rule(res, facts, tier)


_run_c04_prev_attrset = run


def run(res, facts, tier):
    _run_c04_prev_attrset(res, facts, tier)
    from . import c04_attrset
    c04_attrset.run_rule(res, facts, tier)
    from . import c04_split
    c04_split.run_rule(res, facts, tier)
    c04_split.run_cdata_rule(res, facts, tier)
    from . import c04_f2x
    c04_f2x.run_rule(res, facts, tier)
    from . import c08_transcode
    c08_transcode.run_c04_rule(res, facts, tier)
    from . import c04_pairs
    c04_pairs.run_rule(res, facts, tier)
