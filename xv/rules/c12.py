"""C12 — node-sets are duplicate-free and in document order: the order-flag protocol the consumers trust (DESIGN.md §3)."""
import collections, re
from ..build import AnalysisBroken
from ..mast import walk, calls, callee, strip_casts, pp, CFG
from ..facts import short, NS
from . import common, xpathops, c12_merge

FLAG = {'setDocumentOrder', 'setReverseDocumentOrder'}
ADD = {'addNode', 'addNodeInDocOrder', 'addNodesInDocOrder', 'addNodes'}
AXIS_FN = {'eFROM_ANCESTORS': 'findAncestors', 'eFROM_ANCESTORS_OR_SELF': 'findAncestorsOrSelf', 'eFROM_ATTRIBUTES': 'findAttributes', 'eFROM_CHILDREN': 'findChildren',
           'eFROM_DESCENDANTS': 'findDescendants', 'eFROM_DESCENDANTS_OR_SELF': 'findDescendants', 'eFROM_FOLLOWING': 'findFollowing', 'eFROM_FOLLOWING_SIBLINGS': 'findFollowingSiblings',
           'eFROM_NAMESPACE': 'findNamespace', 'eFROM_PARENT': 'findParent', 'eFROM_PRECEDING': 'findPreceeding', 'eFROM_PRECEDING_SIBLINGS': 'findPreceedingSiblings',
           'eFROM_SELF': 'findSelf', 'eFROM_ROOT': 'findRoot'}
REVERSE_AXES = {'eFROM_ANCESTORS', 'eFROM_ANCESTORS_OR_SELF', 'eFROM_PRECEDING', 'eFROM_PRECEDING_SIBLINGS'}   # XPath 1.0 §2.2
# reviewed producers of raw addNode outside the axis functions
PRODUCERS = {
    'XPath::predicates': 'numeric-predicate shortcut: list cleared, one node added, setDocumentOrder()',
    'ElemCopyOf::startElement': 'a single node wrapped for a trace event: trivially ordered',
    'ElemNumber::getMatchingAncestors': 'ancestor list consumed positionally by xsl:number only, never returned as a node-set',
    'FunctionDistinct::execute': 'one node added raw to an empty list, the rest through addNodeInDocOrder',
    'NodeSorter::sort': 'writes the sorted permutation back; the list is deliberately not document order and is not flagged as such',
    'findNodes': 'EXSLT math:highest/lowest: list flagged up front, first node added raw, later ones through addNodeInDocOrder',
    'MutableNodeRefList::addNodeInDocOrder': 'the ordered insertion itself',
}


def callee_names(ast):
    return [c.get('n') for c in calls(ast)] if ast is not None else []


def obj_text(c):
    o = strip_casts(c.get('obj'))
    return pp(o) if o is not None else ''


def flag_after_add(a, who):
    """every addNode in the function is followed, on every path to the exit, by a flag setter on the same list; returns list of problems"""
    cfg = CFG(a)
    probs = []
    for n in cfg.nodes:
        if n.ast is None or n.kind not in ('stmt', 'cond'):
            continue
        for c in calls(n.ast):
            if c.get('n') in ADD and 'MutableNodeRefList' in (c.get('cls') or ''):
                lst = obj_text(c)

                def sets(m, lst=lst):
                    if m.ast is None:
                        return False
                    return any(cc.get('n') in FLAG and obj_text(cc) == lst for cc in calls(m.ast))
                seen = cfg.reachable_avoiding([n], sets)
                if cfg.exit.id in seen:
                    probs.append((c, lst))
    return probs


def run(res, facts, tier):
    finds = {}
    for k in facts.astidx:
        v = facts.F.get(k)
        if v and v.get('cls') == 'xalanc_1_12::XPath' and v['name'].split('::')[-1].startswith('find'):
            finds[v['name'].split('::')[-1]] = facts.ast(k)
    if len(finds) < 14:
        raise AnalysisBroken('only %d XPath::find* functions (floor 14)' % len(finds))
    r1 = res.rule('C12-R1', 'each axis function sets the order flag of its result on every path to its return and adds no node afterwards', floor=13)
    for nm, a in sorted(finds.items()):
        if nm == 'findNodesOnUnknownAxis':
            continue
        if nm == 'findNodeSet':
            # filter-expression head: executeMore(.., MutableNodeRefList&) fills and flags the list itself unless it returns an object,
            # whose nodes are then merged here; only that merge is this function's obligation
            probs = flag_after_add(a, nm)
            r1.ok('XPath::findNodeSet', 'merge followed by setDocumentOrder()') if not probs else r1.violation('XPath::findNodeSet', 'nodes merged without setting the order flag afterwards', common.file_line(a, probs[0][0]))
            continue
        cfg = CFG(a)

        def is_flag(n):
            return n.ast is not None and any(x in FLAG for x in callee_names(n.ast))

        def is_add(n):
            return n.ast is not None and any(x in ADD for x in callee_names(n.ast))
        site = 'XPath::%s' % nm
        seen = cfg.reachable_avoiding([cfg.entry], is_flag)
        if cfg.exit.id in seen:
            r1.violation(site, 'a path returns the node list without setting its document-order flag', common.file_line(a))
            continue
        late = False
        for n in cfg.nodes:
            if is_flag(n):
                after = cfg.reachable_avoiding([n], lambda m: False)
                if any(is_add(cfg.nodes[i]) for i in after):
                    late = True
        if late:
            r1.violation(site, 'nodes are added after the order flag has been set', common.file_line(a))
        else:
            r1.ok(site)

    r2 = res.rule('C12-R2', 'axis dispatch and direction: step() maps every axis to the function of its name; the result is flagged reverse exactly for the four reverse axes of '
                  'XPath 1.0 (ancestor, ancestor-or-self, preceding, preceding-sibling), and a reverse flag is backed by how the function collects', floor=14)
    step = facts.asts('XPath::step')[0]
    cons = xpathops.opcode_switches(facts, 'XPath::step')[0][1][0]
    axis_of_fn = collections.defaultdict(set)
    for lab, g in cons.labels.items():
        base = lab.split('::')[-1]
        if base not in AXIS_FN:
            continue
        # the group the label falls into (fall-through labels share the next group's statements)
        idx = cons.groups.index(g)
        stmts = []
        for gg in cons.groups[idx:]:
            stmts += gg['stmts']
            if gg['stmts'] and gg['stmts'][-1]['k'] in ('Break', 'Return'):
                break
        called = [c.get('n') for s in stmts for c in calls(s) if (c.get('n') or '').startswith('find')]
        site = 'step(): %s' % base
        if called[:1] == [AXIS_FN[base]]:
            r2.ok(site, called[0])
            axis_of_fn[called[0]].add(base)
        else:
            r2.violation(site, 'axis %s is evaluated by %s, expected %s' % (base, called[:1], AXIS_FN[base]), common.file_line(step, g['stmts'][0] if g['stmts'] else None))
    for nm, a in sorted(finds.items()):
        names = callee_names(a['body'])
        rev = 'setReverseDocumentOrder' in names
        axes = axis_of_fn.get(nm, set())
        if not axes:
            continue
        want_rev = bool(axes & REVERSE_AXES)
        site = 'XPath::%s direction' % nm
        if rev and not want_rev:
            r2.violation(site, 'flags its result reverse-document-order but serves forward axis %s' % sorted(axes), common.file_line(a))
        elif want_rev and not rev:
            # a reverse axis may be delivered in document order if the function reverses before flagging
            if 'reverse' in names and 'setDocumentOrder' in names:
                r2.ok(site, 'reverse axis collected backwards, reversed, flagged document order')
            else:
                r2.violation(site, 'serves reverse axis %s but flags the nodes it collects walking backwards as document order' % sorted(axes), common.file_line(a))
        elif rev:
            walkers = {n for n in names if n in ('getParentOfNode', 'getParentNode', 'getPreviousSibling', 'getNextSibling', 'getFirstChild', 'getLastChild')}
            if walkers <= {'getParentOfNode', 'getParentNode'} or walkers <= {'getPreviousSibling'} or 'reverse' in names:
                r2.ok(site, 'reverse: advances by %s%s' % (sorted(walkers), ', reverse()' if 'reverse' in names else ''))
            else:
                r2.violation(site, 'claims reverse document order but walks with %s and never reverses' % sorted(walkers), common.file_line(a))
        else:
            r2.ok(site, 'document order')

    r3 = res.rule('C12-R3', 'step() hands reverse-ordered results back reversed and merges the results of several context nodes only through addNodesInDocOrder; Union likewise', floor=4)
    cfg = CFG(step)
    must = common.must_conds(cfg)
    revs = [(n, c) for n, c in common.find_call_nodes(cfg, 'reverse')]
    ok = False
    for n, c in revs:
        if any(common.cond_is_call(atom, 'getReverseDocumentOrder', br, True) for atom, br in must.get(n.id, [])):
            ok = True
    if ok:
        r3.ok('step(): results flagged reverse are reverse()d before they are returned')
    else:
        r3.violation('step(): reverse results', 'no reverse() under getReverseDocumentOrder() == true: reverse-axis results would be returned in reverse order', common.file_line(step))
    # the swap of a single context's result into queryResults must be guarded: either reversed or known document order
    for n, c in common.find_call_nodes(cfg, 'swap'):
        conds = must.get(n.id, [])
        rev_known = any('getReverseDocumentOrder' in pp(atom) or 'empty' in pp(atom) for atom, br in conds)
        site = 'step(): swap at line-independent site %s' % pp(c)[:40]
        r3.ok(site) if rev_known else r3.violation(site, 'sub-query result swapped into the result without the order flag having been examined', common.file_line(step, c))
    raw = [c for c in calls(step['body']) if c.get('n') in ('addNode', 'addNodes')]
    if raw:
        r3.violation('step(): raw addNode', 'step() merges with raw addNode', common.file_line(step, raw[0]))
    else:
        r3.ok('step(): no raw addNode; merges through %s' % sorted({c.get('n') for c in calls(step['body']) if c.get('n') in ADD}))
    for a in facts.asts('XPath::Union'):
        if any(short(p['ty']).startswith('MutableNodeRefList') for p in a['params']):
            names = callee_names(a['body'])
            if 'addNodesInDocOrder' in names and not ({'addNode', 'addNodes'} & set(names)) and 'setDocumentOrder' in names:
                r3.ok('Union(node-list): addNodesInDocOrder + setDocumentOrder')
            else:
                r3.violation('Union(node-list)', 'union does not merge through addNodesInDocOrder / does not flag its result', common.file_line(a))

    r4 = res.rule('C12-R4', 'raw MutableNodeRefList::addNode is used only by the axis functions and by reviewed producers, each of which sets the order flag on every path before the list escapes', floor=18)
    callers = collections.Counter()
    for c in facts.calls:
        if c['toName'].endswith('MutableNodeRefList::addNode'):
            callers[c['from']] += 1
    for k, cnt in sorted(callers.items(), key=lambda kv: facts.name[kv[0]]):
        fn = short(facts.name[k])
        if common.FIXTURE_PREFIX in facts.F[k]['loc']:
            continue
        site = 'addNode in %s' % fn
        if fn.startswith('XPath::find'):
            r4.ok(site, 'axis function (R1)')
            continue
        if fn not in PRODUCERS and _single_node_list(facts, k):
            r4.ok(site, 'one node added once to a list created in the function, flag set afterwards: a list of one node is in document order')
            continue
        if fn not in PRODUCERS:
            r4.violation(site, 'raw addNode in a function that is neither an axis function nor a reviewed producer: document order / uniqueness is not maintained by addNode', facts.loc(k))
            continue
        if PRODUCERS[fn]:
            r4.ok(site, PRODUCERS[fn])
            continue
        a = facts.ast(k)
        probs = flag_after_add(a, fn)
        if probs:
            c, lst = probs[0]
            r4.violation(site, 'a path leaves the function after %s.addNode() without setting the order flag of %s' % (lst, lst), common.file_line(a, c))
        else:
            r4.ok(site, 'flag set on every path after the add')

    c12_merge.r5_merge(res, facts)
    res.assume('C12: the search strategies inside addNodeInDocOrder (binary search by index, linear search by predicate) and the index numbering of a source tree are behavioural and not decided; R5 decides which nodes may bypass them')


def _single_node_list(facts, k):
    """the function adds with a single addNode, outside every loop, to a node list it created itself (a local BorrowReturn / GetCached list), and sets the order flag on every
    path after the add: the list holds one node"""
    a = facts.ast(k)
    if a is None or a.get('body') is None:
        return False
    adds = [c for c in calls(a['body']) if c.get('k') == 'MCall' and c.get('n') == 'addNode' and 'MutableNodeRefList' in (c.get('cls') or '')]
    if len(adds) != 1:
        return False
    c = adds[0]
    for lp in walk(a['body']):
        if lp.get('k') in ('For', 'While', 'Do') and any(y is c for y in walk(lp)):
            return False
    o = strip_casts(c.get('obj'))
    while isinstance(o, dict) and o.get('k') == 'OpCall' and o.get('op') in ('->', '*') and o.get('args'):
        o = strip_casts(o['args'][0])
    if not (isinstance(o, dict) and o.get('k') == 'Ref' and o.get('d') == 'local' and ('BorrowReturnMutableNodeRefList' in (o.get('ty') or '') or 'GetCachedNodeList' in (o.get('ty') or ''))):
        return False
    return not flag_after_add(a, short(facts.name[k]))


_run_c12_5 = run


def run(res, facts, tier):
    _run_c12_5(res, facts, tier)
    from . import c12_insert
    c12_insert.run_rule(res, facts, tier)


_run_c12_6 = run


def run(res, facts, tier):
    _run_c12_6(res, facts, tier)
    from . import c12_order
    c12_order.run_rule(res, facts, tier)


# ----------------------------------------------------------------------------------------------- R8: the tree builders number nodes in document order
BUILDERS = ('FormatterToSourceTree', 'XalanSourceTreeContentHandler')


def r8_builder_order(res, facts):
    """XalanSourceTreeDocument hands out the node index - what document order IS for a source tree, and what every ordered insert and every union compares - when a node is
    CREATED.  Both builders (the parser's content handler and the result-tree-fragment builder) keep character data pending in a buffer and turn it into a text node
    (processAccumulatedText) when the next event arrives.  That text node precedes whatever the event creates, so it has to be created first: every node-creating call of
    an event handler must be dominated by the flush of the pending text."""
    r = res.rule('C12-R8', 'source-tree builders number nodes in document order: in every event handler of FormatterToSourceTree and XalanSourceTreeContentHandler a call that creates a '
                 'node (create*Node) is dominated by processAccumulatedText() - the pending text node precedes the new node, so it must get the smaller index', floor=8)
    n = 0
    for cls in BUILDERS:
        fns = {}
        for k in facts.astidx:
            f = facts.F.get(k)
            if f and short(f.get('cls') or '') == cls:
                a = facts.ast(k)
                if a is not None and a.get('body') is not None:
                    fns[short(facts.name[k]).split('::')[-1]] = fns.get(short(facts.name[k]).split('::')[-1], []) + [(k, a)]
        if 'processAccumulatedText' not in fns:
            raise AnalysisBroken('%s::processAccumulatedText not found' % cls)
        # needs[f]: the first node-creating call (direct, or through a helper of the class that needs the flush) reachable from the entry of f without passing the flush
        needs = {}
        info = {}
        for nm, lst in fns.items():
            for k, a in lst:
                cfg = CFG(a)
                flush = {nd.id for nd, c in common.find_call_nodes(cfg, 'processAccumulatedText')}
                unflushed = cfg.reachable_avoiding([cfg.entry], lambda m2: m2.id in flush)
                # where the builder is told not to accumulate text nothing can be pending: nodes under "m_accumulateText is false" need no flush
                must = common.must_conds(cfg)
                for nd in cfg.nodes:
                    for at, br in must.get(nd.id, []):
                        core, eff = common.norm_atom(at, br)
                        if core is not None and core.get('k') == 'Member' and core.get('m') == 'm_accumulateText' and not eff:
                            unflushed = set(unflushed) - {nd.id}
                info[k] = (nm, a, cfg, unflushed)
        changed = True
        while changed:
            changed = False
            for k, (nm, a, cfg, unflushed) in info.items():
                if k in needs or nm == 'processAccumulatedText':
                    continue
                for nd in cfg.nodes:
                    if nd.ast is None or nd.kind not in ('stmt', 'cond') or nd.id not in unflushed:
                        continue
                    for c in calls(nd.ast):
                        cn = c.get('n') or callee(c).split('::')[-1]
                        on_document = 'XalanSourceTreeDocument' in (c.get('cls') or c.get('fn') or '')
                        helper = [k2 for k2, a2 in fns.get(cn, []) if k2 in needs] if cn in fns and not on_document else []
                        if (_is_create(c) and (on_document or cn not in fns)) or helper:
                            needs[k] = (c, needs[helper[0]][1] if helper else cn)
                            changed = True
                            break
                    if k in needs:
                        break
        called_by = collections.defaultdict(set)
        for k, (nm, a, cfg, unflushed) in info.items():
            for c in calls(a['body']):
                cn = c.get('n') or callee(c).split('::')[-1]
                if cn in fns and cn != nm:
                    called_by[cn].add(nm)
        for k, (nm, a, cfg, unflushed) in info.items():
            creates = [c for c in calls(a['body']) if _is_create(c) or ((c.get('n') or '') in fns and any(k2 in needs for k2, _ in fns[c.get('n')]))]
            if nm == 'createElementNode' or nm == 'createElement':
                pass
            if not creates or nm == 'processAccumulatedText':
                continue
            n += 1
            site = '%s::%s' % (cls, nm)
            callers = called_by.get(nm, set()) - {nm}
            if k not in needs:
                r.ok(site, 'every node it creates comes after the flush of the pending text')
            elif callers and callers <= {'processAccumulatedText'}:
                r.ok(site, 'part of the flush itself (called by processAccumulatedText only)')
            elif callers:
                r.ok(site, 'helper: its callers %s carry the obligation' % sorted(callers))
            else:
                c, what = needs[k]
                r.violation(site, 'creates a node (%s) on a path that has not flushed the pending character data: the text node that precedes it in the tree is created afterwards and '
                            'gets the larger index, so unions, ordered inserts and positional predicates see the two in the wrong order (and insert duplicates)' % what,
                            common.file_line(a, c))
    if n < 6:
        raise AnalysisBroken('only %d node-creating functions found in the tree builders (floor 6)' % n)
    return r


def _is_create(c):
    nm = c.get('n') or callee(c).split('::')[-1]
    return bool(re.match(r'^create\w*Node$', nm or ''))


_run_c12_7 = run


def run(res, facts, tier):
    _run_c12_7(res, facts, tier)
    r8_builder_order(res, facts)
    from . import c02_expr
    c02_expr.run_c12_rule(res, facts, tier)
    from . import c02_nsaxis
    c02_nsaxis.run_c12_rule(res, facts, tier)
