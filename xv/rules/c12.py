"""C12 — node-sets are duplicate-free and in document order: the order-flag protocol the consumers trust (DESIGN.md §3)."""
import collections, re
from ..build import AnalysisBroken
from ..mast import walk, calls, callee, strip_casts, pp, CFG
from ..facts import short, NS
from . import common, xpathops, c12_merge

FLAG = {'setDocumentOrder', 'setReverseDocumentOrder'}
ADD = {'addNode', 'addNodeInDocOrder', 'addNodesInDocOrder', 'addNodes'}
AXIS_FN = {'eFROM_ANCESTORS': 'findAncestors', 'eFROM_ANCESTORS_OR_SELF': 'findAncestorsOrSelf', 'eFROM_ATTRIBUTES': 'findAttributes', 'eFROM_CHILDREN': 'findChildren',
           'eFROM_DESCENDANTS': 'findDescendants', 'eFROM_DESCENDANTS_OR_SELF': 'findDescendants', 'eFROM_FOLLOWING': 'findFollowing', 'eFROM_FOLLOWING_SIBLINGS': 'findFollowingSiblings',
           'eFROM_NAMESPACE': 'findNamespace', 'eFROM_PARENT': 'findParent', 'eFROM_PRECEDING': 'findPreceeding', 'eFROM_PRECEDING_SIBLINGS': 'findPreceedingSiblings',
           'eFROM_SELF': 'findSelf', 'eFROM_ROOT': 'findRoot'}
REVERSE_AXES = {'eFROM_ANCESTORS', 'eFROM_ANCESTORS_OR_SELF', 'eFROM_PRECEDING', 'eFROM_PRECEDING_SIBLINGS'}   # XPath 1.0 §2.2
# reviewed producers of raw addNode outside the axis functions
PRODUCERS = {
    'XPath::predicates': 'numeric-predicate shortcut: list cleared, one node added, setDocumentOrder()',
    'ElemCopyOf::startElement': 'a single node wrapped for a trace event: trivially ordered',
    'ElemNumber::getMatchingAncestors': 'ancestor list consumed positionally by xsl:number only, never returned as a node-set',
    'FunctionDistinct::execute': 'one node added raw to an empty list, the rest through addNodeInDocOrder',
    'NodeSorter::sort': 'writes the sorted permutation back; the list is deliberately not document order and is not flagged as such',
    'findNodes': 'EXSLT math:highest/lowest: list flagged up front, first node added raw, later ones through addNodeInDocOrder',
    'MutableNodeRefList::addNodeInDocOrder': 'the ordered insertion itself',
}


def callee_names(ast):
    return [c.get('n') for c in calls(ast)] if ast is not None else []


def obj_text(c):
    o = strip_casts(c.get('obj'))
    return pp(o) if o is not None else ''


def flag_after_add(a, who):
    """every addNode in the function is followed, on every path to the exit, by a flag setter on the same list; returns list of problems"""
    cfg = CFG(a)
    probs = []
    for n in cfg.nodes:
        if n.ast is None or n.kind not in ('stmt', 'cond'):
            continue
        for c in calls(n.ast):
            if c.get('n') in ADD and 'MutableNodeRefList' in (c.get('cls') or ''):
                lst = obj_text(c)

                def sets(m, lst=lst):
                    if m.ast is None:
                        return False
                    return any(cc.get('n') in FLAG and obj_text(cc) == lst for cc in calls(m.ast))
                seen = cfg.reachable_avoiding([n], sets)
                if cfg.exit.id in seen:
                    probs.append((c, lst))
    return probs


def run(res, facts, tier):
    finds = {}
    for k in facts.astidx:
        v = facts.F.get(k)
        if v and v.get('cls') == 'xalanc_1_12::XPath' and v['name'].split('::')[-1].startswith('find'):
            finds[v['name'].split('::')[-1]] = facts.ast(k)
    if len(finds) < 14:
        raise AnalysisBroken('only %d XPath::find* functions (floor 14)' % len(finds))
    r1 = res.rule('C12-R1', 'each axis function sets the order flag of its result on every path to its return and adds no node afterwards', floor=13)
    for nm, a in sorted(finds.items()):
        if nm == 'findNodesOnUnknownAxis':
            continue
        if nm == 'findNodeSet':
            # filter-expression head: executeMore(.., MutableNodeRefList&) fills and flags the list itself unless it returns an object,
            # whose nodes are then merged here; only that merge is this function's obligation
            probs = flag_after_add(a, nm)
            r1.ok('XPath::findNodeSet', 'merge followed by setDocumentOrder()') if not probs else r1.violation('XPath::findNodeSet', 'nodes merged without setting the order flag afterwards', common.file_line(a, probs[0][0]))
            continue
        cfg = CFG(a)

        def is_flag(n):
            return n.ast is not None and any(x in FLAG for x in callee_names(n.ast))

        def is_add(n):
            return n.ast is not None and any(x in ADD for x in callee_names(n.ast))
        site = 'XPath::%s' % nm
        seen = cfg.reachable_avoiding([cfg.entry], is_flag)
        if cfg.exit.id in seen:
            r1.violation(site, 'a path returns the node list without setting its document-order flag', common.file_line(a))
            continue
        late = False
        for n in cfg.nodes:
            if is_flag(n):
                after = cfg.reachable_avoiding([n], lambda m: False)
                if any(is_add(cfg.nodes[i]) for i in after):
                    late = True
        if late:
            r1.violation(site, 'nodes are added after the order flag has been set', common.file_line(a))
        else:
            r1.ok(site)

    r2 = res.rule('C12-R2', 'axis dispatch and direction: step() maps every axis to the function of its name; the result is flagged reverse exactly for the four reverse axes of '
                  'XPath 1.0 (ancestor, ancestor-or-self, preceding, preceding-sibling), and a reverse flag is backed by how the function collects', floor=14)
    step = facts.asts('XPath::step')[0]
    cons = xpathops.opcode_switches(facts, 'XPath::step')[0][1][0]
    axis_of_fn = collections.defaultdict(set)
    for lab, g in cons.labels.items():
        base = lab.split('::')[-1]
        if base not in AXIS_FN:
            continue
        # the group the label falls into (fall-through labels share the next group's statements)
        idx = cons.groups.index(g)
        stmts = []
        for gg in cons.groups[idx:]:
            stmts += gg['stmts']
            if gg['stmts'] and gg['stmts'][-1]['k'] in ('Break', 'Return'):
                break
        called = [c.get('n') for s in stmts for c in calls(s) if (c.get('n') or '').startswith('find')]
        site = 'step(): %s' % base
        if called[:1] == [AXIS_FN[base]]:
            r2.ok(site, called[0])
            axis_of_fn[called[0]].add(base)
        else:
            r2.violation(site, 'axis %s is evaluated by %s, expected %s' % (base, called[:1], AXIS_FN[base]), common.file_line(step, g['stmts'][0] if g['stmts'] else None))
    for nm, a in sorted(finds.items()):
        names = callee_names(a['body'])
        rev = 'setReverseDocumentOrder' in names
        axes = axis_of_fn.get(nm, set())
        if not axes:
            continue
        want_rev = bool(axes & REVERSE_AXES)
        site = 'XPath::%s direction' % nm
        if rev and not want_rev:
            r2.violation(site, 'flags its result reverse-document-order but serves forward axis %s' % sorted(axes), common.file_line(a))
        elif want_rev and not rev:
            # a reverse axis may be delivered in document order if the function reverses before flagging
            if 'reverse' in names and 'setDocumentOrder' in names:
                r2.ok(site, 'reverse axis collected backwards, reversed, flagged document order')
            else:
                r2.violation(site, 'serves reverse axis %s but flags the nodes it collects walking backwards as document order' % sorted(axes), common.file_line(a))
        elif rev:
            walkers = {n for n in names if n in ('getParentOfNode', 'getParentNode', 'getPreviousSibling', 'getNextSibling', 'getFirstChild', 'getLastChild')}
            if walkers <= {'getParentOfNode', 'getParentNode'} or walkers <= {'getPreviousSibling'} or 'reverse' in names:
                r2.ok(site, 'reverse: advances by %s%s' % (sorted(walkers), ', reverse()' if 'reverse' in names else ''))
            else:
                r2.violation(site, 'claims reverse document order but walks with %s and never reverses' % sorted(walkers), common.file_line(a))
        else:
            r2.ok(site, 'document order')

    r3 = res.rule('C12-R3', 'step() hands reverse-ordered results back reversed and merges the results of several context nodes only through addNodesInDocOrder; Union likewise', floor=4)
    cfg = CFG(step)
    must = common.must_conds(cfg)
    revs = [(n, c) for n, c in common.find_call_nodes(cfg, 'reverse')]
    ok = False
    for n, c in revs:
        if any(common.cond_is_call(atom, 'getReverseDocumentOrder', br, True) for atom, br in must.get(n.id, [])):
            ok = True
    if ok:
        r3.ok('step(): results flagged reverse are reverse()d before they are returned')
    else:
        r3.violation('step(): reverse results', 'no reverse() under getReverseDocumentOrder() == true: reverse-axis results would be returned in reverse order', common.file_line(step))
    # the swap of a single context's result into queryResults must be guarded: either reversed or known document order
    for n, c in common.find_call_nodes(cfg, 'swap'):
        conds = must.get(n.id, [])
        rev_known = any('getReverseDocumentOrder' in pp(atom) or 'empty' in pp(atom) for atom, br in conds)
        site = 'step(): swap at line-independent site %s' % pp(c)[:40]
        r3.ok(site) if rev_known else r3.violation(site, 'sub-query result swapped into the result without the order flag having been examined', common.file_line(step, c))
    raw = [c for c in calls(step['body']) if c.get('n') in ('addNode', 'addNodes')]
    if raw:
        r3.violation('step(): raw addNode', 'step() merges with raw addNode', common.file_line(step, raw[0]))
    else:
        r3.ok('step(): no raw addNode; merges through %s' % sorted({c.get('n') for c in calls(step['body']) if c.get('n') in ADD}))
    for a in facts.asts('XPath::Union'):
        if any(short(p['ty']).startswith('MutableNodeRefList') for p in a['params']):
            names = callee_names(a['body'])
            if 'addNodesInDocOrder' in names and not ({'addNode', 'addNodes'} & set(names)) and 'setDocumentOrder' in names:
                r3.ok('Union(node-list): addNodesInDocOrder + setDocumentOrder')
            else:
                r3.violation('Union(node-list)', 'union does not merge through addNodesInDocOrder / does not flag its result', common.file_line(a))

    r4 = res.rule('C12-R4', 'raw MutableNodeRefList::addNode is used only by the axis functions and by reviewed producers, each of which sets the order flag on every path before the list escapes', floor=18)
    callers = collections.Counter()
    for c in facts.calls:
        if c['toName'].endswith('MutableNodeRefList::addNode'):
            callers[c['from']] += 1
    for k, cnt in sorted(callers.items(), key=lambda kv: facts.name[kv[0]]):
        fn = short(facts.name[k])
        if common.FIXTURE_PREFIX in facts.F[k]['loc']:
            continue
        site = 'addNode in %s' % fn
        if fn.startswith('XPath::find'):
            r4.ok(site, 'axis function (R1)')
            continue
        if fn not in PRODUCERS:
            r4.violation(site, 'raw addNode in a function that is neither an axis function nor a reviewed producer: document order / uniqueness is not maintained by addNode', facts.loc(k))
            continue
        if PRODUCERS[fn]:
            r4.ok(site, PRODUCERS[fn])
            continue
        a = facts.ast(k)
        probs = flag_after_add(a, fn)
        if probs:
            c, lst = probs[0]
            r4.violation(site, 'a path leaves the function after %s.addNode() without setting the order flag of %s' % (lst, lst), common.file_line(a, c))
        else:
            r4.ok(site, 'flag set on every path after the add')

    c12_merge.r5_merge(res, facts)
    res.assume('C12: the search strategies inside addNodeInDocOrder (binary search by index, linear search by predicate) and the index numbering of a source tree are behavioural and not decided; R5 decides which nodes may bypass them')


_run_c12_5 = run


def run(res, facts, tier):
    _run_c12_5(res, facts, tier)
    from . import c12_insert
    c12_insert.run_rule(res, facts, tier)


_run_c12_6 = run


def run(res, facts, tier):
    _run_c12_6(res, facts, tier)
    from . import c12_order
    c12_order.run_rule(res, facts, tier)
