"""C13 — whitespace stripping: every path on which a source text node is observed asks shouldStripSourceNode (DESIGN.md §3)."""
import collections, re
from ..build import AnalysisBroken
from ..mast import walk, calls, callee, strip_casts, pp, CFG
from ..facts import short, NS
from . import common

AGGREGATE = ('XalanNode', 'XalanElement', 'XalanDocument', 'XalanDocumentFragment', 'XalanText')
# callers of the strip-unaware overloads outside DOMServices, one reason each
UNAWARE_CALLERS_OK = {
    'XResultTreeFrag::str': 'string value of a result tree fragment (built by the stylesheet, never stripped)',
    'XResultTreeFrag::stringLength': 'string value of a result tree fragment',
    'XNodeSetBase::str': 'context-less XObject::str() overloads: no execution context exists to ask; the context-taking overloads are what the interpreter uses',
    'XNodeSetBase::stringLength': 'context-less overload, as XNodeSetBase::str',
    'XObject::string': 'context-less static conversions (same contract as XNodeSetBase::str)',
    'TraceListenerDefault::processNodeList': 'diagnostic trace output',
}
WALK = {'getFirstChild', 'getNextSibling', 'getLastChild', 'getPreviousSibling', 'getChildNodes'}
# child/sibling walkers that neither decide through NodeTester / patterns nor feed a strip-aware sink, one reason each
WALKERS_OK = {
    'DOMServices::isNodeAfterSibling': 'document-order comparison: compares positions, observes no text',
    'TreeWalker::traverse': 'generic DOM walker used on stylesheet DOMs and by FormatterTreeWalker on result trees',
    'TreeWalker::traverseSubtree': 'generic DOM walker, as TreeWalker::traverse',
    'getKeyNode': 'StylesheetRoot key lookup helper: climbs to the owner document, inspects no text',
    'TracerEvent::printNode': 'diagnostic trace output',
    'getSingleTextChildValue': 'inspects a result tree fragment',
    'XSLTEngineImpl::process': 'searches the prolog for an xml-stylesheet processing instruction: inspects PIs only',
    'XSLTEngineImpl::outputResultTreeFragment': 'walks a result tree fragment, never stripped',
    'XSLTEngineImpl::outputToResultTree': 'copies XObject values; node-sets go through cloneToResultTree',
}
DOM_IMPL = re.compile(r'/(XalanSourceTree|XercesParserLiaison|XalanDOM|Harness|XalanTransformer|XMLSupport|PlatformSupport)/')


def has_ctx_param(f):
    return any('ExecutionContext' in p for p in f.get('params', []))


def reach_unguarded(cfg, targets, discharges):
    """node ids among `targets` reachable from the entry along a path on which no discharging branch was taken.
    discharges(cond node) -> None | True | False : the branch (True/False) of this atomic condition that establishes the guard"""
    seen = set(); st = [cfg.entry]
    hit = set()
    tset = {t.id for t in targets}
    while st:
        n = st.pop()
        if n.id in seen:
            continue
        seen.add(n.id)
        if n.id in tset:
            hit.add(n.id)
        if n.kind == 'cond':
            d = discharges(n)
            for s, br in ((n.cond_true, True), (n.cond_false, False)):
                if s is None:
                    continue
                if d is not None and br == d:
                    continue   # guard established on this edge
                st.append(s)
            continue
        st.extend(n.succ)
    return hit


def strip_guard(extra=None):
    """discharge function: shouldStripSourceNode(..) == false (false branch of the call), plus optional extra atoms {text: branch}"""
    def d(n):
        core, eff_true = common.norm_atom(n.ast, True)
        if core is None:
            return None
        if core.get('k') in ('Call', 'MCall') and core.get('n') == 'shouldStripSourceNode':
            # eff_true = truth value of the call when the atom is true
            return (not eff_true)   # branch of the atom on which the call is false
        if extra:
            for pred, br in extra:
                if pred(core):
                    # atom true means the described condition true (modulo eff)
                    return br if eff_true else (not br)
        return None
    return d


def _not_text_node(a):
    """<the node-type parameter> != TEXT_NODE, whatever the parameter is called"""
    pids = {p['id'] for p in a['params'] if 'NodeType' in (p.get('ty') or '')}

    def pred(core):
        if core.get('k') != 'Bin' or core.get('op') != '!=':
            return False
        l, r2 = strip_casts(core['lhs']), strip_casts(core['rhs'])
        for v, c in ((l, r2), (r2, l)):
            if v is not None and v.get('k') == 'Ref' and v.get('id') in pids and c is not None and pp(c).endswith('TEXT_NODE'):
                return True
        return False
    return pred


def _bool_param(a):
    """a bool parameter of the function tested on its own (cloneToResultTree's override flag)"""
    pids = {p['id'] for p in a['params'] if (p.get('ty') or '').replace('const', '').strip() == 'bool'}

    def pred(core):
        return core.get('k') == 'Ref' and core.get('id') in pids
    return pred


def r1_unaware(res, facts):
    r = res.rule('C13-R1', 'the strip-unaware DOMServices::getNodeData overloads for node kinds that aggregate text are called only from DOMServices\' own context-taking '
                 'overloads on the "no strip-space declared" branch, from each other, and from reviewed context-less conversions', floor=20)
    unaware = [k for k, v in facts.F.items() if v['name'] == NS + 'DOMServices::getNodeData' and not has_ctx_param(v)
               and any(short(v['params'][0]).startswith('const ' + a) for a in AGGREGATE)]
    if len(unaware) < 8:
        raise AnalysisBroken('only %d strip-unaware aggregate getNodeData overloads found (floor 8)' % len(unaware))
    helpers_unaware = [k for k, v in facts.F.items() if v['name'] in (NS + 'getChildData', NS + 'getChildrenData') and not has_ctx_param(v)]
    targets = set(unaware) | set(helpers_unaware)
    by_caller = collections.defaultdict(list)
    for c in facts.calls:
        if c['to'] in targets:
            by_caller[c['from']].append(c)
    for fr, cs in sorted(by_caller.items(), key=lambda kv: facts.sig(kv[0])):
        f = facts.F.get(fr, {})
        nm = short(f.get('name', '?'))
        site = '%s calls strip-unaware getNodeData' % short(facts.sig(fr))
        if fr in targets:
            r.ok(site, 'strip-unaware family calling itself')
            continue
        if nm in ('DOMServices::getNodeData',) and has_ctx_param(f):
            a = facts.ast(fr)
            cfg = CFG(a)
            must = common.must_conds(cfg)
            bad = None
            for n in cfg.nodes:
                if n.ast is None:
                    continue
                for c in calls(n.ast):
                    if c.get('usr') in targets:
                        if not any(common.cond_is_call(atom, 'hasPreserveOrStripSpaceConditions', br, False) for atom, br in must.get(n.id, [])):
                            bad = c
            if bad is None:
                r.ok(site, 'only where hasPreserveOrStripSpaceConditions() is false')
            else:
                r.violation(site, 'falls back to the strip-unaware overload without having established that no strip-space declaration exists', common.file_line(a, bad))
            continue
        if nm in UNAWARE_CALLERS_OK:
            r.ok(site, UNAWARE_CALLERS_OK[nm])
            continue
        r.violation(site, 'observes the string value of a source node through an overload that never asks shouldStripSourceNode', cs[0]['loc'].replace('/repo/', ''))
    # the context-taking family must not fall back to the unaware family for aggregate kinds
    aware = [k for k, v in facts.F.items() if v['name'] in (NS + 'DOMServices::doGetNodeData', NS + 'getChildData', NS + 'getChildrenData') and has_ctx_param(v)]
    for k in aware:
        for c in facts.calls:
            if c['from'] == k and c['to'] in targets:
                r.violation('%s -> strip-unaware' % short(facts.sig(k)), 'strip-aware traversal hands a child to a strip-unaware overload', c['loc'].replace('/repo/', ''))
        r.ok('%s stays strip-aware' % short(facts.sig(k)))
    return r


def r2_sinks(res, facts):
    r = res.rule('C13-R2', 'text sinks: a source text node is matched / appended / emitted only on paths where shouldStripSourceNode(node) == false (or an explicit override) was established', floor=6)
    specs = []
    for a in facts.asts('XPath::NodeTester::testText'):
        specs.append((a, 'return-match', None))
    for a in facts.asts('XPath::NodeTester::testNode'):
        specs.append((a, 'return-match', [(_not_text_node(a), True)]))
    for a in facts.asts('DOMServices::doGetNodeData'):
        if a['params'] and short(a['params'][0]['ty']).startswith('const XalanText'):
            specs.append((a, 'deliver', None))
    for a in facts.asts('XSLTEngineImpl::cloneToResultTree'):
        if a['params'] and short(a['params'][0]['ty']).startswith('const XalanText'):
            specs.append((a, 'deliver', [(_bool_param(a), True)]))
    if len(specs) < 5:
        raise AnalysisBroken('only %d text sinks found (floor 5)' % len(specs))
    for a, kind, extra in specs:
        cfg = CFG(a)
        targets = []
        for n in cfg.nodes:
            if n.ast is None or n.kind != 'stmt':
                continue
            if kind == 'return-match' and n.ast.get('k') == 'Return':
                e = strip_casts(n.ast.get('e'))
                if e is not None and e.get('k') == 'Ref' and e.get('d') == 'enum' and e.get('n') != 'eMatchScoreNone':
                    targets.append(n)
            if kind == 'deliver' and any(c.get('n') in ('append', 'characters', 'charactersRaw', 'sendData', 'getData') or c.get('fn') == '<memptr>' for c in calls(n.ast)):
                targets.append(n)
        site = short(facts.sig(a['usr'])) if a['usr'] in facts.F else short(a['fq'])
        if not targets:
            r.violation(site, 'sink no longer delivers anything recognisable', common.file_line(a)); continue
        hit = reach_unguarded(cfg, targets, strip_guard(extra))
        if hit:
            bad = [t for t in targets if t.id in hit][0]
            r.violation(site, 'a text node can be %s on a path that never established shouldStripSourceNode(..) == false' % ('matched' if kind == 'return-match' else 'delivered'), common.file_line(a, bad.ast))
        else:
            r.ok(site, '%d delivery point(s) guarded' % len(targets))
    # any other NodeTester test function that can match a TEXT_NODE must ask too
    for k in facts.astidx:
        f = facts.F.get(k)
        if not f or f.get('cls') != 'xalanc_1_12::XPath::NodeTester' or not f['name'].split('::')[-1].startswith('test'):
            continue
        nm = f['name'].split('::')[-1]
        if nm in ('testText', 'testNode'):
            continue
        a = facts.ast(k)
        txt = str(a['body'])
        mentions_text = 'TEXT_NODE' in txt
        # tests keyed on another node type cannot match a text node
        keyed = re.search(r'(COMMENT_NODE|PROCESSING_INSTRUCTION_NODE|ELEMENT_NODE|ATTRIBUTE_NODE|DOCUMENT_NODE|DOCUMENT_FRAGMENT_NODE)', txt)
        site = 'NodeTester::%s' % nm
        if mentions_text:
            r.violation(site, 'test function refers to TEXT_NODE but is not a registered text sink', common.file_line(a))
        elif keyed or nm in ('testDefault', 'testDefault2'):
            r.ok(site, 'cannot match a text node')
        else:
            r.ok(site, 'name test: applies to element / attribute / namespace nodes')
    return r


def r3_walkers(res, facts):
    r = res.rule('C13-R3', 'every function of the XSLT/XPath layers that walks children or siblings of a node decides through NodeTester / pattern matching, '
                 'feeds a strip-aware sink, or is a reviewed walker of result trees / stylesheet DOMs / non-text data', floor=25)
    w = collections.defaultdict(set)
    for c in facts.calls:
        n = c['toName'].split('::')[-1]
        if n in WALK and 'Xalan' in c['toName']:
            fr = facts.F.get(c['from'])
            if not fr or DOM_IMPL.search(fr['loc']) or common.FIXTURE_PREFIX in fr['loc']:
                continue
            w[c['from']].add(n)
    for k in sorted(w, key=lambda k: facts.sig(k)):
        a = facts.ast(k)
        nm = short(facts.name[k])
        site = 'walker %s' % short(facts.sig(k))
        if a is None:
            continue
        cs = {c.get('n') for c in calls(a['body'])}
        ctor = {short(c.get('cls', '')) for c in calls(a['body']) if c['k'] == 'Ctor'}
        f = facts.F[k]
        if 'XPath::NodeTester' in ctor or cs & {'getMatchScore', 'matchPattern'}:
            r.ok(site, 'decides through NodeTester / pattern matching')
        elif nm in ('DOMServices::doGetNodeData', 'getChildData', 'getChildrenData') and has_ctx_param(f):
            r.ok(site, 'strip-aware string-value traversal (R1, R2)')
        elif nm in ('DOMServices::getNodeData', 'getChildData', 'getChildrenData') and not has_ctx_param(f):
            r.ok(site, 'strip-unaware family: who may call it is R1')
        elif cs & {'cloneToResultTree'} and nm.startswith('XSLTEngineImpl::cloneToResultTree'):
            r.ok(site, 'hands every child to cloneToResultTree (text sink of R2)')
        elif nm in WALKERS_OK:
            r.ok(site, WALKERS_OK[nm])
        else:
            r.violation(site, 'walks %s of a node and can observe text nodes without NodeTester or a strip-aware sink' % sorted(w[k]), facts.loc(k))
    return r


def run(res, facts, tier):
    r1_unaware(res, facts)
    r2_sinks(res, facts)
    r3_walkers(res, facts)
    res.assume('C13: that the whitespace tester list selects the right nodes, and equality of the output with the pre-stripped document, are behavioural and not decided')


# ----------------------------------------------------------------------------------------------- R4: order of the strip / preserve declarations
def r4_declaration_order(res, facts):
    """internalShouldStripSourceNode takes the first declaration that matches.  XSLT 1.0 §3.4: import precedence decides first, then the
    default priority of the name test, then the later declaration.  So one stylesheet's own declarations are kept sorted by match score
    (later first among equals) and the declarations of its imports are APPENDED, in the order of m_imports (highest precedence first)."""
    import itertools
    from .c10_lists import VecMachine, Vec, Pat
    from ..mast import Unsupported
    r = res.rule('C13-R4', 'xsl:strip-space / xsl:preserve-space declarations: addWhitespaceElement (interpreted on every vector of up to 3 declarations over 3 match scores) keeps one '
                 'stylesheet\'s declarations sorted by match score, later first among equals; postConstruction only appends the declarations of the imports, in import order; the '
                 'lookup takes the first match', floor=100)
    a = facts.asts('Stylesheet::addWhitespaceElement')[0]
    SCORES = (1, 2, 3)
    n = 0
    bad = 0
    for ln in range(0, 4):
        for sc in itertools.product(SCORES, repeat=ln):
            # an existing vector as addWhitespaceElement would have built it: insertion order = position
            items = []
            for pos, s in enumerate(sc):
                items.append(Pat(s, pos))
            items.sort(key=lambda p: (-p.prio, -p.pos))
            for ns in SCORES:
                n += 1
                new = Pat(ns, ln)
                vec = Vec(list(items))
                m = VecMachine(facts, {a['params'][0]['id']: new, '.m_whitespaceElements': vec})
                m.fuel = 2000
                try:
                    m.call(a['body'])
                except Unsupported as u:
                    raise AnalysisBroken('addWhitespaceElement outside the interpreted subset: %s' % u)
                want = sorted(items + [new], key=lambda p: (-p.prio, -p.pos))
                site = 'addWhitespaceElement(%s, %s)' % (items, new)
                if [id(x) for x in vec.items] == [id(x) for x in want]:
                    r.ok(site)
                else:
                    bad += 1
                    if bad == 1:
                        r.violation(site, 'leaves %s, required %s (higher match score first, the later declaration first among equals)' % (vec.items, want), common.file_line(a))
                    else:
                        r.instances += 1
    # postConstruction: imported declarations are appended, in import order (interpreted: the machinery of C01-R17)
    from . import c01_keys
    for site, fn, out in c01_keys.outcomes(facts):
        site = 'postConstruction: strip / preserve declarations ' + site
        if out[0] == 'fault':
            r.violation('postConstruction: imported declarations', '%s: %s' % (site, out[1]), common.file_line(fn)); continue
        gotws, all_ws = out[3], out[4]
        if list(map(str, gotws)) == list(map(str, all_ws)):
            r.ok(site, 'own declarations first, then those of the imports from the highest precedence down')
        else:
            r.violation('postConstruction: imported declarations', '%s: the list is %s afterwards; required %s - the stylesheet\'s own declarations (already sorted by match score) followed by those '
                        'of the imports in the order of m_imports (highest precedence first): only appending keeps import precedence ahead of the name test\'s priority' %
                        (site, list(map(str, gotws)), list(map(str, all_ws))), common.file_line(fn))
    # lookup takes the first match
    for b in facts.asts('StylesheetRoot::internalShouldStripSourceNode', must=False):
        rets = [x for x in walk(b['body']) if x.get('k') == 'Return' and 'eStrip' in pp(x.get('e'))]
        loops = [x for x in walk(b['body']) if x.get('k') in ('While', 'For', 'Do') and any(y is rr for rr in rets for y in walk(x))]
        if rets and loops and any('m_whitespaceElements.begin()' in pp(v.get('init')) for x in walk(b['body']) if x.get('k') == 'Decl' for v in x.get('vars', []) if v.get('init') is not None):
            r.ok('internalShouldStripSourceNode: returns at the first declaration that matches, starting at begin()')
        else:
            r.violation('internalShouldStripSourceNode', 'the lookup does not return at the first matching declaration from begin()', common.file_line(b))
    return r


_run_c13_prev = run


def run(res, facts, tier):
    _run_c13_prev(res, facts, tier)
    r4_declaration_order(res, facts)


# ----------------------------------------------------------------------------------------------- R5: the decision itself
CHAIN = ('StylesheetExecutionContextDefault::shouldStripSourceNode', 'StylesheetRoot::shouldStripSourceNode', 'StylesheetRoot::internalShouldStripSourceNode')
# atoms under which "do not strip" may be answered without consulting the declarations: text of the normalised atom -> value it must have
NO_STRIP_GUARDS = (
    ('hasPreserveOrStripSpaceElements()', False), ('m_hasPreserveOrStripConditions', False), ('.isWhitespace()', False),
    ('ELEMENT_NODE', None),   # parent is not an element (either spelling of the comparison)
    # "the node has no parent" is recognised structurally (a local initialised from getParentNode() compared with null), whatever the local is called
    ('.end()', None),         # the list of declarations is exhausted
)


def r5_decision(res, facts):
    """The answer to "is this text node stripped" is a function of the node and the declarations only: every function of the decision chain returns
    false under a reviewed guard, the next function's answer for the same node, or (last link) whether the first tester that matches the node's parent
    element is a strip tester.  A remembered, defaulted or otherwise sourced answer is a different tree for some document."""
    r = res.rule('C13-R5', 'the strip decision (StylesheetExecutionContextDefault::shouldStripSourceNode -> StylesheetRoot::shouldStripSourceNode -> internalShouldStripSourceNode): every '
                 'returned value is false under a reviewed guard, the next link asked about the same node, or "the matching tester of the parent element is a strip tester"', floor=6)
    names = {c.split('::')[-1] for c in CHAIN}
    for qn in CHAIN:
        cands = [a for a in facts.asts(qn, must=False) if a.get('body') is not None and len(a['params']) == 1 and 'XalanText' in a['params'][0]['ty']]
        if len(cands) != 1:
            raise AnalysisBroken('%s(const XalanText&): %d bodies' % (qn, len(cands)))
        a = cands[0]
        node = a['params'][0]
        cfg = CFG(a)
        mc = common.must_conds(cfg)
        defs = collections.defaultdict(list)
        for x in walk(a['body']):
            if x['k'] == 'Decl':
                for v in x['vars']:
                    if v.get('init') is not None:
                        defs[v['id']].append(v['init'])
            elif x['k'] == 'Bin' and x['op'] == '=':
                t = strip_casts(x['lhs'])
                if t.get('k') == 'Ref' and t.get('d') == 'local':
                    defs[t['id']].append(x['rhs'])

        def derives_from_parent(e, depth=0):
            """e denotes the parent element of the node parameter"""
            e = strip_casts(e)
            while e is not None and e.get('k') == 'Un' and e['op'] in ('*', '&'):
                e = strip_casts(e['e'])
            if e is None or depth > 4:
                return False
            if e.get('k') == 'MCall' and e.get('n') == 'getParentNode':
                o = strip_casts(e['obj'])
                return o.get('k') == 'Ref' and o.get('id') == node['id']
            if e.get('k') == 'Ref' and e.get('d') == 'local':
                ds = defs.get(e['id'], [])
                return bool(ds) and all(derives_from_parent(d, depth + 1) for d in ds)
            return False

        def classify(e, n, depth=0):
            e = strip_casts(e)
            if e is None:
                return 'nothing'
            if e.get('k') == 'Bool' and not e.get('cv'):
                return 'FALSE'
            if e.get('k') == 'Ref' and e.get('d') == 'local' and depth < 3:
                ds = defs.get(e['id'], [])
                if not ds:
                    return 'an uninitialised local'
                out = {classify(d, n, depth + 1) for d in ds}
                bad = [o for o in out if o not in ('FALSE', 'NEXT', 'TESTER')]
                return bad[0] if bad else ('FALSE' if out == {'FALSE'} else 'NEXT')
            if e.get('k') in ('MCall', 'Call') and (e.get('n') in names):
                args = [strip_casts(x) for x in e.get('args', [])]
                if len(args) == 1 and args[0].get('k') == 'Ref' and args[0].get('id') == node['id']:
                    return 'NEXT'
                return 'the decision for another node (%s)' % pp(e)[:80]
            if e.get('k') == 'Bin' and e['op'] == '==':
                l, rr = strip_casts(e['lhs']), strip_casts(e['rhs'])
                for x, y in ((l, rr), (rr, l)):
                    if x.get('k') == 'MCall' and x.get('n') == 'getType' and y.get('k') == 'Ref' and y.get('n') == 'eStrip':
                        t = pp(strip_casts(x['obj']))
                        for atom, br in mc.get(n.id, []):
                            core, eff = common.norm_atom(atom, br)
                            if core.get('k') == 'Bin' and core['op'] in ('!=', '==') and 'eMatchScoreNone' in pp(core):
                                call = [c for c in calls(core) if c['k'] == 'OpCall' and c.get('op') == '()' and pp(strip_casts(c['args'][0])) == t]
                                if call and (core['op'] == '!=') == eff and derives_from_parent(call[0]['args'][1]):
                                    return 'TESTER'
                        return 'the type of a tester that was not established to match the parent element of this node'
            return pp(e)[:90]

        site = short(a.get('q') or qn)
        parent_ids = set()
        for x in walk(a['body']):
            if x.get('k') == 'Decl':
                for v in x.get('vars', []):
                    if v.get('init') is not None and any((c.get('n') or '') in ('getParentNode', 'getParentOfNode') for c in calls(v['init'])):
                        parent_ids.add(v['id'])
        n_ret = 0
        for n in cfg.nodes:
            if n.kind != 'stmt' or n.ast is None or n.ast.get('k') != 'Return':
                continue
            n_ret += 1
            what = classify(n.ast.get('e'), n)
            where = '%s return at line %s' % (qn.split('::', 1)[-1] if False else qn, n.ast.get('l'))
            if what in ('NEXT', 'TESTER'):
                r.ok(where, what)
            elif what == 'FALSE':
                def guard(c):
                    core, eff = common.norm_atom(c.ast, True)
                    if core is None:
                        return None
                    if core.get('k') == 'Bin' and core['op'] in ('==', '!='):
                        l, r2 = strip_casts(core['lhs']), strip_casts(core['rhs'])
                        for v, z in ((l, r2), (r2, l)):
                            if v is not None and v.get('k') == 'Ref' and v.get('id') in parent_ids and z is not None and (z.get('cv') == 0 or z.get('k') == 'Nullptr'):
                                return eff if core['op'] == '==' else (not eff)
                    t = pp(core)
                    for text, val in NO_STRIP_GUARDS:
                        if text in t:
                            if val is None:
                                # comparison atoms: the discharging branch is the one on which "not an element" / "exhausted" holds
                                if core.get('k') == 'Bin' and core['op'] in ('==', '!='):
                                    is_eq = core['op'] == '=='
                                    want_eq = text == '.end()'          # i == end  discharges; type != ELEMENT discharges
                                    return eff if is_eq == want_eq else (not eff)
                                if core.get('k') == 'OpCall' and core.get('op') in ('==', '!='):
                                    is_eq = core['op'] == '=='
                                    return eff if is_eq else (not eff)
                                return None
                            return eff if val else (not eff)
                    return None
                if reach_unguarded(cfg, [n], guard):
                    r.violation(where, '"not stripped" is answered on a path that passed none of the reviewed guards (no declarations, not white space, no parent element, declarations exhausted)',
                                common.file_line(a, n.ast))
                else:
                    r.ok(where, 'false under a reviewed guard')
            else:
                r.violation(where, 'the answer is %s: not derived from the declarations tested against the parent element of this node' % what, common.file_line(a, n.ast))
        if n_ret == 0:
            raise AnalysisBroken(qn + ' has no return statement')
    return r


_run_c13_4 = run


def run(res, facts, tier):
    _run_c13_4(res, facts, tier)
    r5_decision(res, facts)


# ----------------------------------------------------------------------------------------------- R6: pattern steps get their verdict from NodeTester
def r6_pattern_verdicts(res, facts):
    """NodeTester::testText / testNode are where a node test asks shouldStripSourceNode (C13-R2).  The pattern matcher must therefore take the verdict of a child or
    attribute step from a NodeTester: a match score written directly in those cases (a short cut on the node type) matches stripped text nodes - xsl:key match="text()"
    and xsl:number offer every node of the tree to the pattern."""
    r = res.rule('C13-R6', 'XPath::stepPattern: in the cases of the child and attribute steps the match score comes from a NodeTester call (or from the predicate / index '
                 'helpers, or is eMatchScoreNone); a score constant assigned there by-passes the strip test of testText / testNode', floor=3)
    from ..mast import switch_cases
    sp = [a for a in facts.asts('XPath::stepPattern', must=False) if a.get('body') is not None]
    if not sp:
        raise AnalysisBroken('XPath::stepPattern has no body')
    STEP_CASES = {'eMATCH_ATTRIBUTE', 'eMATCH_ANY_ANCESTOR', 'eMATCH_ANY_ANCESTOR_WITH_PREDICATE', 'eMATCH_IMMEDIATE_ANCESTOR'}
    n = 0
    for a in sp:
        for sw in walk(a['body']):
            if sw.get('k') != 'Switch':
                continue
            groups = switch_cases(sw)
            if not any(strip_casts(l).get('n') in STEP_CASES for g in groups for l in g['labels'] if l is not None):
                continue
            for g in groups:
                labels = [strip_casts(l).get('n') for l in g['labels'] if l is not None]
                if not (set(labels) & STEP_CASES):
                    continue
                n += 1
                site = 'stepPattern case %s' % '/'.join(labels)
                bad = None
                tester = False
                for st in g['stmts']:
                    for x in walk(st):
                        if x.get('k') == 'Bin' and x['op'] == '=' and pp(strip_casts(x['lhs'])) == 'score':
                            rhs = x['rhs']
                            consts = [y for y in walk(rhs) if y.get('k') == 'Ref' and y.get('d') == 'enum' and (y.get('n') or '').startswith('eMatchScore') and y.get('n') != 'eMatchScoreNone']
                            # constants are fine when the value they compete with comes from a tester call in the same expression (cond ? none : tester(...))
                            has_call = any((c.get('k') == 'OpCall' and c.get('op') == '()') or (c.get('n') or '') in ('doStepPredicate', 'handleFoundIndex', 'handleFoundIndexPositional')
                                           or (c.get('k') == 'Ctor' and (c.get('cls') or '').endswith('NodeTester')) for c in calls(rhs))
                            if has_call:
                                tester = True
                            if consts:
                                bad = (x, consts[0]['n'])
                        if x.get('k') in ('Ctor',) and (x.get('cls') or '').endswith('NodeTester'):
                            tester = True
                if bad is not None:
                    r.violation(site, 'the score %s is assigned without a NodeTester: the strip test of testText / testNode is by-passed, a stripped text node matches text() / node() in '
                                'this step' % bad[1], common.file_line(a, bad[0]))
                elif not tester:
                    r.violation(site, 'no NodeTester call decides this step', common.file_line(a, g['stmts'][0] if g['stmts'] else sw))
                else:
                    r.ok(site, 'verdict from NodeTester')
    if n < 3:
        raise AnalysisBroken('stepPattern: %d step cases found (attribute, immediate ancestor, any ancestor expected)' % n)
    return r


_run_c13_5 = run


def run(res, facts, tier):
    _run_c13_5(res, facts, tier)
    r6_pattern_verdicts(res, facts)


# ----------------------------------------------------------------------------------------------- R7: "white space only" is a function of the characters
def _ek(x):
    x = strip_casts(x) or {}
    return (x.get('d'), x.get('id')) if x.get('k') == 'Ref' and x.get('d') in ('param', 'local') else ('expr', pp(x))


def r7_whitespace_flag(res, facts):
    """The strip decision starts from XalanText::isWhitespace().  In the default source tree that answer is the CLASS of the text node, chosen when the node is built:
    XalanSourceTreeTextIWS answers true, XalanSourceTreeText false.  So a plain text node may be created only for text that is not all white space - decided from the
    characters handed in and from nothing else (not from how the text was written: CDATA sections, entity references, several character events)."""
    r = res.rule('C13-R7', 'whether a text node of the source tree counts as white space is a function of its characters: XalanSourceTreeTextIWS::isWhitespace is constantly true, '
                 'XalanSourceTreeText::isWhitespace constantly false, and XalanSourceTreeDocument creates the plain class only on paths dominated by isXMLWhitespace(chars, 0, length) '
                 '== false over the text it was given', floor=3)
    for q, want in (('XalanSourceTreeTextIWS::isWhitespace', 1), ('XalanSourceTreeText::isWhitespace', 0)):
        for a in facts.asts(q):
            rets = [x for x in walk(a['body']) if x.get('k') == 'Return']
            vals = {(strip_casts(x['e']) or {}).get('cv') for x in rets if x.get('e') is not None}
            if len(rets) >= 1 and vals == {want}:
                r.ok(q, 'constantly %s' % ('true' if want else 'false'))
            else:
                r.violation(q, 'does not answer %s unconditionally (%s): the class of a text node no longer says whether it is white space' % ('true' if want else 'false', sorted(map(str, vals))),
                            common.file_line(a))
    n = 0
    for k in facts.astidx:
        f = facts.F.get(k)
        if not f or short(f.get('cls') or '') != 'XalanSourceTreeDocument':
            continue
        a = facts.ast(k)
        if a is None or a.get('body') is None:
            continue
        cfg = None
        for c in calls(a['body']):
            if (c.get('n') or '') != 'create':
                continue
            o = strip_casts(c.get('obj'))
            if o is None or o.get('k') != 'Member' or o.get('m') != 'm_textAllocator':
                continue
            n += 1
            if cfg is None:
                cfg = CFG(a)
                must = common.must_conds(cfg)
            node = next((nd for nd in cfg.nodes if nd.ast is not None and any(y is c for y in walk(nd.ast))), None)
            site = '%s: plain text node' % short(facts.name[k])
            pids = [p.get('id') for p in a['params'][:2]]
            ok = False
            for at, br in (must.get(node.id, []) if node is not None else []):
                core, eff = common.norm_atom(at, br)
                if core is not None and core.get('k') == 'Call' and (core.get('n') or callee(core).split('::')[-1]) == 'isXMLWhitespace' and not eff:
                    args = [strip_casts(x) for x in core.get('args', [])]
                    if len(args) == 3 and args[0] is not None and args[0].get('id') == pids[0] and args[1].get('cv') == 0 and args[2].get('id') == pids[1]:
                        ok = True
            if ok:
                r.ok(site, 'only where isXMLWhitespace(chars, 0, length) is false')
            else:
                r.violation(site, 'a plain text node (isWhitespace() == false) can be created for text that is all white space: the path to m_textAllocator.create is not dominated by '
                            'isXMLWhitespace(chars, 0, length) == false over the characters given, so xsl:strip-space never strips that node', common.file_line(a, c))
    if n == 0:
        raise AnalysisBroken('XalanSourceTreeDocument creates no plain text node through m_textAllocator any more')
    # the other direction: the white-space class only for text that IS all white space - decided over the very characters the node gets, or vouched for by the parser
    # (SAX ignorableWhitespace).  A flag computed earlier (from the first of several character events, say) is not that.
    def ws_true_over(cfg, must, node, a0, a1):
        for at, br in (must.get(node.id, []) if node is not None else []):
            core, eff = common.norm_atom(at, br)
            if core is not None and core.get('k') == 'Call' and (core.get('n') or callee(core).split('::')[-1]) == 'isXMLWhitespace' and eff:
                args = [strip_casts(x) for x in core.get('args', [])]
                if len(args) == 3 and _ek(args[0]) == a0 and args[1].get('cv') == 0 and _ek(args[2]) == a1:
                    return True
        return False
    m2 = 0
    unguarded = {}          # members of XalanSourceTreeDocument that create the white-space class for whatever they are given: {name: ast}
    for k in facts.astidx:
        f = facts.F.get(k)
        if not f or short(f.get('cls') or '') != 'XalanSourceTreeDocument':
            continue
        a = facts.ast(k)
        if a is None or a.get('body') is None:
            continue
        cfg = None
        for c in calls(a['body']):
            o = strip_casts(c.get('obj'))
            if (c.get('n') or '') != 'create' or o is None or o.get('k') != 'Member' or o.get('m') != 'm_textIWSAllocator':
                continue
            m2 += 1
            if cfg is None:
                cfg = CFG(a); must = common.must_conds(cfg)
            node = next((nd for nd in cfg.nodes if nd.ast is not None and any(y is c for y in walk(nd.ast))), None)
            ps = a['params'][:2]
            a0 = ('param', ps[0].get('id')) if len(ps) == 2 else None
            a1 = ('param', ps[1].get('id')) if len(ps) == 2 else None
            if a0 and ws_true_over(cfg, must, node, a0, a1):
                r.ok('%s: white-space text node' % short(facts.name[k]), 'only where isXMLWhitespace(chars, 0, length) is true')
            else:
                unguarded[(a.get('fq') or '').split('::')[-1]] = a
    if m2 == 0:
        raise AnalysisBroken('XalanSourceTreeDocument creates no white-space text node through m_textIWSAllocator any more')
    sites = 0
    for k in facts.astidx:
        f = facts.F.get(k)
        if not f or '/src/xalanc/' not in f.get('loc', '') or '/Tests/' in f.get('loc', '') or '/Harness/' in f.get('loc', ''):
            continue
        a = facts.ast(k)
        if a is None or a.get('body') is None:
            continue
        cs = [c for c in calls(a['body']) if c.get('k') == 'MCall' and c.get('n') in unguarded and len(c.get('args', [])) >= 2 and 'XalanSourceTreeDocument' in (c.get('cls') or '')]
        if not cs:
            continue
        cfg = CFG(a); must = common.must_conds(cfg)
        fnname = (a.get('fq') or '').split('::')[-1]
        for c in cs:
            sites += 1
            site = '%s: %s' % (short(facts.name[k]), c['n'])
            args = [strip_casts(x) for x in c['args'][:2]]
            own = [p.get('id') for p in a['params'][:2]]
            if fnname == 'ignorableWhitespace' and len(own) == 2 and [x.get('id') for x in args] == own and all(x.get('d') == 'param' for x in args):
                r.ok(site, 'the characters of a SAX ignorableWhitespace event: the parser vouches for them')
                continue
            node = next((nd for nd in cfg.nodes if nd.ast is not None and any(y is c for y in walk(nd.ast))), None)
            if ws_true_over(cfg, must, node, _ek(args[0]), _ek(args[1])):
                r.ok(site, 'only where isXMLWhitespace over the same characters is true')
            else:
                r.violation('%s: white-space text node for unchecked text' % short(facts.name[k]),
                            '%s(%s, %s, ...) builds a node whose isWhitespace() is constantly true; the call is neither in an ignorableWhitespace handler on its own arguments nor '
                            'dominated by isXMLWhitespace(%s, 0, %s) == true: text that is not all white space (decided from an earlier flag, from the first of several character '
                            'events) would be stripped by xsl:strip-space' % (c['n'], pp(args[0]), pp(args[1]), pp(args[0]), pp(args[1])), common.file_line(a, c))
    if unguarded and sites < 3:
        raise AnalysisBroken('only %d callers of %s found (3 confirmed by hand)' % (sites, sorted(unguarded)))
    return r


_run_c13_6 = run


def run(res, facts, tier):
    _run_c13_6(res, facts, tier)
    r7_whitespace_flag(res, facts)
    from . import c01_count
    c01_count.run_c13_rule(res, facts, tier)
