"""C13 — whitespace stripping: every path on which a source text node is observed asks shouldStripSourceNode (DESIGN.md §3)."""
import collections, re
from ..build import AnalysisBroken
from ..mast import walk, calls, callee, strip_casts, pp, CFG
from ..facts import short, NS
from . import common

AGGREGATE = ('XalanNode', 'XalanElement', 'XalanDocument', 'XalanDocumentFragment', 'XalanText')
# callers of the strip-unaware overloads outside DOMServices, one reason each
UNAWARE_CALLERS_OK = {
    'XResultTreeFrag::str': 'string value of a result tree fragment (built by the stylesheet, never stripped)',
    'XResultTreeFrag::stringLength': 'string value of a result tree fragment',
    'XNodeSetBase::str': 'context-less XObject::str() overloads: no execution context exists to ask; the context-taking overloads are what the interpreter uses',
    'XNodeSetBase::stringLength': 'context-less overload, as XNodeSetBase::str',
    'XObject::string': 'context-less static conversions (same contract as XNodeSetBase::str)',
    'TraceListenerDefault::processNodeList': 'diagnostic trace output',
}
WALK = {'getFirstChild', 'getNextSibling', 'getLastChild', 'getPreviousSibling', 'getChildNodes'}
# child/sibling walkers that neither decide through NodeTester / patterns nor feed a strip-aware sink, one reason each
WALKERS_OK = {
    'DOMServices::isNodeAfterSibling': 'document-order comparison: compares positions, observes no text',
    'TreeWalker::traverse': 'generic DOM walker used on stylesheet DOMs and by FormatterTreeWalker on result trees',
    'TreeWalker::traverseSubtree': 'generic DOM walker, as TreeWalker::traverse',
    'getKeyNode': 'StylesheetRoot key lookup helper: climbs to the owner document, inspects no text',
    'TracerEvent::printNode': 'diagnostic trace output',
    'getSingleTextChildValue': 'inspects a result tree fragment',
    'XSLTEngineImpl::process': 'searches the prolog for an xml-stylesheet processing instruction: inspects PIs only',
    'XSLTEngineImpl::outputResultTreeFragment': 'walks a result tree fragment, never stripped',
    'XSLTEngineImpl::outputToResultTree': 'copies XObject values; node-sets go through cloneToResultTree',
}
DOM_IMPL = re.compile(r'/(XalanSourceTree|XercesParserLiaison|XalanDOM|Harness|XalanTransformer|XMLSupport|PlatformSupport)/')


def has_ctx_param(f):
    return any('ExecutionContext' in p for p in f.get('params', []))


def reach_unguarded(cfg, targets, discharges):
    """node ids among `targets` reachable from the entry along a path on which no discharging branch was taken.
    discharges(cond node) -> None | True | False : the branch (True/False) of this atomic condition that establishes the guard"""
    seen = set(); st = [cfg.entry]
    hit = set()
    tset = {t.id for t in targets}
    while st:
        n = st.pop()
        if n.id in seen:
            continue
        seen.add(n.id)
        if n.id in tset:
            hit.add(n.id)
        if n.kind == 'cond':
            d = discharges(n)
            for s, br in ((n.cond_true, True), (n.cond_false, False)):
                if s is None:
                    continue
                if d is not None and br == d:
                    continue   # guard established on this edge
                st.append(s)
            continue
        st.extend(n.succ)
    return hit


def strip_guard(extra=None):
    """discharge function: shouldStripSourceNode(..) == false (false branch of the call), plus optional extra atoms {text: branch}"""
    def d(n):
        core, eff_true = common.norm_atom(n.ast, True)
        if core is None:
            return None
        if core.get('k') in ('Call', 'MCall') and core.get('n') == 'shouldStripSourceNode':
            # eff_true = truth value of the call when the atom is true
            return (not eff_true)   # branch of the atom on which the call is false
        if extra:
            t = pp(core)
            for text, br in extra.items():
                if text in t:
                    # atom true means `text` true (modulo eff)
                    return br if eff_true else (not br)
        return None
    return d


def r1_unaware(res, facts):
    r = res.rule('C13-R1', 'the strip-unaware DOMServices::getNodeData overloads for node kinds that aggregate text are called only from DOMServices\' own context-taking '
                 'overloads on the "no strip-space declared" branch, from each other, and from reviewed context-less conversions', floor=20)
    unaware = [k for k, v in facts.F.items() if v['name'] == NS + 'DOMServices::getNodeData' and not has_ctx_param(v)
               and any(short(v['params'][0]).startswith('const ' + a) for a in AGGREGATE)]
    if len(unaware) < 8:
        raise AnalysisBroken('only %d strip-unaware aggregate getNodeData overloads found (floor 8)' % len(unaware))
    helpers_unaware = [k for k, v in facts.F.items() if v['name'] in (NS + 'getChildData', NS + 'getChildrenData') and not has_ctx_param(v)]
    targets = set(unaware) | set(helpers_unaware)
    by_caller = collections.defaultdict(list)
    for c in facts.calls:
        if c['to'] in targets:
            by_caller[c['from']].append(c)
    for fr, cs in sorted(by_caller.items(), key=lambda kv: facts.sig(kv[0])):
        f = facts.F.get(fr, {})
        nm = short(f.get('name', '?'))
        site = '%s calls strip-unaware getNodeData' % short(facts.sig(fr))
        if fr in targets:
            r.ok(site, 'strip-unaware family calling itself')
            continue
        if nm in ('DOMServices::getNodeData',) and has_ctx_param(f):
            a = facts.ast(fr)
            cfg = CFG(a)
            must = common.must_conds(cfg)
            bad = None
            for n in cfg.nodes:
                if n.ast is None:
                    continue
                for c in calls(n.ast):
                    if c.get('usr') in targets:
                        if not any(common.cond_is_call(atom, 'hasPreserveOrStripSpaceConditions', br, False) for atom, br in must.get(n.id, [])):
                            bad = c
            if bad is None:
                r.ok(site, 'only where hasPreserveOrStripSpaceConditions() is false')
            else:
                r.violation(site, 'falls back to the strip-unaware overload without having established that no strip-space declaration exists', common.file_line(a, bad))
            continue
        if nm in UNAWARE_CALLERS_OK:
            r.ok(site, UNAWARE_CALLERS_OK[nm])
            continue
        r.violation(site, 'observes the string value of a source node through an overload that never asks shouldStripSourceNode', cs[0]['loc'].replace('/repo/', ''))
    # the context-taking family must not fall back to the unaware family for aggregate kinds
    aware = [k for k, v in facts.F.items() if v['name'] in (NS + 'DOMServices::doGetNodeData', NS + 'getChildData', NS + 'getChildrenData') and has_ctx_param(v)]
    for k in aware:
        for c in facts.calls:
            if c['from'] == k and c['to'] in targets:
                r.violation('%s -> strip-unaware' % short(facts.sig(k)), 'strip-aware traversal hands a child to a strip-unaware overload', c['loc'].replace('/repo/', ''))
        r.ok('%s stays strip-aware' % short(facts.sig(k)))
    return r


def r2_sinks(res, facts):
    r = res.rule('C13-R2', 'text sinks: a source text node is matched / appended / emitted only on paths where shouldStripSourceNode(node) == false (or an explicit override) was established', floor=6)
    specs = []
    for a in facts.asts('XPath::NodeTester::testText'):
        specs.append((a, 'return-match', None))
    for a in facts.asts('XPath::NodeTester::testNode'):
        specs.append((a, 'return-match', {'(nodeType != ': True}))
    for a in facts.asts('DOMServices::doGetNodeData'):
        if a['params'] and short(a['params'][0]['ty']).startswith('const XalanText'):
            specs.append((a, 'deliver', None))
    for a in facts.asts('XSLTEngineImpl::cloneToResultTree'):
        if a['params'] and short(a['params'][0]['ty']).startswith('const XalanText'):
            specs.append((a, 'deliver', {'overrideStrip': True}))
    if len(specs) < 5:
        raise AnalysisBroken('only %d text sinks found (floor 5)' % len(specs))
    for a, kind, extra in specs:
        cfg = CFG(a)
        targets = []
        for n in cfg.nodes:
            if n.ast is None or n.kind != 'stmt':
                continue
            if kind == 'return-match' and n.ast.get('k') == 'Return':
                e = strip_casts(n.ast.get('e'))
                if e is not None and e.get('k') == 'Ref' and e.get('d') == 'enum' and e.get('n') != 'eMatchScoreNone':
                    targets.append(n)
            if kind == 'deliver' and any(c.get('n') in ('append', 'characters', 'charactersRaw', 'sendData', 'getData') or c.get('fn') == '<memptr>' for c in calls(n.ast)):
                targets.append(n)
        site = short(facts.sig(a['usr'])) if a['usr'] in facts.F else short(a['fq'])
        if not targets:
            r.violation(site, 'sink no longer delivers anything recognisable', common.file_line(a)); continue
        hit = reach_unguarded(cfg, targets, strip_guard(extra))
        if hit:
            bad = [t for t in targets if t.id in hit][0]
            r.violation(site, 'a text node can be %s on a path that never established shouldStripSourceNode(..) == false' % ('matched' if kind == 'return-match' else 'delivered'), common.file_line(a, bad.ast))
        else:
            r.ok(site, '%d delivery point(s) guarded' % len(targets))
    # any other NodeTester test function that can match a TEXT_NODE must ask too
    for k in facts.astidx:
        f = facts.F.get(k)
        if not f or f.get('cls') != 'xalanc_1_12::XPath::NodeTester' or not f['name'].split('::')[-1].startswith('test'):
            continue
        nm = f['name'].split('::')[-1]
        if nm in ('testText', 'testNode'):
            continue
        a = facts.ast(k)
        txt = str(a['body'])
        mentions_text = 'TEXT_NODE' in txt
        # tests keyed on another node type cannot match a text node
        keyed = re.search(r'(COMMENT_NODE|PROCESSING_INSTRUCTION_NODE|ELEMENT_NODE|ATTRIBUTE_NODE|DOCUMENT_NODE|DOCUMENT_FRAGMENT_NODE)', txt)
        site = 'NodeTester::%s' % nm
        if mentions_text:
            r.violation(site, 'test function refers to TEXT_NODE but is not a registered text sink', common.file_line(a))
        elif keyed or nm in ('testDefault', 'testDefault2'):
            r.ok(site, 'cannot match a text node')
        else:
            r.ok(site, 'name test: applies to element / attribute / namespace nodes')
    return r


def r3_walkers(res, facts):
    r = res.rule('C13-R3', 'every function of the XSLT/XPath layers that walks children or siblings of a node decides through NodeTester / pattern matching, '
                 'feeds a strip-aware sink, or is a reviewed walker of result trees / stylesheet DOMs / non-text data', floor=25)
    w = collections.defaultdict(set)
    for c in facts.calls:
        n = c['toName'].split('::')[-1]
        if n in WALK and 'Xalan' in c['toName']:
            fr = facts.F.get(c['from'])
            if not fr or DOM_IMPL.search(fr['loc']) or common.FIXTURE_PREFIX in fr['loc']:
                continue
            w[c['from']].add(n)
    for k in sorted(w, key=lambda k: facts.sig(k)):
        a = facts.ast(k)
        nm = short(facts.name[k])
        site = 'walker %s' % short(facts.sig(k))
        if a is None:
            continue
        cs = {c.get('n') for c in calls(a['body'])}
        ctor = {short(c.get('cls', '')) for c in calls(a['body']) if c['k'] == 'Ctor'}
        f = facts.F[k]
        if 'XPath::NodeTester' in ctor or cs & {'getMatchScore', 'matchPattern'}:
            r.ok(site, 'decides through NodeTester / pattern matching')
        elif nm in ('DOMServices::doGetNodeData', 'getChildData', 'getChildrenData') and has_ctx_param(f):
            r.ok(site, 'strip-aware string-value traversal (R1, R2)')
        elif nm in ('DOMServices::getNodeData', 'getChildData', 'getChildrenData') and not has_ctx_param(f):
            r.ok(site, 'strip-unaware family: who may call it is R1')
        elif cs & {'cloneToResultTree'} and nm.startswith('XSLTEngineImpl::cloneToResultTree'):
            r.ok(site, 'hands every child to cloneToResultTree (text sink of R2)')
        elif nm in WALKERS_OK:
            r.ok(site, WALKERS_OK[nm])
        else:
            r.violation(site, 'walks %s of a node and can observe text nodes without NodeTester or a strip-aware sink' % sorted(w[k]), facts.loc(k))
    return r


def run(res, facts, tier):
    r1_unaware(res, facts)
    r2_sinks(res, facts)
    r3_walkers(res, facts)
    res.assume('C13: that the whitespace tester list selects the right nodes, and equality of the output with the pre-stripped document, are behavioural and not decided')
