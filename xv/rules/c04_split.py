"""C04-R16 — what characters() writes does not depend on how the text was cut into events.

One text node of the result tree reaches a serializer as any number of characters() events (one per descendant text node of a string-value, one per xsl:value-of /
xsl:text / literal text in a row).  The bytes written must be those of the whole text: E(s) = E(s1) E(s2) for every cut s = s1 s2, and must parse back to s - in
particular the raw output never contains "]]>".  FormatterToXMLUnicode::writeCharacters is interpreted, per (XML version x writer family) instantiation, with the character
predicates evaluated from their tables (C04-R1's) and the writer as a recorder of events (raw character, entity, numeric reference, new line, error), on texts made of
] > < & CR LF TAB, Latin-1 and ordinary letters, whole and at every cut.  An escape decision that looks back into the current event only (a '>' written raw unless the two
characters before it IN THIS EVENT are "]]") passes every test with whole strings and fails at the cut."""
import collections
from ..build import AnalysisBroken
from ..mast import Unsupported, callee, strip_casts
from ..omach import OMachine, Obj, Fault
from . import common
from .c04 import predicates

TEXTS = [']]>', 'a]]>b', ']>', '>', 'a>b', ']]]>>', ']] >', 'x<y&z', 'a\nb', '\r\n', 'a\rb', '\t', '\xe9]]>', ']]>]]>', ']]\n>', 'if (a[b[0]]>0)']


class Thrown(Exception):
    pass


class SWorld:
    def __init__(self, facts, preds, usrs):
        self.facts, self.preds, self.usrs = facts, preds, usrs
        self.depth = 0; self.calls = 0; self.max_calls = 5000
        self.events = []

    def tables(self, q):
        return None

    def glob(self, name):
        return ('GLOBAL', name.split('::')[-1])

    def allow(self, body, c):
        return body['file'].endswith(('FormatterToXMLUnicode.hpp',))

    def destructor(self, o):
        return None

    def hook(self, m, c):
        k = c['k']
        n = c.get('n') or callee(c).split('::')[-1]
        o = strip_casts(c.get('obj')) if c.get('obj') is not None else None
        mem = o.get('m') if o is not None and o.get('k') == 'Member' else None
        if k == 'MCall' and mem == 'm_charPredicate' and n in self.preds:
            v = m.ev(c['args'][0])
            if not isinstance(v, int) or not (0 <= v < len(self.preds[n])):
                raise Unsupported('predicate %s(%r)' % (n, v))
            return int(self.preds[n][v])
        if k == 'MCall' and mem == 'm_writer':
            a = c.get('args', [])
            if n == 'outputNewline':
                self.events.append(('NEWLINE',)); return 0
            if n in ('write', 'safeWrite', 'writeSafe') and a:
                a0 = strip_casts(a[0])
                if a0 is not None and a0.get('k') == 'Member' and 'EntityString' in (a0.get('m') or ''):
                    self.events.append(('ENTITY', a0['m'])); return 0
                if a0 is not None and a0.get('k') == 'Member' and (a0.get('m') or '') in ('s_cdataOpenString', 's_cdataCloseString'):
                    self.events.append(('OPEN',) if 'Open' in a0['m'] else ('CLOSE',)); return 0
                v = m.ev(a[0])
                if isinstance(v, int):
                    self.events.append(('RAW', v)); return 0
                if isinstance(v, str) and len(a) == 3:
                    # write(chars, start, length): one character (a surrogate pair: two units) written as the encoding allows - raw or as a reference, C04-R5's business;
                    # returns the index of its last unit
                    st = int(m.ev(a[1]))
                    u = ord(v[st])
                    if 0xD800 <= u <= 0xDBFF and st + 1 < int(m.ev(a[2])):
                        self.events.append(('RAW', u)); self.events.append(('RAW', ord(v[st + 1])))
                        return st + 1
                    self.events.append(('RAW', u))
                    return st
                if isinstance(v, str):
                    ln = int(m.ev(a[1])) if len(a) > 1 else len(v)
                    for ch in v[:ln]:
                        self.events.append(('RAW', ord(ch)))
                    return 0
                raise Unsupported('writer.%s(%r)' % (n, v))
            if n == 'writeCDATAChar' and len(a) == 4:
                # a character the encoding has: written raw inside a section (one is opened if the text is outside just now); what an encoding lacks is C04-R5's business
                v, st = m.ev(a[0]), int(m.ev(a[1]))
                t = strip_casts(a[3])
                if m.ev(t):
                    self.events.append(('OPEN',))
                    m.assign(t, 0)
                self.events.append(('RAW', ord(v[st])))
                return st
            if n in ('flushBuffer', 'flushWriter'):
                return 0
            raise Unsupported('writer method ' + n)
        if k == 'MCall' and mem == 'm_indentHandler':
            return 0
        if n == 'writeParentTagEnd':
            return 0
        if n == 'outputNewline':
            self.events.append(('NEWLINE',)); return 0
        if n == 'writeNumericCharacterReference':
            self.events.append(('CHARREF', m.ev(c['args'][0]))); return 0
        if n.startswith('throwInvalid'):
            self.events.append(('ERROR',)); raise Thrown()
        if n == 'getMemoryManager':
            return 0
        if n == 'isUTF16HighSurrogate':
            return int(0xD800 <= m.ev(c['args'][0]) <= 0xDBFF)
        if n == 'isUTF16LowSurrogate':
            return int(0xDC00 <= m.ev(c['args'][0]) <= 0xDFFF)
        return NotImplemented


def events_of(facts, usrs, preds, fn_ast, text):
    w = SWorld(facts, preds, usrs)
    this = Obj(fn_ast.get('cls') or 'FormatterToXMLUnicode', {'m_charPredicate': 'PRED', 'm_writer': 'WRITER', 'm_indentHandler': 'IND', 'm_constants': 'CONST'})
    m = OMachine(w, {}, this)
    m.fuel = 20000
    try:
        m.run_body(fn_ast, [text, len(text)], this)
    except Thrown:
        pass
    return w.events


def decode(ev):
    out = ''
    for e in ev:
        if e[0] == 'RAW':
            out += chr(e[1])
        elif e[0] == 'CHARREF':
            out += chr(e[1])
        elif e[0] == 'NEWLINE':
            out += '\n'
        elif e[0] == 'ENTITY':
            nm = e[1].lower()
            out += '<' if 'less' in nm else ('>' if 'greater' in nm else ('&' if 'amp' in nm else ('"' if 'quot' in nm else ('\n' if 'linefeed' in nm else ('\r' if 'carriage' in nm else '?')))))
        else:
            out += '!'
    return out


def raw_runs(ev):
    run = ''
    for e in ev:
        if e[0] == 'RAW':
            run += chr(e[1])
        else:
            yield run
            run = ''
    yield run


def run_rule(res, facts, tier):
    r = res.rule('C04-R16', 'characters() is cut-invariant: FormatterToXMLUnicode::writeCharacters interpreted per (version x writer family) on texts with ] > < & CR LF, whole and '
                 'at every cut: the events written for s1 then s2 are those written for s1 s2, the raw output never contains "]]>", and the output decodes to the text', floor=90)
    insts = collections.defaultdict(set)
    for k in facts.astidx:
        f = facts.F.get(k)
        if f and f.get('clsq') == 'xalanc_1_12::FormatterToXMLUnicode':
            insts[f['cls']].add(k)
    done = set()
    for cls, usrs in sorted(insts.items()):
        ver = '1_1' if 'XML_VERSION_1_1' in cls else '1_0'
        fam = 'UTF8' if 'XalanUTF8Writer,' in cls else ('UTF16' if 'XalanUTF16Writer,' in cls else 'OTHER')
        if (ver, fam) in done or 'XalanIndentWriter<' in cls:
            continue
        start = [u for u in usrs if facts.F[u]['name'].split('::')[-1] == 'writeCharacters']
        if not start:
            continue
        done.add((ver, fam))
        fn = facts.ast(start[0])
        p, _ = predicates(facts, 'CharFunctor' + ver)
        label = 'XML %s %s writer' % (ver.replace('_', '.'), fam)
        for s in TEXTS:
            try:
                whole = events_of(facts, usrs, p, fn, s)
                cuts = [(k, events_of(facts, usrs, p, fn, s[:k]) + events_of(facts, usrs, p, fn, s[k:])) for k in range(1, len(s))]
            except Unsupported as u:
                raise AnalysisBroken('FormatterToXMLUnicode::writeCharacters outside the interpreted subset on %r: %s' % (s, u))
            except Fault as f:
                r.violation('%s: characters(%r)' % (label, s), 'fault: %s' % f, common.file_line(fn)); continue
            site = '%s: text %r' % (label, s)
            bad = None
            for k, ev in [(0, whole)] + cuts:
                how = 'in one event' if k == 0 else 'as %r then %r' % (s[:k], s[k:])
                if any(e[0] == 'ERROR' for e in ev):
                    continue
                if any(']]>' in run for run in raw_runs(ev)) or ']]>' in ''.join(chr(e[1]) if e[0] == 'RAW' else ('\x00' if e[0] != 'NEWLINE' else '\n') for e in ev):
                    bad = ('"]]>" in character data', 'written %s the output contains the raw sequence "]]>": not well-formed (XML 1.0 2.4)' % how); break
                dec = decode(ev)
                if dec.replace('\r\n', '\n') != s.replace('\r\n', '\n') and dec != s:
                    bad = ('the output does not decode to the text', 'written %s the output decodes to %r' % (how, dec)); break
                if k and ev != whole:
                    bad = ('the cut changes what is written', 'written %s: %s; in one event: %s' % (how, brief(ev), brief(whole))); break
            if bad:
                r.violation('%s: %s' % (label, bad[0]), 'text %r %s' % (s, bad[1]), common.file_line(fn))
            else:
                r.ok(site, brief(whole))
    if len(done) < 4:
        raise AnalysisBroken('C04-R16: only %d (version, writer) instantiations of FormatterToXMLUnicode::writeCharacters found' % len(done))
    return r


def brief(ev):
    out = ''
    for e in ev:
        out += chr(e[1]) if e[0] == 'RAW' and 32 <= e[1] < 127 else ('&#%d;' % e[1] if e[0] in ('RAW', 'CHARREF') else ('&%s;' % e[1].replace('m_', '').replace('EntityString', '') if e[0] == 'ENTITY' else ('<![CDATA[' if e[0] == 'OPEN' else (']]>' if e[0] == 'CLOSE' else '<%s>' % e[0]))))
    return out


def decode_cdata(ev):
    """-> (text, problem): the character data a parser reads from the events of writeCDATA"""
    out, inside, run = '', False, ''
    for e in ev:
        if e[0] == 'OPEN':
            if inside:
                return out, 'a CDATA section is opened inside a CDATA section'
            inside, run = True, ''
        elif e[0] == 'CLOSE':
            if not inside:
                return out, 'a CDATA section is closed that was not open'
            inside = False
        elif e[0] in ('RAW', 'NEWLINE'):
            ch = chr(e[1]) if e[0] == 'RAW' else '\n'
            if inside:
                run += ch
                if run.endswith(']]>'):
                    return out, 'the raw sequence "]]>" inside a CDATA section ends it early'
                if ch == '\r':
                    return out, 'a literal CR inside a CDATA section (a parser reads LF)'
            elif ch in '<&' or ch == '\r':
                return out, 'the character %r is written raw outside a CDATA section' % ch
            elif ch == '>' and out.endswith(']]'):
                return out, '"]]>" in character data outside a CDATA section'
            out += ch
        elif e[0] == 'CHARREF':
            if inside:
                return out, 'a character reference inside a CDATA section is not a reference'
            out += chr(e[1])
        elif e[0] == 'ENTITY':
            if inside:
                return out, 'an entity reference inside a CDATA section is not a reference'
            out += decode([e])
        elif e[0] == 'ERROR':
            return out, 'ERROR'
    if inside:
        return out, 'a CDATA section is left open'
    return out, None


CDATA_TEXTS = [']]>', 'a]]>b', ']]', '>', ']]]]>>', 'x<y&z', 'a\rb', '\r', '\r\n', 'a\nb', ']]>\r]]>', ']\r]>', ']]\r>', 'plain']


def run_cdata_rule(res, facts, tier):
    r = res.rule('C04-R17', 'text of a cdata-section element: FormatterToXMLUnicode::writeCDATA interpreted per (version x writer family) on texts with ]]> CR LF < &, whole and at every '
                 'cut into two events: sections open and close alternately, no raw "]]>" and no literal CR inside a section, no reference inside a section, nothing special raw '
                 'outside, and what a parser reads back is the text', floor=80)
    insts = collections.defaultdict(set)
    for k in facts.astidx:
        f = facts.F.get(k)
        if f and f.get('clsq') == 'xalanc_1_12::FormatterToXMLUnicode':
            insts[f['cls']].add(k)
    done = set()
    for cls, usrs in sorted(insts.items()):
        ver = '1_1' if 'XML_VERSION_1_1' in cls else '1_0'
        fam = 'UTF8' if 'XalanUTF8Writer,' in cls else ('UTF16' if 'XalanUTF16Writer,' in cls else 'OTHER')
        if (ver, fam) in done or 'XalanIndentWriter<' in cls:
            continue
        start = [u for u in usrs if facts.F[u]['name'].split('::')[-1] == 'writeCDATA']
        if not start:
            continue
        done.add((ver, fam))
        fn = facts.ast(start[0])
        p, _ = predicates(facts, 'CharFunctor' + ver)
        label = 'XML %s %s writer' % (ver.replace('_', '.'), fam)
        for s in CDATA_TEXTS:
            try:
                runs = [(0, events_of(facts, usrs, p, fn, s))] + [(k, events_of(facts, usrs, p, fn, s[:k]) + events_of(facts, usrs, p, fn, s[k:])) for k in range(1, len(s))]
            except Unsupported as u:
                raise AnalysisBroken('FormatterToXMLUnicode::writeCDATA outside the interpreted subset on %r: %s' % (s, u))
            except Fault as f:
                r.violation('%s: cdata(%r)' % (label, s), 'fault: %s' % f, common.file_line(fn)); continue
            bad = None
            for k, ev in runs:
                how = 'in one event' if k == 0 else 'as %r then %r' % (s[:k], s[k:])
                txt, prob = decode_cdata(ev)
                if prob == 'ERROR':
                    continue
                if prob:
                    bad = (prob.split(' (')[0], 'text %r written %s: %s (%s)' % (s, how, prob, brief(ev))); break
                if txt.replace('\r\n', '\n') != s.replace('\r\n', '\n') and txt != s:
                    bad = ('what is read back is not the text', 'text %r written %s reads back as %r (%s)' % (s, how, txt, brief(ev))); break
            if bad:
                r.violation('%s, CDATA: %s' % (label, bad[0]), bad[1], common.file_line(fn))
            else:
                r.ok('%s, CDATA: text %r' % (label, s), brief(runs[0][1]))
    if len(done) < 4:
        raise AnalysisBroken('C04-R17: only %d (version, writer) instantiations of FormatterToXMLUnicode::writeCDATA found' % len(done))
    return r
