"""C02-R13 — the XPath string functions by interpretation.

contains(), starts-with(), substring-before(), substring-after(), translate(), normalize-space(), concat(): the execute bodies and
the DOMStringHelper routines they call (indexOf, startsWith, length, needsNormalization, ...) are interpreted over every pair / triple of short
strings from a small alphabet and compared with the definition in XPath 1.0 §4.2.  A string is a Python str, a character pointer is a
(string, offset) pair with the terminating 0 readable and anything else out of bounds, the cached result string is a mutable buffer.
What is decided: the kernels, not the conversion of the arguments (C02-R2) or the binding of the function names (C02-R10)."""
import itertools
from ..build import AnalysisBroken
from ..mast import Machine, Unsupported, walk, calls, callee, strip_casts, pp
from ..facts import NS
from . import common


class Ptr:
    __slots__ = ('s', 'off')

    def __init__(self, s, off=0):
        self.s, self.off = s, off

    def _chars(self):
        return self.s.chars if isinstance(self.s, Buf) else self.s

    def at(self, i=0):
        cs = self._chars()
        o = self.off + i
        if 0 <= o < len(cs):
            c = cs[o]
            return ord(c) if isinstance(c, str) else c
        if o == len(cs):
            return 0
        raise Unsupported('character read out of bounds (offset %d of a string of %d)' % (o, len(cs)))

    def __add__(self, n):
        return Ptr(self.s, self.off + int(n))
    __radd__ = __add__

    def __sub__(self, o):
        if isinstance(o, Ptr):
            return self.off - o.off
        return Ptr(self.s, self.off - int(o))

    def __eq__(self, o):
        if isinstance(o, Ptr):
            return self.s is o.s and self.off == o.off
        return o == 0 and False

    def __ne__(self, o):
        return not self.__eq__(o)

    def __lt__(self, o): return self.off < o.off
    def __le__(self, o): return self.off <= o.off
    def __gt__(self, o): return self.off > o.off
    def __ge__(self, o): return self.off >= o.off
    def __hash__(self): return hash((id(self.s), self.off))
    def __bool__(self): return True


class Arr:
    """a local array of scalars (a look-up table built by the function itself); pointers into it are (array, offset)"""
    def __init__(self, n, off=0, items=None):
        self.items = items if items is not None else ['UNINIT'] * n
        self.off = off

    def __add__(self, n):
        return Arr(0, self.off + int(n), self.items)
    __radd__ = __add__

    def __sub__(self, o):
        if isinstance(o, Arr):
            return self.off - o.off
        return Arr(0, self.off - int(o), self.items)

    def __bool__(self): return True

    def slot(self, i, what):
        o = self.off + int(i)
        if not (0 <= o < len(self.items)):
            raise Unsupported('%s out of bounds (element %d of a local array of %d)' % (what, o, len(self.items)))
        return o

    def at(self, i=0):
        v = self.items[self.slot(i, 'read')]
        if v == 'UNINIT':
            raise Unsupported('read of an element of a local array outside its initialised part (element %d)' % (self.off + int(i)))
        return v

    def put(self, i, v):
        self.items[self.slot(i, 'store')] = v


class Buf:
    """the mutable XalanDOMString a GetCachedString guard hands out"""
    def __init__(self):
        self.chars = []

    def text(self):
        return ''.join(chr(c) if isinstance(c, int) else c for c in self.chars)


class XO:
    """an XObject argument: its type and its string value"""
    def __init__(self, ty, s):
        self.ty, self.s = ty, s


class Out:
    def __init__(self, kind, v):
        self.kind, self.v = kind, v


def text_of(v):
    if isinstance(v, Buf):
        return v.text()
    if isinstance(v, XO):
        return v.s
    return v


class SMachine(Machine):
    def __init__(self, world, env):
        super().__init__(env, call_hook=world.hook, global_hook=world.glob, tables=world.tables)
        self.world = world
        self.fuel = 4000

    def ev(self, e):
        k = e['k']
        if k == 'Un' and e['op'] == '*':
            v = self.ev(e['e'])
            return v.at() if isinstance(v, (Ptr, Arr)) else v
        if k == 'Index':
            base = strip_casts(e['b'])
            if base.get('k') == 'Ref' and base.get('d') in ('global', 'staticlocal') or base.get('k') == 'Member' and base.get('field'):
                return super().ev(e)
            b = self.ev(e['b'])
            if isinstance(b, (Ptr, Arr)):
                return b.at(int(self.ev(e['i'])))
        if k == 'Cast' and e.get('ck') in ('PointerToBoolean',):
            v = self.ev(e['e'])
            return int(isinstance(v, Ptr) or bool(v))
        if k == 'Cast' and e.get('ck') == 'IntegralCast':
            v = self.ev(e['e'])
            if isinstance(v, int) and v < 0 and 'unsigned' in (e.get('to') or ''):
                raise Unsupported('negative value %d converted to an unsigned length' % v)
        if k == 'Bin' and e['op'] == '-':
            a, b = self.ev(e['lhs']), self.ev(e['rhs'])
            if isinstance(a, int) and isinstance(b, int) and a - b < 0 and 'unsigned' in (e.get('ty') or ''):
                raise Unsupported('unsigned length arithmetic wraps (%d - %d)' % (a, b))
            if isinstance(a, Ptr) or (isinstance(a, int) and isinstance(b, int)):
                return a - b
            if isinstance(a, float) or isinstance(b, float):
                return float(a) - float(b)
            raise Unsupported('subtraction of %r and %r' % (a, b))
        return super().ev(e)


    def exec(self, s):
        if s['k'] == 'Decl':
            import re
            for v in s['vars']:
                mt = re.search(r'\[(\d+)\]\s*$', v.get('ty') or '')
                if mt and v.get('init') is None:
                    self.env[v['id']] = Arr(int(mt.group(1)))
        return super().exec(s)

    def assign(self, t, v):
        if t.get('k') == 'Index' or (t.get('k') == 'Un' and t.get('op') == '*'):
            b = self.ev(t['b'] if t['k'] == 'Index' else t['e'])
            if isinstance(b, Arr):
                b.put(int(self.ev(t['i'])) if t['k'] == 'Index' else 0, v)
                return
        return super().assign(t, v)


class StrWorld:
    def __init__(self, facts):
        self.facts = facts
        self.type_string = facts.enumconst.get(NS + 'XObject::eTypeString')
        self.type_other = facts.enumconst.get(NS + 'XObject::eTypeNumber')
        if self.type_string is None or self.type_other is None:
            raise AnalysisBroken('XObject::eTypeString / eTypeNumber not found')
        self.interpreted = set()
        self._tables = {}
        self.depth = 0

    def tables(self, q):
        if q not in self._tables:
            t = self.facts.table(q, must=False)
            self._tables[q] = None if t is None else [x['v'] if isinstance(x, dict) else x for x in t['val']]
        return self._tables[q]

    def glob(self, name):
        n = name.split('::')[-1]
        if n in ('theEmptyString', 's_emptyString'):
            return ''
        return NotImplemented

    def call_body(self, m, c, a, this=None):
        if len(a['params']) < len(c.get('args', [])):
            raise Unsupported('arity of ' + pp(c)[:60])
        args = [m.ev(x) for x in c.get('args', [])]
        env = {p['id']: v for p, v in zip(a['params'], args)}
        for p in a['params'][len(args):]:
            if p.get('init') is None:
                raise Unsupported('missing argument of ' + pp(c)[:60])
            env[p['id']] = m.ev(p['init'])
        self.depth += 1
        if self.depth > 12:
            raise Unsupported('call depth')
        try:
            sub = SMachine(self, env)
            sub.fuel = m.fuel
            r = sub.call(a['body'])
            m.fuel = sub.fuel
            self.interpreted.add(a.get('q') or c.get('fn') or '?')
            return r
        finally:
            self.depth -= 1

    def hook(self, m, c):
        k = c['k']
        n = c.get('n') or callee(c).split('::')[-1]
        fn = c.get('fn') or ''
        cls = c.get('cls') or ''
        if k == 'OpCall':
            op = c['op']
            if op in ('->', '*') and len(c['args']) == 1:
                return m.ev(c['args'][0])
            if op == '[]':
                s, i = m.ev(c['args'][0]), int(m.ev(c['args'][1]))
                return Ptr(s).at(i)
            if op in ('==', '!=') and len(c['args']) == 2:
                a, b = m.ev(c['args'][0]), m.ev(c['args'][1])
                return int((a == b) == (op == '=='))
            return NotImplemented
        if k == 'Call' and n in ('fill', 'fill_n') and len(c['args']) == 3:
            b, e2, v = m.ev(c['args'][0]), m.ev(c['args'][1]), m.ev(c['args'][2])
            if isinstance(b, Arr):
                cnt = (e2 - b) if n == 'fill' else int(e2 if n == 'fill_n' else 0)
                if n == 'fill_n':
                    cnt, v = int(e2), v
                for i in range(int(cnt)):
                    b.put(i, v)
                return 0
        if k == 'Ctor':
            if 'GetCachedString' in cls or 'GetAndReleaseCachedString' in cls:
                return Buf()
            if 'XObjectPtr' in cls:
                if len(c.get('args', [])) == 1:
                    return m.ev(c['args'][0])
                return Out('null', None)
            if len(c.get('args', [])) == 1:
                return m.ev(c['args'][0])
            return NotImplemented
        if k == 'MCall':
            if cls.endswith('XObject'):
                o = m.ev(c['obj'])
                if not isinstance(o, XO):
                    raise Unsupported('XObject call on ' + repr(o))
                if n == 'str':
                    if len(c['args']) == 2:
                        b = m.ev(c['args'][1])
                        if not isinstance(b, Buf):
                            raise Unsupported('str(context, target) into ' + repr(b))
                        b.chars.extend(ord(x) for x in o.s)
                        return 0
                    return o.s
                if n == 'getType':
                    return o.ty
                if n == 'stringLength':
                    return len(o.s)
                return NotImplemented
            if cls.endswith('XObjectPtr'):
                if n == 'null':
                    return int(m.ev(c['obj']) is None)
                if n == 'get':
                    return m.ev(c['obj'])
            if 'GetCachedString' in cls and n == 'get':
                return m.ev(c['obj'])
            if n == 'getXObjectFactory':
                return 'FACTORY'
            if cls.endswith('XObjectFactory'):
                a = [m.ev(x) for x in c['args']]
                if n in ('createString', 'createStringReference'):
                    if len(a) == 1:
                        return Out('string', text_of(a[0]))
                    if len(a) == 2 and isinstance(a[0], Ptr):
                        cs = a[0]._chars()
                        if a[0].off < 0 or a[0].off + a[1] > len(cs) or a[1] < 0:
                            raise Unsupported('createString(pointer, length) outside the string')
                        return Out('string', text_of(cs[a[0].off:a[0].off + a[1]]) if isinstance(cs, str) else ''.join(map(chr, cs[a[0].off:a[0].off + a[1]])))
                if n == 'createStringAdapter':
                    return Out('string', text_of(a[0]))
                if n == 'createBoolean':
                    return Out('boolean', bool(a[0]))
                if n == 'createNumber':
                    return Out('number', float(a[0]))
                return NotImplemented
            if cls.endswith('XalanDOMString'):
                return self.string_method(m, c, n)
        if k == 'Call':
            a = self.facts.ast(c['usr']) if c.get('usr') else None
            if a is not None and a.get('body') is not None:
                return self.call_body(m, c, a)
            if n == 'getNodeData':
                return NotImplemented
        if k == 'MCall' and c.get('usr') and not c.get('virt'):
            a = self.facts.ast(c['usr'])
            o = strip_casts(c.get('obj'))
            if a is not None and a.get('body') is not None and (o is None or o.get('k') == 'This' or 'XalanXMLChar' in cls or 'Function' in cls):
                return self.call_body(m, c, a)
        return NotImplemented

    def string_method(self, m, c, n):
        o = m.ev(c['obj'])
        args = [m.ev(x) for x in c.get('args', [])]
        cs = o.chars if isinstance(o, Buf) else o
        if not isinstance(cs, (str, list)):
            raise Unsupported('string method on ' + repr(o))
        if n in ('length', 'size'):
            return len(cs)
        if n == 'empty':
            return int(len(cs) == 0)
        if n in ('c_str', 'begin', 'data'):
            return Ptr(o, 0)
        if n == 'end':
            return Ptr(o, len(cs))
        if n == 'reserve':
            return 0
        if not isinstance(o, Buf):
            raise Unsupported('mutation of an argument string: ' + n)
        if n == 'push_back':
            o.chars.append(args[0]); return 0
        if n == 'clear':
            o.chars[:] = []; return 0
        if n == 'append':
            if len(args) == 2 and isinstance(args[0], int) and not isinstance(args[1], Ptr):
                o.chars.extend([args[1]] * args[0]); return o
            if len(args) == 1 and isinstance(args[0], (str, Buf)):
                o.chars.extend(ord(x) for x in text_of(args[0])); return o
            if len(args) == 2 and isinstance(args[0], Ptr):
                o.chars.extend(args[0].at(i) for i in range(self._len(args[0], args[1]))); return o
        if n == 'assign':
            if len(args) == 2 and isinstance(args[0], Ptr):
                ln = self._len(args[0], args[1])
                o.chars[:] = [args[0].at(i) for i in range(ln)]; return o
            if len(args) == 1 and isinstance(args[0], (str, Buf)):
                o.chars[:] = [ord(x) for x in text_of(args[0])]; return o
            if len(args) == 2 and isinstance(args[0], Ptr) is False and isinstance(args[0], int):
                o.chars[:] = [args[1]] * args[0]; return o
        if n == 'erase':
            if len(args) == 1 and isinstance(args[0], Ptr) and args[0].s is o:
                if not (0 <= args[0].off < len(o.chars)):
                    raise Unsupported('erase outside the string')
                del o.chars[args[0].off]
                return Ptr(o, args[0].off)
        raise Unsupported('string method %s/%d' % (n, len(args)))

    @staticmethod
    def _len(p, n):
        n = int(n)
        cs = p._chars()
        if n < 0 or p.off < 0 or p.off + n > len(cs):
            raise Unsupported('range (offset %d, length %d) outside a string of %d' % (p.off, n, len(cs)))
        return n


# ------------------------------------------------------------------------------------------------------------------ the definitions
WS = ' \t\r\n'


def spec_normalize(s):
    out, word = [], ''
    for ch in s:
        if ch in WS:
            if word:
                out.append(word); word = ''
        else:
            word += ch
    if word:
        out.append(word)
    return ' '.join(out)


def spec_translate(a, b, c):
    out = ''
    for ch in a:
        i = b.find(ch)
        if i < 0:
            out += ch
        elif i < len(c):
            out += c[i]
    return out


SPECS = {
    'contains': lambda a, b: ('boolean', b in a),
    'starts-with': lambda a, b: ('boolean', a.startswith(b)),
    'substring-before': lambda a, b: ('string', a[:a.find(b)] if b in a else ''),
    'substring-after': lambda a, b: ('string', a[a.find(b) + len(b):] if b in a else ''),
    'translate': lambda a, b, c: ('string', spec_translate(a, b, c)),
    'normalize-space': lambda a: ('string', spec_normalize(a)),
    'concat': lambda a, b: ('string', a + b),
    'concat/3': lambda a, b, c: ('string', a + b + c),
}
CLASSES = {'contains': 'FunctionContains', 'starts-with': 'FunctionStartsWith', 'substring-before': 'FunctionSubstringBefore', 'substring-after': 'FunctionSubstringAfter',
           'translate': 'FunctionTranslate', 'normalize-space': 'FunctionNormalizeSpace', 'concat': 'FunctionConcat', 'concat/3': 'FunctionConcat'}


def strings(alpha, maxlen):
    out = ['']
    for n in range(1, maxlen + 1):
        out += [''.join(t) for t in itertools.product(alpha, repeat=n)]
    return out


def inputs(name, tier):
    deep = tier == 'thorough'
    if name in ('contains', 'starts-with', 'substring-before', 'substring-after'):
        return list(itertools.product(strings('ab', 5 if deep else 4), strings('ab', 3)))
    if name == 'translate':
        return list(itertools.product(strings('abc', 3 if deep else 2) + ['abca', 'aabbcc'], strings('ab', 2) + ['aba', 'abc'], strings('xy', 2) + ['xyz', 'b']))
    if name == 'normalize-space':
        return [(s,) for s in strings('x \t\n', 5 if deep else 4) + ['\r', ' \r x', 'x\r\ry', ' ', 'x  y', '　x', 'x y', ' x ']]
    if name == 'concat':
        return list(itertools.product(strings('ab', 2), strings('cd', 2)))
    if name == 'concat/3':
        return list(itertools.product(['', 'a', 'ab'], ['', 'c', 'cd'], ['', 'e', 'ef']))
    return []


def run_rule(res, facts, tier):
    r = res.rule('C02-R13', 'string functions by interpretation: the execute bodies of contains, starts-with, substring-before, substring-after, translate, normalize-space and '
                 'concat (two and three arguments), with the DOMStringHelper routines they call, interpreted on every tuple of short strings over a small alphabet (both argument types: a string '
                 'object and a converted one); result type and value equal the definition in XPath 1.0 §4.2; any read outside a string or wrapped length is reported',
                 floor=1500)
    world = StrWorld(facts)
    reported = {}
    for name, cname in CLASSES.items():
        arity = SPECS[name].__code__.co_argcount
        cands = [a for a in facts.asts(cname + '::execute', must=False) if len(a['params']) == 3 + arity and a.get('body') is not None]
        if len(cands) != 1:
            raise AnalysisBroken('%s::execute with %d arguments: %d bodies' % (cname, arity, len(cands)))
        a = cands[0]
        pid = [p['id'] for p in a['params']]
        for tup in inputs(name, tier):
            for ty in (world.type_string, world.type_other):
                xs = [XO(ty, s) for s in tup]
                env = {pid[0]: 'CTX', pid[1]: 'NODE', pid[-1]: 0}
                for i, x in enumerate(xs):
                    env[pid[2 + i]] = x
                env['.m'] = {}
                m = SMachine(world, env)
                site = '%s(%s)%s' % (name, ', '.join(repr(s) for s in tup), '' if ty == world.type_string else ' [argument converted from another type]')
                try:
                    out = m.call(a['body'])
                    if isinstance(out, XO):
                        got = ('string', out.s) if out.ty == world.type_string else ('the argument object, which is not a string', out.s)
                    elif isinstance(out, Out):
                        got = (out.kind, out.v)
                    else:
                        got = ('?', out)
                except Unsupported as u:
                    msg = str(u)
                    if 'out of bounds' in msg or 'wraps' in msg or 'outside' in msg or 'negative value' in msg:
                        got = ('undefined', msg)
                    else:
                        raise AnalysisBroken('%s outside the interpreted subset on %s: %s' % (cname, site, u))
                want = SPECS[name](*tup)
                if got == want:
                    r.ok(site, repr(got[1]))
                else:
                    if name not in reported:
                        reported[name] = 0
                    reported[name] += 1
                    if reported[name] <= 2:
                        r.violation(site, 'the code yields %s %r, XPath 1.0 §4.2 requires %s %r' % (got[0], got[1], want[0], want[1]), common.file_line(a))
                    else:
                        r.instances += 1
    r.note('interpreted helper bodies: %s' % sorted(x.split('::')[-1] for x in world.interpreted))
    return r
