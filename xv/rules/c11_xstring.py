"""C11-R11 — a string-typed XObject answers num() and boolean() from its string, whatever it wraps.

string(x), normalize-space(x), substring-after(x, '') ... return objects of the XStringBase family; some of them (XStringAdapter) only wrap the object the string came from.
Asked for a number or a boolean such an object must answer number(its string) / boolean(its string) - XPath 1.0 4.4 / 4.3 - and not what the wrapped object would answer:
string(true()) is 'true', whose number is NaN, not 1.  For every class derived from XStringBase the num() and boolean() members it ends up with (its own or inherited) are
interpreted on strings for which the two readings differ ('true', 'false', 'Infinity', '-0', '', ' 12 ', 'abc', '0'); a wrapped XObject is a model that answers str() with the
string and num() / boolean() with values no string has.  A wrapped XToken is coupled to its string by construction (XToken::set, C02-R15) and answers number(its string)."""
from ..build import AnalysisBroken
from ..mast import Unsupported, callee, strip_casts
from ..facts import NS, short
from ..omach import OMachine, Obj, Fault
from . import common
from .c02_expr import str_to_num

STRINGS = ['true', 'false', 'Infinity', '-Infinity', '-0', '', ' 12 ', 'abc', '0', '007', 'NaN']
POISON_NUM = 424242.5


class XWorld:
    def __init__(self, facts):
        self.facts = facts
        self.depth = 0; self.calls = 0; self.max_calls = 3000
        self.S = ''

    def tables(self, q):
        return None

    def glob(self, name):
        return '' if name.split('::')[-1] == 's_emptyString' else ('GLOBAL', name.split('::')[-1])

    def allow(self, body, c):
        return '/XPath/XString' in body['file'] or '/XPath/XTokenStringAdapter' in body['file'] or body['file'].endswith(('XPath/XObject.hpp', 'XPath/XObject.cpp'))

    def destructor(self, o):
        return None

    def hook(self, m, c):
        n = c.get('n') or callee(c).split('::')[-1]
        k = c['k']
        a = c.get('args', [])
        if k == 'MCall':
            tgt = m.target_obj(c)
            if isinstance(tgt, Obj) and tgt.cls in ('wrapped', 'token'):
                if n == 'str' and len(a) <= 1:
                    return self.S
                if n == 'num':
                    return POISON_NUM if tgt.cls == 'wrapped' else str_to_num(self.S)
                if n == 'boolean':
                    return int(not self.S) if tgt.cls == 'wrapped' else int(bool(self.S))
                if n == 'stringLength':
                    return len(self.S)
                if n in ('get', 'operator->'):
                    return tgt
                raise Unsupported('wrapped object method ' + n)
            if isinstance(tgt, str) and n in ('length', 'empty', 'c_str', 'size'):
                return len(tgt) if n in ('length', 'size') else (int(not tgt) if n == 'empty' else tgt)
            if n == 'getMemoryManager':
                return 'MM'
            if n == 'str' and (strip_casts(c.get('obj')) or {}).get('k') == 'This' and len(a) <= 1 and c.get('virt'):
                # the class's own string value: the string under test (how each class stores it is C11-R7's business)
                return self.S
        if k == 'OpCall' and c.get('op') in ('->', '*') and len(a) == 1:
            v = m.ev(a[0])
            if isinstance(v, Obj) and v.cls in ('wrapped', 'token'):
                return v
        if n == 'toDouble' and a:
            v = m.ev(a[0])
            if isinstance(v, str):
                return str_to_num(v)
        if n == 'number' and a and 'XObject' in (c.get('fn') or ''):
            v = m.ev(a[0])
            if isinstance(v, str):
                return str_to_num(v)
        if n == 'boolean' and a and 'XObject' in (c.get('fn') or '') and k == 'Call':
            v = m.ev(a[0])
            if isinstance(v, str):
                return int(len(v) > 0)
            if isinstance(v, float):
                return int(v == v and v != 0)
        if n in ('length',) and k == 'Call' and a:
            v = m.ev(a[0])
            if isinstance(v, str):
                return len(v)
        return NotImplemented


def run_rule(res, facts, tier):
    r = res.rule('C11-R11', 'every class of the XStringBase family answers num() / boolean() with number() / boolean() of its string: the members each class ends up with (own or '
                 'inherited) interpreted on strings whose reading as a string differs from the value of what they may wrap (true, Infinity, -0, empty ...), a wrapped object '
                 'being a model that would answer otherwise', floor=60)
    base = NS + 'XStringBase'
    fam = [c for c in facts.K if c != base and base in facts.bases_closure(c)] if hasattr(facts, 'bases_closure') else None
    if fam is None:
        fam = []
        for c, info in facts.K.items():
            seen, st = set(), [c]
            while st:
                x = st.pop()
                for b in (facts.K.get(x) or {}).get('bases', []):
                    bn = b if isinstance(b, str) else b.get('n')
                    if bn and bn not in seen:
                        seen.add(bn); st.append(bn)
            if base in seen:
                fam.append(c)
    fam = sorted(c for c in fam if '/Tests/' not in ((facts.K.get(c) or {}).get('loc') or ''))
    if len(fam) < 4:
        raise AnalysisBroken('C11-R11: only %d classes derived from XStringBase found: %s' % (len(fam), fam))
    w = XWorld(facts)

    def resolve(cls, name, nparams):
        """the definition cls ends up with: its own or the nearest base's"""
        st = [cls]
        while st:
            x = st.pop(0)
            for a in facts.asts(short(x) + '::' + name, must=False):
                if a.get('body') is not None and a.get('cls') == x and len(a['params']) == nparams:
                    return a
            for b in (facts.K.get(x) or {}).get('bases', []):
                st.append(b if isinstance(b, str) else b.get('n'))
        return None
    for cls in fam:
        fields = {f['n']: f.get('ty', '') for f in (facts.K.get(cls) or {}).get('fields', [])}
        for getter, want in (('num', lambda s: str_to_num(s)), ('boolean', lambda s: int(len(s) > 0))):
            fn = resolve(cls, getter, 1)
            if fn is None:
                raise AnalysisBroken('C11-R11: %s::%s(context) not found' % (short(cls), getter))
            for s in STRINGS:
                w.S = s; w.calls = 0
                this = Obj(cls, {'m_cachedNumberValue': 0.0})
                for f, ty in fields.items():
                    this.fields.setdefault(f, Obj('token', {}) if 'XToken' in ty else (Obj('wrapped', {}) if 'XObjectPtr' in ty or 'XObject' in ty else (s if 'XalanDOMString' in ty or 'GetCachedString' in ty else 0)))
                site = '%s::%s() for the string %r' % (short(cls), getter, s)
                try:
                    m = OMachine(w, {}, this); m.fuel = 5000
                    got = m.run_body(fn, ['ECTX'], this)
                except Fault as f:
                    got = 'FAULT %s' % f
                except Unsupported as u:
                    raise AnalysisBroken('C11-R11: %s outside the interpreted subset: %s' % (site, u))
                exp = want(s)
                same = isinstance(got, (int, float)) and ((got != got and exp != exp) or (got == exp and (str(float(got)) == str(float(exp)))))
                if same:
                    r.ok(site, str(got))
                else:
                    r.violation('%s::%s(): not the value of the string' % (short(cls), getter),
                                '%s (defined in %s) yields %r; %s of the string is %r%s' % (site, short(fn.get('cls') or ''), got, 'number()' if getter == 'num' else 'boolean()', exp,
                                                                                            ' - the answer of the wrapped object, not of the string' if got in (POISON_NUM,) else ''), common.file_line(fn))
    return r
