"""C06-R8 — a pooled serializer starts every document from scratch.

The execution context keeps FormatterListener objects in pools (XalanObjectStackCache) and hands the same object out again: for every result tree fragment, and - after
a transformation that failed while the object was in use - in a state nobody cleaned up (endDocument() never ran, the guard that returns the object to the pool only
lowers a counter).  startDocument() is the only thing between that state and the next document.  For every pooled class that is a FormatterListener the rule computes,
from the parsed program, the members its event handlers modify (assignments, ++ / --, non-const member calls; calls on this followed three levels) and the members
startDocument() re-initialises (assignment, clear / erase / resize / assign / swap / reset) or the hand-out path sets (the setters the context calls on the object between
taking it from the pool and startDocument()).  Every modified member must be among them: "endDocument() leaves it empty" holds only for documents that end."""
import re
from ..build import AnalysisBroken
from ..mast import walk, calls, callee, strip_casts, pp
from ..facts import NS, short
from . import common

HANDLERS = ('startElement', 'endElement', 'characters', 'charactersRaw', 'entityReference', 'ignorableWhitespace', 'processingInstruction', 'comment', 'cdata', 'endDocument', 'resetDocument')
REINIT = {'clear', 'erase', 'resize', 'assign', 'swap', 'reset'}


def _member(e):
    e = strip_casts(e)
    if isinstance(e, dict) and e.get('k') == 'Member' and (e.get('obj') or {}).get('k') == 'This':
        return e.get('m')
    return None


def effects(facts, a, depth=3, seen=None):
    """(modified, reinitialised) members of this in the body of a and in what it calls on this"""
    seen = seen if seen is not None else set()
    mod, re_ = set(), set()
    if a is None or a.get('body') is None or a.get('usr') in seen:
        return mod, re_
    seen.add(a.get('usr'))
    for x in walk(a['body']):
        k = x.get('k')
        if k == 'Bin' and x.get('op', '').endswith('=') and x.get('op') not in ('==', '!=', '<=', '>='):
            m = _member(x['lhs'])
            if m:
                mod.add(m)
                if x['op'] == '=':
                    re_.add(m)
        elif k == 'Un' and x.get('op') in ('++', '--', 'post++', 'post--'):
            m = _member(x.get('e'))
            if m:
                mod.add(m)
        elif k == 'OpCall' and x.get('op') in ('=', '+=') and x.get('args'):
            m = _member(x['args'][0])
            if m:
                mod.add(m)
                if x['op'] == '=':
                    re_.add(m)
        elif k == 'MCall':
            m = _member(x.get('obj'))
            if m and not x.get('const'):
                mod.add(m)
                if x.get('n') in REINIT:
                    re_.add(m)
            o = strip_casts(x.get('obj'))
            if isinstance(o, dict) and o.get('k') == 'This' and depth > 0 and x.get('usr'):
                m2, r2 = effects(facts, facts.ast(x['usr']), depth - 1, seen)
                mod |= m2; re_ |= r2
    return mod, re_


def run_rule(res, facts, tier):
    r = res.rule('C06-R8', 'a serializer taken from a pool of the execution context starts every document from scratch: every member its event handlers modify is re-initialised by '
                 'startDocument() or set on the hand-out path - also when the previous document never ended (a failed transformation)', floor=5)
    # pooled classes: XalanObjectStackCache<T, ...> / XalanObjectCache<T, ...> members of the two execution contexts
    pooled = {}
    for ctx in ('StylesheetExecutionContextDefault', 'XPathExecutionContextDefault'):
        for f in (facts.K.get(NS + ctx) or {}).get('fields', []):
            m = re.search(r'XalanObject(?:Stack)?Cache<\s*([\w:]+)', f.get('ty') or '')
            if m:
                pooled[m.group(1).split('::')[-1]] = (ctx, f['n'])
    if len(pooled) < 3:
        raise AnalysisBroken('C06-R8: only %d pooled classes found in the execution contexts (%s)' % (len(pooled), sorted(pooled)))
    # does the pool hand out again what was in use when a run was aborted?  XalanObjectStackCache::reset() is what the context calls between runs: if it rewinds the
    # in-use counter, the objects an exception unwound past are available again, in the state the handlers left them
    rewinds = None
    for a in facts.all_asts(r'/Include/XalanObject(Stack)?Cache\.hpp'):
        if a.get('body') is not None and (a.get('fq') or '').split('::')[-1] == 'reset' and 'XalanObjectStackCache' in (a.get('cls') or ''):
            w = any((x.get('k') == 'Bin' and x.get('op') == '=' and _member(x['lhs']) == 'm_numObjectsOnStack') or
                    (x.get('k') == 'MCall' and _member(x.get('obj')) == 'm_numObjectsOnStack') for x in walk(a['body']))
            rewinds = bool(rewinds) or w
    if rewinds is None:
        raise AnalysisBroken('C06-R8: XalanObjectStackCache::reset not found')
    n = 0
    for cls, (ctx, field) in sorted(pooled.items()):
        meths = {}
        for a in facts.all_asts(r'/%s\.(cpp|hpp)' % cls):
            if a.get('body') is not None and (a.get('cls') or '').endswith('::' + cls):
                meths.setdefault((a.get('fq') or '').split('::')[-1], []).append(a)
        if 'startDocument' not in meths:
            r.ok('pool %s::%s of %s' % (ctx, field, cls), 'not a serializer: its users clear it themselves (C06-R1 looks at what the context keeps)')
            continue
        start_mod, start_re = set(), set()
        for a in meths['startDocument']:
            m2, r2 = effects(facts, a)
            start_mod |= m2; start_re |= r2
        # the hand-out path: setters the context calls on an object taken from this pool
        setters_re = set()
        called = set()
        for a in facts.all_asts(r'/%s\.(cpp|hpp)' % ctx):
            if a.get('body') is None:
                continue
            if not any(c.get('k') == 'MCall' and c.get('n') == 'get' and _member(c.get('obj')) == field for c in calls(a['body'])):
                continue
            for c in calls(a['body']):
                if c.get('k') == 'MCall' and (c.get('cls') or '').endswith('::' + cls) and c.get('n') in meths and c.get('n') not in HANDLERS and c.get('n') != 'startDocument':
                    called.add(c['n'])
        for nm in called:
            for a in meths[nm]:
                m2, r2 = effects(facts, a)
                setters_re |= r2
        for h in HANDLERS:
            for a in meths.get(h, []):
                mod, _ = effects(facts, a)
                for m in sorted(mod):
                    n += 1
                    site = '%s::%s modifies %s' % (cls, h, m)
                    if m in start_re:
                        r.ok(site, 're-initialised by startDocument()')
                    elif m in setters_re:
                        r.ok(site, 'set when the object is handed out (%s)' % ', '.join(sorted(called)))
                    elif not rewinds:
                        r.ok(site, 'not re-initialised by startDocument(); the pool never hands out again an object that was in use when a run was aborted (reset() leaves the in-use '
                             'counter alone), and a document that ends leaves the member as it found it')
                    else:
                        r.violation('%s: %s survives into the next document' % (cls, m),
                                    '%s::%s modifies %s, and startDocument() does not re-initialise it (it %s): the object comes from the pool %s::%s and is handed out again - after a '
                                    'transformation that failed before endDocument(), with whatever the handler left in it' %
                                    (cls, h, m, 'only calls non-clearing members on it' if m in start_mod else 'does not touch it', ctx, field), common.file_line(a))
    if n < 5:
        raise AnalysisBroken('C06-R8: only %d (handler, member) pairs found' % n)
    return r
