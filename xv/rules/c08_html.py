"""C08-R5 — the HTML serializer: indentation never lands next to character data.

Same clause and same method as C08-R4, for FormatterToHTML and the FormatterToXML members it inherits and calls (elements in a non-null
namespace are handed to FormatterToXML::startElement / endElement).  Events: start of a block element (div), of an inline element (b),
of a void element (br), of a namespaced element, end of the innermost open element, text, unescaped text, comment.  The element
properties come from the event, not from the table (C08-R3 decides the table).  outputLineSep / printSpace are the indentation (W)."""
from ..build import AnalysisBroken
from ..mast import walk, calls, callee, strip_casts, Unsupported, pp
from ..facts import short, NS
from . import common
from .c08_indent import World, ObjMachine, Obj

HTML_STATE = {'m_ispreserve', 'm_isprevtext', 'm_preserves', 'm_elemStack', 'm_startNewLine', 'm_doIndent', 'm_currentIndent', 'm_inBlockElem', 'm_isFirstElement', 'm_elementLevel',
              'm_isRawStack', 'm_inScriptElemStack', 'm_elementPropertiesStack', 'm_hasNamespaceStack', 'm_nextIsRaw', 'm_inCData', 'm_isScriptOrStyleElem', 'm_needToOutputDocTypeDecl',
              'm_prefixResolver', 'm_omitMetaTag'}
HTML_TEXT_FNS = {'writeCharacters', 'writeNormalizedChars', 'charactersRaw', 'cdata', 'accumDefaultEscape'}
HTML_MARKUP_FNS = ('writeParentTagEnd', 'startElement', 'endElement', 'comment', 'processingInstruction', 'processAttribute', 'endDocument')


class Props:
    def __init__(self, flags):
        self.flags = set(flags)


ELEMENTS = {'div': {'BLOCK'}, 'b': set(), 'br': {'EMPTY'}, 'NS': set()}


class HWorld(World):
    def __init__(self, facts):
        super().__init__(facts, NS + 'FormatterToHTML')
        self.state_members = HTML_STATE
        self.text_fns = HTML_TEXT_FNS
        self.markup_fns = HTML_MARKUP_FNS
        self.flag_names = {}
        for n, v in facts.enumconst.items():
            if '::XalanHTMLElementsProperties::' in n:
                self.flag_names[v] = n.split('::')[-1]

    def method(self, cls, name):
        for c in (NS + 'FormatterToHTML', NS + 'FormatterToXML'):
            a = self.facts.asts(c + '::' + name, must=False)
            if a:
                # several overloads: the caller picks by usr when it can
                return a[0]
        return None


class HMachine(ObjMachine):
    def hook(self, m, c):
        k = c['k']
        w = self.world
        n = c.get('n') or callee(c).split('::')[-1]
        if n in ('outputLineSep', 'printSpace'):
            w.tokens.append('W')
            return 0
        if n == 'doPushHasNamespace':
            v = int(self.safe_ev(c['args'][0]) == 'NS')
            self.obj.fields['m_hasNamespaceStack'].append(v)
            return v
        if k == 'Call' and n == 'find' and 'XalanHTMLElementsProperties' in (c.get('fn') or ''):
            nm = self.safe_ev(c['args'][0])
            return Props(ELEMENTS.get(nm, set()))
        if k == 'MCall':
            o = strip_casts(c.get('obj'))
            if isinstance(o, dict) and o.get('k') == 'Ref':
                try:
                    v = self.ev(o)
                except Unsupported:
                    v = None
                if isinstance(v, Props):
                    if n == 'is':
                        flag = self.safe_ev(c['args'][0])
                        return int(w.flag_names.get(flag, '?') in v.flags)
                    if n == 'null':
                        return 0
                    return 0
            # overload resolution by usr for calls on this
            if (o is None or o.get('k') == 'This') and c.get('usr') and not c.get('qual'):
                a = w.facts.ast(c['usr'])
                if a is not None and not c.get('virt'):
                    return self.call_ast(a, c, n)
        return super().hook(m, c)

    def call_ast(self, a, c, n):
        w = self.world
        if not w.touches(a):
            snap = list(w.tokens)
            try:
                return self.run_method(self.obj, a, [self.safe_ev(x) for x in c.get('args', [])], n)
            except (Unsupported, TypeError, KeyError, IndexError):
                w.tokens[:] = snap
                w.opaque_seen.add(n)
                self.emit()
                return 0
        return self.run_method(self.obj, a, [self.safe_ev(x) for x in c.get('args', [])], n)


EV = {
    'b': ('startElement', ['div', 0]),
    'i': ('startElement', ['b', 0]),
    'v': ('startElement', ['br', 0]),
    'n': ('startElement', ['NS', 0]),
    'T': ('characters', ['x', 1]),
    'R': ('characters', ['x', 1]),
    'C': ('comment', ['x']),
}
NAMES = {'b': '<div>', 'i': '<b>', 'v': '<br>', 'n': '<m:math>', 'E': 'end tag', 'T': 'text', 'R': 'unescaped text', 'C': 'comment'}


def sequences(maxlen, maxdepth):
    out = []

    def go(seq, stack):
        if len(seq) > maxlen:
            return
        if not stack and seq:
            out.append(seq)
            return
        for e in 'bivnTRCE':
            if e in 'bivn':
                if len(stack) < maxdepth:
                    go(seq + e, stack + [e])
            elif e == 'E':
                if stack:
                    go(seq + 'E', stack[:-1])
            elif stack:
                if stack[-1] == 'v':
                    continue        # a void element has no content
                go(seq + e, stack)
    go('b', ['b'])
    go('i', ['i'])
    return [s for s in out if len(s) <= maxlen]


def run(res, facts, tier):
    r = res.rule('C08-R5', 'indenting HTML serializer (FormatterToHTML with the FormatterToXML members it calls): the event handlers interpreted over every well-nested sequence of '
                 'block / inline / void / namespaced element starts, end tags, text, unescaped text and comments up to a bound; white space written by indent() is never adjacent '
                 'to character data', floor=700)
    world = HWorld(facts)
    for need in ('startElement', 'endElement', 'characters', 'comment', 'writeParentTagEnd', 'indent'):
        if world.method(world.cls, need) is None:
            raise AnalysisBroken('FormatterToHTML / FormatterToXML ::%s has no body in the parsed program' % need)
    seqs = sequences(7 if tier == 'thorough' else 6, 3)
    bad = {}
    n_ok = 0
    for seq in seqs:
        ser = Obj(world.cls, {'m_doIndent': 1, 'm_indent': 2, 'm_currentIndent': 0, 'm_startNewLine': 0, 'm_ispreserve': 0, 'm_isprevtext': 0, 'm_preserves': [], 'm_elemStack': [],
                              'm_isFirstElement': 1, 'm_elementLevel': 0, 'm_inBlockElem': 0, 'm_isRawStack': [], 'm_inScriptElemStack': [0], 'm_elementPropertiesStack': [],
                              'm_hasNamespaceStack': [], 'm_prefixResolver': 1, 'm_omitMetaTag': 1, 'm_needToOutputDocTypeDecl': 0, 'm_inCData': 0, 'm_nextIsRaw': 0,
                              'm_isScriptOrStyleElem': 0, 'm_shouldFlush': 0, 'm_spaceBeforeClose': 0})
        world.tokens = []
        world.kind = ['M']
        marks = []
        stack = []
        try:
            for ev in seq:
                start = len(world.tokens)
                if ev == 'E':
                    nm = {'b': 'div', 'i': 'b', 'v': 'br', 'n': 'NS'}[stack.pop()]
                    a = facts.asts(NS + 'FormatterToHTML::endElement')[0]
                    HMachine(world, ser, {}, 'endElement').run_method(ser, a, [nm], 'endElement')
                else:
                    fn, args = EV[ev]
                    if ev in 'bivn':
                        stack.append(ev)
                    if ev == 'R':
                        ser.fields['m_nextIsRaw'] = 1
                    cands = facts.asts(NS + 'FormatterToHTML::' + fn, must=False) or facts.asts(NS + 'FormatterToXML::' + fn, must=False)
                    cands = [x for x in cands if len(x['params']) == len(args)] or cands
                    HMachine(world, ser, {}, fn).run_method(ser, cands[0], list(args), fn)
                marks.append((ev, start))
        except Unsupported as u:
            raise AnalysisBroken('FormatterToHTML handlers outside the interpreted subset on %s: %s' % (seq, u))
        toks = world.tokens
        hit = None
        for i in range(len(toks) - 1):
            if {toks[i], toks[i + 1]} == {'W', 'T'}:
                hit = i
                break
        if hit is None:
            n_ok += 1
            r.ok('html %s' % seq, ''.join(toks))
        else:
            evi = max(j for j, (e, st) in enumerate(marks) if st <= hit + 1)
            key = (NAMES.get(seq[evi - 1], '') if evi else 'start', NAMES[seq[evi]])
            if key not in bad:
                bad[key] = (seq, ''.join(toks))
            r.instances += 1
    for (prev, cur), (seq, toks) in sorted(bad.items()):
        r.instances -= 1
        r.violation('HTML serializer, indenting: %s followed by %s' % (prev, cur),
                    'indent white space is written next to character data (events %s -> output %s; M markup, T character data, W indentation): the white space becomes part of the text'
                    % (' '.join(NAMES[e] for e in seq), toks), 'src/xalanc/XMLSupport/FormatterToHTML.cpp')
    r.note('opaque (do not reach the indent state): %s' % sorted(world.opaque_seen))
    return r
