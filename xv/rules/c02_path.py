"""C02-R18 — location paths, compiled and evaluated, by interpretation.

Predicate-free location paths of up to three steps - abbreviated (a, *, @x, text(), node(), ., ..) and with explicit axes (ancestor, ancestor-or-self, descendant,
descendant-or-self, following, following-sibling, preceding, preceding-sibling, parent, self, child, attribute), separated by / and //, relative, rooted and //-rooted -
- and steps with literal position predicates such as a[1], ancestor::*[2], *[2][1] - are compiled by the interpreted expression parser into a real op-code map (as in C09-R9) and evaluated by the interpreted XPath::step with the twelve axis functions and
NodeTester, from every node of a small tree.  The node lists are modelled by their contract (ordered merge, swap, reverse, flags: C12-R5..R7 decide the implementation).
The result must be the node-set XPath 1.0 2 defines, delivered in document order."""
import itertools
from ..build import AnalysisBroken
from ..mast import Unsupported, callee, strip_casts, pp
from ..facts import NS
from ..omach import OMachine, Obj, Vec, It, Fault
from . import common
from .c09_match import MWorld, PWorld, NList, Tok, Reject, tree
from .c12_order import TNode
from .c02_axes import spec_axis


ABBREV = [['a'], ['b'], ['*'], ['@', 'x'], ['@', '*'], ['text', '(', ')'], ['node', '(', ')'], ['.'], ['..']]
AXIS_STEPS = [[ax, '::', t] for ax in ('ancestor', 'ancestor-or-self', 'descendant', 'descendant-or-self', 'following', 'following-sibling', 'preceding', 'preceding-sibling',
                                       'parent', 'self', 'child') for t in ('a', '*')] + \
             [['attribute', '::', 'x'], ['attribute', '::', '*'], ['following', '::', 'node', '(', ')'], ['preceding', '::', 'text', '(', ')'], ['self', '::', 'node', '(', ')'],
              ['ancestor-or-self', '::', 'node', '(', ')'], ['descendant-or-self', '::', 'node', '(', ')']]


INDEXED = [['a', '[', '1', ']'], ['*', '[', '2', ']'], ['node', '(', ')', '[', '3', ']'], ['ancestor', '::', '*', '[', '1', ']'], ['ancestor', '::', '*', '[', '2', ']'],
           ['preceding-sibling', '::', '*', '[', '1', ']'], ['following-sibling', '::', 'node', '(', ')', '[', '2', ']'], ['preceding', '::', '*', '[', '2', ']'],
           ['following', '::', '*', '[', '1', ']'], ['descendant', '::', 'b', '[', '2', ']'], ['@', '*', '[', '2', ']'], ['a', '[', '5', ']'], ['*', '[', '1', ']', '[', '1', ']'],
           ['*', '[', '2', ']', '[', '1', ']'], ['*', '[', '1', ']', '[', '2', ']']]
REVERSE = ('ancestor', 'ancestor-or-self', 'preceding', 'preceding-sibling')


def split_index(step):
    """step tokens -> (step without predicates, [indexes])"""
    idx = []
    st = list(step)
    while len(st) >= 3 and st[-1] == ']' and st[-3] == '[':
        idx.insert(0, int(st[-2]))
        st = st[:-3]
    return st, idx


def step_spec(step):
    """(axis, test) of a step"""
    step = split_index(step)[0]
    if step == ['.']:
        return 'self', 'node'
    if step == ['..']:
        return 'parent', 'node'
    if step[0] == '@':
        return 'attribute', ('*' if step[1] == '*' else step[1])
    if len(step) >= 2 and step[1] == '::':
        return step[0], step_spec(step[2:])[1]
    if step == ['text', '(', ')']:
        return 'child', 'text'
    if step == ['node', '(', ')']:
        return 'child', 'node'
    return 'child', step[0]


def test_ok(axis, test, n):
    if test == 'node':
        return True
    if test == 'text':
        return n.kind == 'text'
    principal = 'attr' if axis == 'attribute' else 'elem'
    if n.kind != principal:
        return False
    return test == '*' or n.local == test


def ref_eval(lead, steps, ctx, doc, allnodes):
    cur = [ctx]
    if lead in ('/', '//'):
        cur = [doc]
    seq = list(steps)
    if lead == '//':
        seq = [('/', ['descendant-or-self', '::', 'node', '(', ')'])] + [('/', seq[0][1])] + seq[1:]
    out = cur
    first = True
    for sep, st in seq:
        if sep == '//' and not first:
            nxt = []
            for n in out:
                for x in spec_axis('descendant-or-self', n, allnodes):
                    if x not in nxt:
                        nxt.append(x)
            out = nxt
        first = False
        axis, test = step_spec(st)
        idx = split_index(st)[1]
        nxt = []
        for n in out:
            cand = [x for x in spec_axis(axis, n, allnodes) if test_ok(axis, test, x)]
            cand.sort(key=lambda x: x.order, reverse=axis in REVERSE)       # proximity order of the axis
            for i in idx:
                cand = [cand[i - 1]] if 1 <= i <= len(cand) else []
            for x in cand:
                if x not in nxt:
                    nxt.append(x)
        out = nxt
    return sorted(out, key=lambda x: x.order)


def paths(tier):
    deep = tier == 'thorough'
    out = []
    one = ABBREV + AXIS_STEPS
    for st in one:
        for lead in ('', '/', '//'):
            if lead and st in (['.'], ['..']):
                continue
            out.append((lead, [(None, st)]))
    for st in INDEXED:
        out.append(('', [(None, st)]))
        for s1 in (['*'], ['a'], ['node', '(', ')'], ['descendant', '::', '*']):
            for sep in ('/', '//'):
                out.append(('', [(None, s1), (sep, st)]))
                out.append(('//', [(None, st), (sep, s1)]))
    two_l = ABBREV[:7] + AXIS_STEPS[::3]
    two_r = ABBREV + AXIS_STEPS[::2]
    for s1, s2 in itertools.product(two_l, two_r):
        for sep in ('/', '//'):
            for lead in (('', '/', '//') if deep else ('', '//')):
                out.append((lead, [(None, s1), (sep, s2)]))
    three = ABBREV[:7] + [['..'], ['ancestor', '::', '*'], ['following-sibling', '::', '*'], ['preceding', '::', 'a'], ['descendant', '::', 'b']]
    cnt = 0
    for s1, s2, s3 in itertools.product(three[:4], three, three):
        for se1, se2 in itertools.product(('/', '//'), repeat=2):
            cnt += 1
            if deep or cnt % 11 == 0:
                out.append(('', [(None, s1), (se1, s2), (se2, s3)]))
    return out


def tokens_of(lead, steps):
    t = {'': [], '/': ['/'], '//': ['/', '/']}[lead][:]
    for sep, st in steps:
        if sep == '/':
            t.append('/')
        elif sep == '//':
            t += ['/', '/']
        t += st
    return t


def run_rule(res, facts, tier):
    r = res.rule('C02-R18', 'location paths end to end by interpretation: predicate-free paths of up to 3 steps (abbreviated and explicit axes, / and //, relative / rooted / //-rooted) '
                 'compiled by the interpreted parser into a real op-code map and evaluated by the interpreted XPath::step with the axis functions and NodeTester, from every '
                 'node of a small tree: the node-set is the one XPath 1.0 2 defines, in document order', floor=3000)
    w = PWorld(facts)

    def one(name, pred=lambda a: True):
        c = [a for a in facts.asts(name, must=False) if a.get('body') is not None and pred(a)]
        if len(c) != 1:
            raise AnalysisBroken('%s: %d bodies' % (name, len(c)))
        return c[0]
    init = one('XPathProcessorImpl::initXPath')
    stepfn = one('XPath::step', lambda a: len(a['params']) == 4)
    LOC = facts.enumconst.get(NS + 'XPathExpression::eOP_LOCATIONPATH')
    doc, nodes = tree()
    w.doc = doc
    allpaths = paths(tier)
    if tier != 'thorough':
        allpaths = [p for i, p in enumerate(allpaths) if len(p[1]) == 1 or i % 12 == 0 or (any('[' in st for _, st in p[1]) and i % 3 == 0)]
    uniq, seen = [], set()
    for lead, steps in allpaths:
        toks = tokens_of(lead, steps)
        if tuple(toks) not in seen:
            seen.add(tuple(toks))
            uniq.append((lead, steps))

    def work(part):
        found = {}
        inst = 0
        viol = []
        for lead, steps in part:
            toks = tokens_of(lead, steps)
            ptxt = ''.join(toks)
            expr = Obj(NS + 'XPathExpression', {'m_opMap': Vec([], 'ops'), 'm_lastOpCodeIndex': 0, 'm_tokenQueue': Vec([], 'tokens'), 'm_currentPosition': 0,
                                                'm_currentPattern': '', 'm_numberLiteralValues': Vec([])})
            xp = Obj(NS + 'XPath', {'m_expression': expr, 'm_locator': 0, 'm_inStylesheet': 1})
            parser = Obj(NS + 'XPathProcessorImpl', {'m_token': '', 'm_tokenChar': 0, 'm_xpath': 0, 'm_constructionContext': 0, 'm_expression': 0, 'm_prefixResolver': 0,
                                                     'm_requireLiterals': 0, 'm_isMatchPattern': 0, 'm_positionPredicateStack': Vec([]), 'm_namespaces': Vec([]), 'm_locator': 0,
                                                     'm_allowVariableReferences': 1, 'm_allowKeyFunction': 1})
            w.calls = 0
            w.pending = list(toks)
            try:
                m = OMachine(w, {}, parser)
                m.fuel = 20000
                m.run_body(init, [xp, 'CCTX', ptxt, 'RES', 0, 1, 1], parser)
            except Reject as x:
                raise AnalysisBroken('the expression parser rejects the valid path "%s" (%s)' % (ptxt, x))
            except Fault as f:
                viol.append(('compiling ' + ptxt, 'the parser misbehaves: %s' % f, common.file_line(init))); continue
            except Unsupported as u:
                raise AnalysisBroken('compilation outside the interpreted subset on "%s": %s' % (ptxt, u))
            ops = expr.fields['m_opMap']
            if len(ops.items) < 4 or ops.items[2] != LOC:
                raise AnalysisBroken('"%s" did not compile to a location path: %s' % (ptxt, ops.items[:6]))
            for ctx in nodes:
                w.calls = 0
                out = NList()
                try:
                    mm = OMachine(w, {}, xp)
                    mm.fuel = 40000
                    mm.run_body(stepfn, ['ECTX', ctx, It(ops, 4), out], xp)
                    got = list(out.items)
                    flag = out.flag
                except Fault as f:
                    got, flag = 'FAULT: %s' % f, ''
                except Reject as x:
                    got, flag = 'ERROR: %s' % x, ''
                except Unsupported as u:
                    raise AnalysisBroken('evaluation outside the interpreted subset on "%s" from %s: %s' % (ptxt, ctx.name, u))
                want = ref_eval(lead, steps, ctx, doc, nodes)
                inst += 1
                if got == want and (flag == 'document' or len(got) == 0):
                    continue
                shape = ' '.join('%s%s%s' % (sp or '', step_spec(st)[0], '[n]' * len(split_index(st)[1])) for sp, st in steps)
                key = (lead or 'rel', shape)
                if key not in found:
                    found[key] = (ptxt, ctx.name, repr(got), repr(want), flag)
        return inst, found, viol
    from ..report import fork_map
    nparts = 6 if tier == 'thorough' else 4
    found = {}
    for inst, fnd, viol in fork_map(work, [uniq[i::nparts] for i in range(nparts)]):
        r.instances += inst
        for site, what, loc in viol:
            r.violation(site, what, loc)
        for k2, v in fnd.items():
            found.setdefault(k2, v)
    for (lead, shape), (ptxt, ctx, got, want, flag) in sorted(found.items()):
        r.instances -= 1
        r.violation('path shape %s %s' % (lead, shape), '%s from %s delivers %s%s; XPath 1.0: %s' % (ptxt, ctx, got, ' (flagged %s)' % flag if flag != 'document' else '', want),
                    common.file_line(stepfn))
    r.note('%d paths x %d context nodes' % (len(seen), len(nodes)))
    return r
