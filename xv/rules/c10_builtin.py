"""C10-R10 — the built-in template rules.

(a) StylesheetRoot::initDefaultRule is interpreted over an object model of stylesheet elements (kind, attributes, children, flags); ElemTemplateElement::
    setDefaultTemplate is interpreted from its body.  The three rules must come out as XSLT 1.0 5.8 has them: match="*" and match="/" with one
    xsl:apply-templates child that has no attribute and carries the built-in mark (the mark is what makes it continue in the current mode), and
    match="text()|@*" with one xsl:value-of select=".".
(b) ElemApplyTemplates pushes / pops its own mode only when it does not carry the built-in mark.
(c) the node kind -> built-in rule table in ElemTemplateElement: element and fragment -> element rule, text / CDATA / attribute -> text rule,
    document -> root rule, every other kind -> none."""
import itertools
from ..build import AnalysisBroken
from ..mast import Machine, Unsupported, walk, calls, callee, strip_casts, pp, CFG, switch_cases
from ..facts import NS, short
from . import common


class Elem:
    def __init__(self, kind, attrs):
        self.kind, self.attrs = kind, attrs
        self.children = []
        self.fields = {'m_flags': 0}
        self.parent = None

    def sibling(self):
        if self.parent is None:
            return 0
        i = self.parent.children.index(self)
        return self.parent.children[i + 1] if i + 1 < len(self.parent.children) else 0


class AttrList:
    def __init__(self):
        self.items = []


class BMachine(Machine):
    def __init__(self, world, env, this=None):
        super().__init__(env, call_hook=world.hook, global_hook=world.glob)
        self.world, self.this = world, this
        self.fuel = 400

    def ev(self, e):
        k = e['k']
        if k == 'Member':
            o = strip_casts(e.get('obj')) if e.get('obj') is not None else None
            if o is None or o.get('k') == 'This':
                tgt = self.this
            else:
                tgt = self.ev(e['obj'])
            if isinstance(tgt, Elem):
                m = e['m']
                if m == '':
                    return tgt          # anonymous union: its members are the object's
                if m == 'm_firstChild':
                    return tgt.children[0] if tgt.children else 0
                if m == 'm_nextSibling':
                    return tgt.sibling()
                if m in tgt.fields:
                    return tgt.fields[m]
                if 'cv' in e:
                    return e['cv']
                raise Unsupported('field ' + m)
        if k == 'Un' and e['op'] == '*':
            return self.ev(e['e'])
        if k == 'This':
            return self.this
        if k == 'Bin' and e['op'] in ('==', '!='):
            l, r = self.ev(e['lhs']), self.ev(e['rhs'])
            if isinstance(l, Elem) or isinstance(r, Elem):
                return int((l is r) == (e['op'] == '=='))
            return int((l == r) == (e['op'] == '=='))
        if k == 'Bin' and e['op'] == '|=':
            t = strip_casts(e['lhs'])
            v = self.ev(t) | self.ev(e['rhs'])
            self.assign(t, v)
            return v
        if k == 'Cast' and e.get('ck') == 'PointerToBoolean':
            v = self.ev(e['e'])
            return int(isinstance(v, Elem) or bool(v))
        return super().ev(e)

    def assign(self, t, v):
        if t.get('k') == 'Member':
            o = strip_casts(t.get('obj')) if t.get('obj') is not None else None
            tgt = self.this if (o is None or o.get('k') == 'This') else self.ev(t['obj'])
            if isinstance(tgt, Elem):
                tgt.fields[t['m']] = v
                return
        super().assign(t, v)


class World:
    def __init__(self, facts):
        self.facts = facts
        self.kinds = {v: n.split('::')[-1] for n, v in facts.enumconst.items() if '::StylesheetConstructionContext::ELEMNAME_' in n}
        self.depth = 0

    def glob(self, name):
        return ('CONST', name.replace(NS, ''))

    def hook(self, m, c):
        k = c['k']
        n = c.get('n') or callee(c).split('::')[-1]
        cls = c.get('cls') or ''
        if n == '__assert_fail':
            raise Unsupported('assertion fails: ' + (pp(c['args'][0])[:80] if c.get('args') else ''))
        if k == 'Ctor':
            if 'AttributeListImpl' in cls:
                return AttrList()
            if len(c.get('args', [])) == 1:
                return m.ev(c['args'][0])
            return 'OBJ'
        if k == 'MCall':
            if n in ('c_str', 'getMemoryManager'):
                return m.ev(c['obj']) if n == 'c_str' else 'MM'
            ov = m.ev(c['obj']) if c.get('obj') is not None and strip_casts(c['obj']).get('k') != 'This' else m.this
            if isinstance(ov, AttrList):
                if n == 'addAttribute':
                    a = [m.ev(x) for x in c['args']]
                    ov.items.append((a[0], a[2]))
                    return 1
                if n == 'clear':
                    ov.items = []
                    return 0
            if n == 'createElement':
                a = [m.ev(x) for x in c['args']]
                kind = self.kinds.get(a[0], a[0])
                at = a[2]
                return Elem(kind, list(at.items) if isinstance(at, AttrList) else at)
            if isinstance(ov, Elem):
                if n == 'appendChildElem':
                    ch = m.ev(c['args'][0])
                    if not isinstance(ch, Elem):
                        raise Unsupported('appendChildElem of ' + repr(ch))
                    ov.children.append(ch)
                    ch.parent = ov
                    return ch
                a = self.facts.ast(c['usr']) if c.get('usr') else None
                if a is None or a.get('body') is None:
                    # virtual: take the base implementation by name
                    cands = self.facts.asts('ElemTemplateElement::' + n, must=False)
                    a = cands[0] if len(cands) == 1 else None
                if a is not None and a.get('body') is not None:
                    self.depth += 1
                    if self.depth > 12:
                        raise Unsupported('call depth')
                    try:
                        sub = BMachine(self, {p['id']: m.ev(x) for p, x in zip(a['params'], c.get('args', []))}, this=ov)
                        return sub.call(a['body'])
                    finally:
                        self.depth -= 1
        return NotImplemented


def const_name(v):
    return v[1].split('::')[-1] if isinstance(v, tuple) and v[0] == 'CONST' else repr(v)


def run_rule(res, facts, tier):
    r = res.rule('C10-R10', 'built-in template rules: StylesheetRoot::initDefaultRule and ElemTemplateElement::setDefaultTemplate interpreted - the element and root rules hold one '
                 'attribute-less xsl:apply-templates that carries the built-in mark (so it continues in the current mode), the text rule one xsl:value-of select="."; '
                 'ElemApplyTemplates pushes its own mode only without the mark; node kinds map to the rule XSLT 1.0 5.8 gives them', floor=11)
    a = facts.asts('StylesheetRoot::initDefaultRule')
    if len(a) != 1:
        raise AnalysisBroken('StylesheetRoot::initDefaultRule: %d bodies' % len(a))
    a = a[0]
    flag = facts.enumconst.get(NS + 'ElemTemplateElement::eDefaultTemplate')
    if flag is None:
        raise AnalysisBroken('ElemTemplateElement::eDefaultTemplate not found')
    w = World(facts)
    root = Elem('STYLESHEET_ROOT', [])
    root.fields.update({'m_defaultRule': 0, 'm_defaultTextRule': 0, 'm_defaultRootRule': 0})
    m = BMachine(w, {a['params'][0]['id']: 'CCTX'}, this=root)
    try:
        m.call(a['body'])
    except Unsupported as u:
        raise AnalysisBroken('initDefaultRule outside the interpreted subset: %s' % u)
    want = {'m_defaultRule': ('PSEUDONAME_ANY', 'ELEMNAME_APPLY_TEMPLATES', []),
            'm_defaultRootRule': ('PSEUDONAME_ROOT', 'ELEMNAME_APPLY_TEMPLATES', []),
            'm_defaultTextRule': ('ATTRVAL_DEFAULT_TEXT_RULE', 'ELEMNAME_VALUE_OF', [('ATTRNAME_SELECT', 'ATTRVAL_THIS')])}
    loc = common.file_line(a)
    for fld, (match, ckind, cattrs) in want.items():
        t = root.fields.get(fld)
        site = 'built-in rule ' + fld
        if not isinstance(t, Elem):
            r.violation(site, 'the rule is not created', loc); continue
        probs = []
        if t.kind != 'ELEMNAME_TEMPLATE':
            probs.append('is a %s' % t.kind)
        at = [(const_name(n), const_name(v)) for n, v in t.attrs]
        if at != [('ATTRNAME_MATCH', match)]:
            probs.append('attributes %s, expected match=%s' % (at, match))
        if not (t.fields['m_flags'] & flag):
            probs.append('does not carry the built-in mark')
        if len(t.children) != 1:
            probs.append('%d children' % len(t.children))
        else:
            ch = t.children[0]
            cat = [(const_name(n), const_name(v)) for n, v in ch.attrs]
            if ch.kind != ckind:
                probs.append('child is a %s, expected %s' % (ch.kind, ckind))
            if cat != cattrs:
                probs.append('child attributes %s, expected %s' % (cat, cattrs))
            if ckind == 'ELEMNAME_APPLY_TEMPLATES' and not (ch.fields['m_flags'] & flag):
                probs.append('the xsl:apply-templates child does not carry the built-in mark: it switches to its own (default) mode instead of continuing in the current mode')
        if probs:
            r.violation(site, '; '.join(probs), loc)
        else:
            r.ok(site, '%s -> %s' % (match, ckind))
    # (b) mode push / pop only without the mark
    n_b = 0
    for fn in ('ElemApplyTemplates::startElement', 'ElemApplyTemplates::endElement', 'ElemApplyTemplates::selectAndSortChildren', 'ElemApplyTemplates::execute',
               'ElemApplyTemplates::transformChild'):
        for b in facts.asts(fn, must=False):
            if b.get('body') is None:
                continue
            cfg = CFG(b)
            mc = common.must_conds(cfg)
            for nm in ('pushCurrentMode', 'popCurrentMode'):
                for node, call in common.find_call_nodes(cfg, nm):
                    n_b += 1
                    ok = any(common.cond_is_call(atom, 'isDefaultTemplate', br, False) for atom, br in mc.get(node.id, []))
                    site = '%s: %s' % (fn, nm)
                    if ok:
                        r.ok(site, 'only when isDefaultTemplate() is false')
                    else:
                        r.violation(site, 'the mode of the xsl:apply-templates element is %s also when the element is the body of a built-in rule: the built-in rule leaves the current mode'
                                    % ('pushed' if nm.startswith('push') else 'popped'), common.file_line(b, call))
    if n_b < 2:
        raise AnalysisBroken('ElemApplyTemplates: %d pushCurrentMode / popCurrentMode sites (at least 2 expected)' % n_b)
    # (c) node kind -> built-in rule
    WANT = {'ELEMENT_NODE': 'getDefaultRule', 'DOCUMENT_FRAGMENT_NODE': 'getDefaultRule', 'TEXT_NODE': 'getDefaultTextRule', 'CDATA_SECTION_NODE': 'getDefaultTextRule',
            'ATTRIBUTE_NODE': 'getDefaultTextRule', 'DOCUMENT_NODE': 'getDefaultRootRule'}
    n_c = 0
    for b in facts.all_asts(r'/XSLT/ElemTemplateElement\.cpp'):
        if b.get('body') is None:
            continue
        for sw in walk(b['body']):
            if sw.get('k') != 'Switch':
                continue
            groups = switch_cases(sw)
            table = {}
            relevant = False
            for g in groups:
                got = [c.get('n') for st in g['stmts'] for c in calls(st) if (c.get('n') or '').startswith('getDefault') and c['n'].endswith('Rule')]
                assigns = [x for st in g['stmts'] for x in walk(st) if x.get('k') == 'Bin' and x['op'] == '=' and any((c.get('n') or '').startswith('getDefault') for c in calls(x['rhs']))]
                if assigns:
                    relevant = True
                for l in g['labels']:
                    name = 'default' if l is None else (strip_casts(l).get('n') or pp(l))
                    table[name] = got[0] if assigns and got else None
            if not relevant:
                continue
            n_c += 1
            fname = short(facts.sig(b['usr'])) if b.get('usr') in facts.F else 'ElemTemplateElement'
            for kind, rule in WANT.items():
                site = '%s: built-in rule for %s' % (fname.split('(')[0], kind)
                if table.get(kind) == rule:
                    r.ok(site, rule)
                else:
                    r.violation(site, 'a %s without a matching rule gets %s, XSLT 1.0 5.8 requires %s' % (kind, table.get(kind) or 'no rule', rule), common.file_line(b, sw))
            for kind, rule in table.items():
                if kind not in WANT and rule is not None:
                    r.violation('%s: built-in rule for %s' % (fname.split('(')[0], kind), 'a %s without a matching rule gets %s, XSLT 1.0 5.8 gives it no rule' % (kind, rule), common.file_line(b, sw))
    if n_c < 1:
        raise AnalysisBroken('no node kind -> built-in rule switch found in ElemTemplateElement.cpp')
    return r


# ------------------------------------------------------------------------------------------------------------------ C10-R13 / C01-R13: no match -> built-in rule, whoever asks
def run_nomatch_rule(res, facts, tier, rid='C10-R13'):
    """XSLT 1.0 5.8: the built-in rules are treated as if they were imported implicitly before the stylesheet, so they are what a node gets when no rule matches -
    for xsl:apply-templates and for xsl:apply-imports alike.  ElemTemplateElement::findTemplateToTransformChild is interpreted for both instructions, every node kind,
    and findTemplate answering a rule or nothing."""
    from ..omach import OMachine, Obj, Vec, Fault
    from ..mast import Unsupported
    r = res.rule(rid, 'a node for which findTemplate finds no rule is processed by the built-in rule of its kind, for xsl:apply-templates and xsl:apply-imports alike: '
                 'ElemTemplateElement::findTemplateToTransformChild interpreted for both instructions x element / fragment / text / CDATA / attribute / document / comment / '
                 'processing instruction x (a rule matches, none does)', floor=30)
    cands = [a for a in facts.asts('ElemTemplateElement::findTemplateToTransformChild', must=False) if a.get('body') is not None and len(a['params']) == 5]
    if len(cands) != 1:
        raise AnalysisBroken('ElemTemplateElement::findTemplateToTransformChild(5 parameters): %d bodies (the build uses the iterative engine)' % len(cands))
    fn = cands[0]
    T = {k: facts.enumconst.get(NS + 'XalanNode::' + k) for k in ('ELEMENT_NODE', 'DOCUMENT_FRAGMENT_NODE', 'TEXT_NODE', 'CDATA_SECTION_NODE', 'ATTRIBUTE_NODE', 'DOCUMENT_NODE',
                                                                    'COMMENT_NODE', 'PROCESSING_INSTRUCTION_NODE')}
    TOK = {k: facts.enumconst.get(NS + 'StylesheetConstructionContext::' + k) for k in ('ELEMNAME_APPLY_TEMPLATES', 'ELEMNAME_APPLY_IMPORTS')}
    if None in T.values() or None in TOK.values():
        raise AnalysisBroken('node type / element token constants not found')

    class W:
        construct_objects = False

        def __init__(self):
            self.facts = facts; self.depth = 0; self.calls = 0; self.max_calls = 2000
            self.found = 0; self.token = 0; self.done = []

        def tables(self, q):
            return None

        def glob(self, name):
            return ('GLOBAL', name.split('::')[-1])

        def allow(self, body, c):
            return False

        def destructor(self, o):
            return None

        def hook(self, m, c):
            k = c['k']
            n = c.get('n') or callee(c).split('::')[-1]
            if k == 'MCall':
                tgt = m.target_obj(c)
                if n == 'getXSLToken':
                    return self.token
                if n == 'getStylesheet':
                    return 'SHEET'
                if n == 'getStylesheetRoot':
                    return 'ROOT'
                if tgt == 'ROOT' and n in ('getDefaultRule', 'getDefaultTextRule', 'getDefaultRootRule'):
                    return {'getDefaultRule': 'ELEMENT-RULE', 'getDefaultTextRule': 'TEXT-RULE', 'getDefaultRootRule': 'ROOT-RULE'}[n]
                if n == 'findTemplate':
                    return self.found
                if tgt == 'ECTX':
                    if n == 'getCurrentTemplate':
                        return 'CURRENT'
                    if n == 'getCurrentMode':
                        return 'MODE'
                    if n == 'getTraceListeners':
                        return 0
                    if n == 'cloneToResultTree':
                        self.done.append('text copied'); return 0
                    if n == 'characters':
                        self.done.append('value written'); return 0
                    raise Unsupported('execution context method ' + n)
                if tgt == 'NODE':
                    if n == 'getNodeValue':
                        return 'v'
                    if n == 'getNodeType':
                        return self.ntype
                if isinstance(tgt, str) and n in ('length', 'c_str'):
                    return len(tgt) if n == 'length' else tgt
                if n == 'getLocator':
                    return 0
            if k == 'Call' and n == 'isNamespaceDeclaration':
                return 0
            if k == 'OpCall' and c.get('op') in ('*', '->') and len(c['args']) == 1:
                return m.ev(c['args'][0])
            return NotImplemented
    w = W()
    WANT = {'ELEMENT_NODE': 'ELEMENT-RULE', 'DOCUMENT_FRAGMENT_NODE': 'ELEMENT-RULE', 'DOCUMENT_NODE': 'ROOT-RULE', 'TEXT_NODE': 'text copied', 'CDATA_SECTION_NODE': 'text copied',
            'ATTRIBUTE_NODE': 'value written', 'COMMENT_NODE': 'nothing', 'PROCESSING_INSTRUCTION_NODE': 'nothing'}
    for tokname, kind, found in itertools.product(TOK, T, (0, 'MATCHED-RULE')):
        w.token, w.found, w.done, w.calls, w.ntype = TOK[tokname], found, [], 0, T[kind]
        this = Obj(NS + 'ElemTemplateElement', {})
        site = '%s, %s, %s' % ('xsl:apply-imports' if tokname.endswith('IMPORTS') else 'xsl:apply-templates', kind.replace('_NODE', '').lower().replace('_', ' '),
                               'a rule matches' if found else 'no rule matches')
        try:
            m = OMachine(w, {}, this)
            m.fuel = 4000
            ret = m.run_body(fn, ['ECTX', Obj('instr', {}), 0, 'NODE', T[kind]], this)
        except Fault as f:
            r.violation(site, 'the code misbehaves: %s' % f, common.file_line(fn)); continue
        except Unsupported as u:
            raise AnalysisBroken('findTemplateToTransformChild outside the interpreted subset (%s): %s' % (site, u))
        got = ret if ret not in (0, None) else (w.done[0] if w.done else 'nothing')
        want = 'MATCHED-RULE' if found else WANT[kind]
        if got == want:
            r.ok(site, str(got))
        else:
            r.violation('no matching rule: %s' % site if not found else site, 'the node is processed by %s, XSLT 1.0 5.8 requires %s' %
                        (got if got != 'nothing' else 'nothing at all', want if want != 'nothing' else 'nothing'), common.file_line(fn))
    return r


def run_c01_nomatch_rule(res, facts, tier):
    return run_nomatch_rule(res, facts, tier, 'C01-R13')
