"""C07 — compiled stylesheets and parsed sources can be shared by concurrent threads: after construction nobody writes them.
Effect analysis over the call graph below the per-thread phase root, with cut sets whose side conditions are checked (DESIGN.md §3)."""
import collections, re
from ..build import AnalysisBroken
from ..mast import walk, calls, callee, strip_casts, pp
from ..facts import short, NS
from . import common

CUT_CLASSES = {'StylesheetHandler': 'compile-time SAX handler (it is a FormatterListener, so CHA alone links "execute" to "compile"); no object of it is created during execution'}
FRESH_ENTRY = {'XPathProcessorImpl::initXPath', 'XPathProcessorImpl::initMatchPattern'}
SHARED_SEED = ['StylesheetRoot', 'Stylesheet', 'ElemTemplateElement', 'XPath', 'XPathExpression', 'XToken', 'AVT', 'AVTPart', 'NamespacesHandler', 'NamespacesHandler::Namespace',
               'NamespacesHandler::NamespaceExtended', 'NamespacesHandler::PrefixChecker', 'KeyDeclaration', 'XalanMatchPatternData', 'XalanSpaceNodeTester', 'XalanDecimalFormatSymbols', 'ExtensionNSHandler',
               'ExtensionFunctionHandler', 'NameSpace']
# member types of shared classes that need no entry of their own
VALUE_OK = {'XalanDOMString': 'value', 'XalanQName': 'immutable name', 'XalanQNameByReference': 'value', 'XalanQNameByValue': 'value', 'ElemTemplateElement::LocatorProxy': 'read-only proxy',
            'XObjectPtr': 'reference-counted handle; ElemVariable::m_value is written only while compiling (checked as a field write)', 'XalanNode': 'stylesheet DOM position, not owned',
            'XPath::NodeTester': 'base of XalanSpaceNodeTester', 'PrefixResolver': 'interface', 'XObject': 'base of XToken', 'XalanReferenceCountedObject': 'base of XObject',
            'XPathExecutionContext': 'NodeTester back pointer set per evaluation on per-thread testers only', 'XalanLocator': 'interface',
            'ExecutionContext': 'not shared', 'XalanCollationServices': 'enum scope', 'FormatterListener': 'enum scope', 'Function': 'extension function object, cloned per table',
            'XalanSet': 'container', 'XalanMap': 'container', 'XalanVector': 'container', 'XalanDeque': 'container', 'XalanMapIterator': 'container iterator',
            'XalanMapConstIteratorTraits': 'container iterator', 'ConstructWithMemoryManagerTraits': 'container trait', 'XalanDequeIterator': 'container iterator'}
# accepted writers of static storage reachable from the phase root, one reason each
STATIC_OK = {
    'std::cerr': 'external stream object (C++ library guarantees data-race freedom for concurrent formatted output)',
    'std::cout': 'external stream object',
    'xercesc_3_2::XMLPlatformUtils::fgTransService': 'Xerces transcoding service: makeNewTranscoderFor is documented thread-safe after XMLPlatformUtils::Initialize',
    'xalanc_1_12::StylesheetExecutionContextDefault::FormatterToTextDOMString::s_dummyString':
        'bound as a placeholder target in the constructor and replaced by setDOMString() before any write; uses the dummy memory manager, so a write would fail immediately',
}
CAST_OK = {
    'XPathFactoryDefault::doReturnObject': 'an XPath created at run time is handed back to the per-thread factory that created it, to be destroyed',
    'XPathFactoryBlock::doReturnObject': 'an XPath created at run time is handed back to the per-thread factory that created it, to be destroyed',
}
PROCESS_WIDE = {
    'xalanc_1_12::XPath::s_functions': r'(XPath::(initialize|terminate|installFunction|uninstallFunction|destroyTable)|XPathFunctionTable::)',
    'xalanc_1_12::XPathEnvSupportDefault::s_externalFunctions': r'XPathEnvSupportDefault::(initialize|terminate|installExternalFunctionGlobal|uninstallExternalFunctionGlobal|updateFunctionTable)',
}


def phase(facts):
    cg = facts.cg
    roots = [k for k in facts.fn('XSLTEngineImpl::process') if len(facts.F[k]['params']) == 3]
    if len(roots) != 1:
        raise AnalysisBroken('phase root XSLTEngineImpl::process(source, target, executionContext) not found uniquely')
    cut = {k for k, v in facts.F.items() if short(v.get('clsq', '')) in CUT_CLASSES}
    reach = cg.reach(roots, stop=lambda k: k in cut)
    if len(reach) < 6000:
        raise AnalysisBroken('only %d functions below the execution root (floor 6000)' % len(reach))
    return roots, cut, reach


def shared_classes(facts):
    shared = set()
    for s in SHARED_SEED:
        if NS + s not in facts.K:
            if s in ('NamespacesHandler::PrefixChecker',):
                continue
            raise AnalysisBroken('shared class %s vanished' % s)
        shared.add(NS + s)
        shared |= facts.derived(NS + s)
    return shared


def classes_in(facts, ty):
    out = set()
    for m in re.finditer(r'xalanc_1_12::[A-Za-z_0-9:]+', ty):
        n = m.group(0)
        while n and n not in facts.K:
            n = n.rsplit('::', 1)[0] if '::' in n else ''
        if n in facts.K:
            out.add(n)
    return out


def r1_static(res, facts, roots, cut, reach):
    r = res.rule('C07-R1', 'no function a worker thread runs writes a variable with static storage duration or calls a state-changing method on one', floor=3)
    cg = facts.cg
    writes_this = collections.defaultdict(bool)
    for w in facts.W:
        if w['this'] and w['kind'] in ('assign', 'incdec') or (w['this'] and w['kind'].startswith('call:') and not w['kind'][5:] in ('begin', 'end', 'find', 'size', 'empty', 'getMemoryManager', 'c_str')):
            writes_this[w['from']] = True
    seen = set()
    for g in facts.G:
        if g['from'] not in reach:
            continue
        key = (g['var'], g['kind'])
        if key in seen:
            continue
        seen.add(key)
        var = g['var']
        site = 'static %s %s' % (short(var), g['kind'])
        chain = cg.path(reach, g['from'])[-6:]
        if var in STATIC_OK:
            r.ok(site, 'accepted: ' + STATIC_OK[var])
            continue
        if g['kind'].startswith('call:') and g.get('callee'):
            tgs = {g['callee']} | cg.all_over(g['callee'])
            below = cg.reach(list(tgs))
            mut = [t for t in below if writes_this.get(t) and facts.F.get(t, {}).get('cls') and (facts.F[t]['cls'] in {facts.F.get(x, {}).get('cls') for x in tgs} or facts.F[t]['cls'] in facts.ancestors(facts.F.get(g['callee'], {}).get('cls', '')))]
            if not mut:
                r.ok(site, 'stateless service: the callee and its overriders write no field of the receiver')
                continue
            r.violation(site, 'state-changing method called on a process-wide object from execution code (%s writes its object)' % short(facts.name[mut[0]]), g['loc'].replace('/repo/', ''), chain=chain)
            continue
        if g.get('constvar') and g['kind'] == 'refarg':
            r.ok(site, 'const object bound to a reference')
            continue
        r.violation(site, 'static storage written from code a worker thread runs: concurrent transformations race on it', g['loc'].replace('/repo/', ''), chain=chain)
    # non-const function-local statics written after initialisation are covered above (G facts with local=true); list them
    for s in facts.D['SL']:
        if s['from'] in reach and not s['const']:
            wr = [g for g in facts.G if g['var'] == s['var'] and g['kind'] in ('assign', 'incdec')]
            site = 'function-local static %s' % short(s['var'])
            if wr:
                r.violation(site, 'non-const function-local static modified after initialisation in execution code', s['loc'].replace('/repo/', ''))
            else:
                r.ok(site, 'initialised once (thread-safe in C++11), never assigned')
    return r


def r2_shared(res, facts, roots, cut, reach):
    r = res.rule('C07-R2', 'the compiled stylesheet is deep-immutable during execution: no field of a shared class is written and no state-changing member of one is '
                 'reachable from the phase root (run-time XPath compilation works on objects created in the phase)', floor=40)
    cg = facts.cg
    shared = shared_classes(facts)
    # completeness of the frozen class list: every member type is shared, a value type, or external
    for c in sorted(shared):
        for f in facts.K[c].get('fields', []):
            for n in classes_in(facts, f['ty']):
                sn = short(n)
                base = sn.split('<')[0]
                if n in shared or base in VALUE_OK or sn in VALUE_OK or not facts.K[n].get('repo'):
                    continue
                r.violation('member %s::%s of type %s' % (short(c), f['n'], sn), 'a shared class holds an object of a class that is neither in the shared list nor a reviewed value type: classify it', facts.K[c]['loc'].replace('/repo/', ''))
    # side condition of the class cut
    for k in reach:
        f = facts.F.get(k, {})
        if f.get('kind') == 'ctor' and short(f.get('clsq', '')) in CUT_CLASSES:
            r.violation('cut class %s' % short(f['clsq']), 'a constructor of a cut class is reachable from the phase root: the cut is invalid', facts.loc(k), chain=cg.path(reach, k)[-6:])
    for c, why in CUT_CLASSES.items():
        r.ok('cut %s: no constructor reachable' % c, why)
    # fresh-instance cut: run-time compilation
    fresh_roots = [k for q in FRESH_ENTRY for k in facts.fn(q)]
    dying = {k for k, v in facts.F.items() if v.get('kind') == 'dtor' and v.get('cls') in shared}   # a shared object outlives the phase: what is destroyed in it is per-thread
    reach2 = cg.reach(roots, stop=lambda k: k in cut or k in fresh_roots or k in dying)
    # side condition: each reachable call site of a fresh entry compiles into an XPath created in the same function
    n_sites = 0
    for k in reach2:
        if k not in facts.astidx:
            continue
        f = facts.F.get(k, {})
        if not any((c['to'] in fresh_roots) for c in ()) and False:
            pass
    callers = collections.defaultdict(list)
    for c in facts.calls:
        if c['to'] in fresh_roots and c['from'] in reach2:
            callers[c['from']].append(c)
    for fr, cs in callers.items():
        a = facts.ast(fr)
        if a is None:
            continue
        fresh_locals = set()
        for x in walk(a['body']):
            if x['k'] == 'Decl':
                for v in x['vars']:
                    i = v.get('init')
                    if i is not None and any(cc.get('n') == 'create' and 'XPathFactory' in (cc.get('cls') or '') for cc in calls(i)):
                        fresh_locals.add(v['id'])
                    if 'XPathGuard' in v['ty'] or short(v['ty']) == 'XPath':
                        fresh_locals.add(v['id'])   # a local XPath object / guard owning a freshly created one
        for c in calls(a['body']):
            if c.get('n') in ('initXPath', 'initMatchPattern') and 'XPathProcessor' in (c.get('cls') or ''):
                n_sites += 1
                arg = strip_casts(c['args'][0])
                ids = {y.get('id') for y in walk(arg) if y['k'] == 'Ref' and y.get('d') == 'local'}
                site = '%s compiles into a fresh XPath' % short(facts.name[fr])
                if ids & fresh_locals:
                    r.ok(site)
                else:
                    r.violation(site, 'run-time compilation target %s is not an XPath created in this function: it may be a shared compiled expression' % pp(arg), common.file_line(a, c))
    if n_sites == 0:
        raise AnalysisBroken('no reachable run-time XPath compilation site found')
    # field writes on shared classes
    seen = set()
    fresh_ok = {NS + 'XPath', NS + 'XPathExpression', NS + 'XToken'}
    for w in facts.W:
        cls = w['field'].rsplit('::', 1)[0]
        if cls not in shared or w['from'] not in reach2:
            continue
        fr = facts.F.get(w['from'], {})
        if fr.get('kind') in ('ctor', 'dtor') and fr.get('cls') in shared:
            continue   # object under construction / destruction
        if w['kind'].startswith('call:') and w['kind'][5:] in ('begin', 'end', 'find', 'size', 'empty', 'getMemoryManager', 'c_str', 'operator[]', 'back', 'front', 'get', 'operator->', 'operator*'):
            if not w.get('mutable'):
                continue   # accessor on a member: a write through the result has its own fact
        key = (w['field'], w['from'], w['kind'])
        if key in seen:
            continue
        seen.add(key)
        r.violation('write %s in %s' % (short(w['field']), short(facts.name.get(w['from'], '?'))),
                    'field of a shared compiled-stylesheet class is written (%s%s) in code reachable from a worker thread' % (w['kind'], ', mutable member' if w.get('mutable') else ''),
                    w['loc'].replace('/repo/', ''), chain=cg.path(reach2, w['from'])[-6:])
    # reachable non-const members (accessors that write nothing are listed, not reported)
    accessors = 0
    writers_by_fn = collections.defaultdict(list)
    for w in facts.W:
        if w['this']:
            writers_by_fn[w['from']].append(w)
    for k in reach2:
        v = facts.F.get(k)
        if v and v.get('cls') in shared and v.get('kind') == 'method' and not v.get('const') and not v.get('static'):
            if writers_by_fn.get(k):
                continue   # reported above as a field write
            accessors += 1
    r.note('%d shared classes; %d functions reachable with the fresh-instance cut; %d reachable non-const members of shared classes write nothing (accessors)' % (len(shared), len(reach2), accessors))
    for c in sorted(shared):
        r.ok('class %s: no reachable writer' % short(c)) if not any(v['site'].startswith('write %s::' % short(c)) for v in r.viol) else None
    # mutable members and const-removing casts on shared classes in reachable code
    for c in sorted(shared):
        for f in facts.K[c].get('fields', []):
            if f.get('mutable'):
                r.violation('mutable %s::%s' % (short(c), f['n']), 'shared class declares a mutable member: const execution code may write it', facts.K[c]['loc'].replace('/repo/', ''))
    for cc in facts.D['CC']:
        if cc['from'] in reach2 and any(short(s) in cc['fromT'] for s in ()):
            pass
    ncast = 0
    for cc in facts.D['CC']:
        if cc['from'] not in reach2:
            continue
        hit = [s for s in shared if re.match(r'^const %s( \*| &| \*const)?$' % re.escape(s), cc['fromT'])]
        if hit:
            ncast += 1
            fn = short(facts.name.get(cc['from'], '?'))
            if fn in CAST_OK:
                r.ok('const_cast of %s in %s' % (short(hit[0]), fn), 'accepted: ' + CAST_OK[fn])
                continue
            r.violation('const_cast of %s in %s' % (short(hit[0]), short(facts.name.get(cc['from'], '?'))), 'const removed from a shared compiled-stylesheet object in execution code', cc['loc'].replace('/repo/', ''))
    return r


def r3_source_tree(res, facts, roots, cut, reach):
    r = res.rule('C07-R3', 'the native source tree is immutable during execution: its nodes are written only by the builder classes, which build documents created in the phase', floor=10)
    cg = facts.cg
    builders = {'FormatterToSourceTree', 'XalanSourceTreeContentHandler', 'XalanSourceTreeParserLiaison', 'XalanSourceTreeDocument', 'XalanSourceTreeDOMSupport', 'XalanSourceTreeInit',
                'XalanSourceTreeDocumentAllocator', 'XalanSourceTreeDocumentFragmentAllocator'}
    stop_fns = {k for k, v in facts.F.items() if short(v.get('clsq', '')) in ('FormatterToSourceTree', 'XalanSourceTreeContentHandler', 'XalanSourceTreeParserLiaison')}
    reach3 = cg.reach(roots, stop=lambda k: k in cut or k in stop_fns)
    n = 0
    seen = set()
    for w in facts.W:
        cls = short(w['field'].rsplit('::', 1)[0])
        if not cls.startswith('XalanSourceTree') or cls in builders or cls.endswith('Allocator'):
            continue
        n += 1
        if w['from'] not in reach3:
            continue
        fr = facts.F.get(w['from'], {})
        if fr.get('kind') in ('ctor', 'dtor'):
            continue
        key = (w['field'], w['from'])
        if key in seen:
            continue
        seen.add(key)
        r.violation('write %s in %s' % (short(w['field']), short(facts.name.get(w['from'], '?'))), 'source-tree node field written outside the builder classes in execution code',
                    w['loc'].replace('/repo/', ''), chain=cg.path(reach3, w['from'])[-6:])
    node_classes = [c for c in facts.K if short(c).startswith('XalanSourceTree') and facts.K[c].get('repo')]
    for c in sorted(node_classes):
        sc = short(c)
        if sc in builders or sc.endswith('Allocator') or '<' in sc:
            continue
        if not any(v['site'].startswith('write %s::' % sc) for v in r.viol):
            r.ok('class %s: no writer reachable outside the builders' % sc)
        for f in facts.K[c].get('fields', []):
            if f.get('mutable'):
                r.violation('mutable %s::%s' % (sc, f['n']), 'source-tree node class declares a mutable member', facts.K[c]['loc'].replace('/repo/', ''))
    r.note('%d write facts on XalanSourceTree* node fields in the library, none reachable with the builder cut' % n)
    return r


def r4_wrapper(res, facts):
    r = res.rule('C07-R4', 'the Xerces wrapper document shared through XalanTransformer is built eagerly (its lazily-filled mutable members are never written by readers); its const members write state only at '
                 'reviewed sites; its string pool is the locked one in thread-safe mode', floor=25)
    # XercesDocumentWrapper's mutable members
    k = facts.K.get(NS + 'XercesDocumentWrapper')
    if not k:
        raise AnalysisBroken('XercesDocumentWrapper not found')
    muts = [f['n'] for f in k['fields'] if f.get('mutable')]
    # parsed-source classes of the transformer: createDocument / constructor arguments
    found = 0
    for q in ('XercesParserLiaison::createDocument', 'XercesDOMWrapperParsedSource::XercesDOMWrapperParsedSource', 'XercesDOMParsedSource::XercesDOMParsedSource'):
        for a in facts.asts(q, must=False):
            for c in calls(a['body']):
                pass
    for q in ('XercesDOMWrapperParsedSource::XercesDOMWrapperParsedSource', 'XercesDOMParsedSource::XercesDOMParsedSource'):
        asts = facts.asts(q, must=False)
        if not asts:
            continue
        for a in asts:
            for c in list(calls(a['body'])) + [y for i in a.get('inits', []) for y in calls(i['e'])]:
                if c.get('n') == 'createDocument' and len(c['args']) >= 3:
                    found += 1
                    bw = strip_casts(c['args'][2])
                    site = '%s: createDocument(.., buildWrapper)' % short(q)
                    if bw is not None and bw.get('cv') == 1:
                        r.ok(site, 'buildWrapper == true')
                    else:
                        r.violation(site, 'wrapper document created with buildWrapper = %s: nodes are mapped lazily through mutable members by concurrent readers' % pp(bw), common.file_line(a, c))
    if found == 0:
        raise AnalysisBroken('no createDocument call found in the Xerces parsed-source classes')
    # XercesDOMParsedSource parses through its own liaison: the liaison's constructors default m_buildWrapper to true and nobody switches it off
    for a in facts.asts('XercesParserLiaison::XercesParserLiaison'):
        for i in a.get('inits', []):
            if i.get('field') == 'm_buildWrapper':
                v = strip_casts(i['e'])
                site = 'XercesParserLiaison constructor (%d parameters): m_buildWrapper' % len(a['params'])
                if v is not None and v.get('cv') == 1:
                    r.ok(site, 'initialised to true')
                else:
                    r.violation(site, 'liaison defaults to lazy wrapper construction', common.file_line(a))
    writers = {w['from'] for w in facts.W if short(w['field']) == 'XercesParserLiaison::m_buildWrapper'}
    for k in writers:
        fn = short(facts.name.get(k, '?'))
        if re.search(r'XercesParserLiaison::(XercesParserLiaison|setBuildWrapperNodes)$', fn):
            continue
        a = facts.ast(k)
        for x in walk(a['body']) if a else []:
            if x['k'] == 'Bin' and x['op'] == '=' and strip_casts(x['lhs']).get('m') == 'm_buildWrapper':
                v = strip_casts(x['rhs'])
                if v is not None and v.get('cv') == 1:
                    r.ok('%s sets m_buildWrapper = true' % fn)
                else:
                    r.violation('m_buildWrapper written in %s' % fn, 'wrapper-building flag may be switched off outside its setter', common.file_line(a, x))
    setters = facts.fn('XercesParserLiaison::setBuildWrapperNodes', must=False)
    for c in facts.calls:
        if c['to'] in setters:
            fr = facts.F.get(c['from'], {})
            if short(fr.get('clsq', '')).startswith(('XercesDOMParsedSource', 'XercesDOMWrapperParsedSource', 'XalanTransformer', 'XalanDefaultParsedSource')):
                r.violation('setBuildWrapperNodes called in %s' % short(facts.name[c['from']]), 'a transformer-level parsed source changes the wrapper-building mode of its liaison', c['loc'].replace('/repo/', ''))
    r.note('XercesDocumentWrapper mutable members: %s' % muts)
    # (b) what the read-only interface (const members) of the shared wrapper document may write
    for w in facts.W:
        fld = short(w['field'])
        if not fld.startswith('XercesDocumentWrapper::') or fld.count('::') != 1:
            continue
        fn = facts.F.get(w['from'], {})
        if not fn.get('const'):
            continue
        fname = short(fn.get('name', '?'))
        key = (fname.split('::')[-1], fld.split('::')[-1])
        site = 'const %s writes %s (%s)' % (fname, fld.split('::')[-1], w['kind'])
        why = WRAPPER_CONST_WRITES.get(key)
        if why and (w['kind'].startswith('call:') or key in WRAPPER_CONST_ASSIGN_OK):
            r.ok(site, why)
        else:
            r.violation('const %s writes %s' % (fname, fld.split('::')[-1]), 'a reader-side (const) member of the wrapper document shared between threads changes %s (%s) outside the reviewed lazy-mapping '
                        'and locked-pool sites: concurrent transformations race on it' % (fld.split('::')[-1], w['kind']), w['loc'].replace('/repo/', ''))
    # the pool behind getPooledString is the locked one in thread-safe mode, and its accessors take the lock first
    ctor_ok = False
    for a in facts.asts('XercesDocumentWrapper::XercesDocumentWrapper', must=False):
        for i in a.get('inits', []):
            if i.get('field') == 'm_stringPool':
                txt = pp(i['e'])
                conds = [x for x in walk(i['e']) if x.get('k') == 'Cond']
                for c in conds:
                    if 'threadSafe' in pp(c['c']) and 'XercesLiaisonXalanDOMStringPool' in pp(c['t']) + ' '.join(cc.get('fn') or '' for cc in calls(c['t'])):
                        ctor_ok = True
    if ctor_ok:
        r.ok('XercesDocumentWrapper constructor: thread-safe mode selects XercesLiaisonXalanDOMStringPool')
    else:
        r.violation('XercesDocumentWrapper constructor: string pool', 'thread-safe mode no longer selects the locked string pool', facts.K[NS + 'XercesDocumentWrapper']['loc'].replace('/repo/', ''))
    for a in facts.asts('XercesLiaisonXalanDOMStringPool::get', must=False) + facts.asts('XercesLiaisonXalanDOMStringPool::clear', must=False):
        stmts = a['body'].get('c', [])
        first = stmts[0] if stmts else None
        site = 'XercesLiaisonXalanDOMStringPool::%s(%d parameters)' % (a['name'].split('::')[-1], len(a['params']))
        if first is not None and first.get('k') == 'Decl' and any('MutexLock' in (v.get('ty') or '') and 'm_mutex' in pp(v.get('init')) for v in first.get('vars', [])):
            r.ok(site, 'takes the lock before touching the pool')
        else:
            r.violation(site, 'the pool is accessed before / without taking m_mutex', common.file_line(a))
    return r


WRAPPER_CONST_WRITES = {
    ('createNavigator', 'm_navigatorAllocator'): 'lazy mapping: reached only while m_mappingMode, which buildWrapper = true (first part of this rule) never leaves on for a shared document',
    ('createWrapperNode', 'm_doctype'): 'lazy mapping (see createNavigator)',
    ('createWrapperNode', 'm_nodeMap'): 'lazy mapping (see createNavigator)',
    ('createWrapperNode', 'm_nodes'): 'lazy mapping (see createNavigator)',
    ('createWrapperNode', 'm_elementAllocator'): 'lazy mapping (see createNavigator)',
    ('createWrapperNode', 'm_textAllocator'): 'lazy mapping (see createNavigator)',
    ('createWrapperNode', 'm_attributeAllocator'): 'lazy mapping (see createNavigator)',
    ('getPooledString', 'm_stringPool'): 'goes through the pool object, which is the mutex-protected XercesLiaisonXalanDOMStringPool in thread-safe mode (checked below)',
    ('getMemoryManager', 'm_nodeMap'): 'asks a member for its memory manager: no state changes',
}
WRAPPER_CONST_ASSIGN_OK = {('createWrapperNode', 'm_doctype')}


def r5_process_wide(res, facts, reach):
    r = res.rule('C07-R5', 'process-wide function tables are written only by initialize / terminate / install functions, none of which runs inside a transformation', floor=2)
    for var, allowed in PROCESS_WIDE.items():
        rx = re.compile(allowed)
        n = 0
        for g in facts.G:
            if g['var'] != var:
                continue
            if g['kind'].startswith('call:') and g['kind'][5:] in ('begin', 'end', 'find', 'size', 'empty', 'operator[]', 'get'):
                continue
            n += 1
            fn = short(facts.name.get(g['from'], '?'))
            site = '%s %s in %s' % (short(var), g['kind'], fn)
            if not rx.search(fn):
                r.violation(site, 'process-wide table modified outside its install/initialize functions', g['loc'].replace('/repo/', ''))
            elif g['from'] in reach:
                r.violation(site, 'table-modifying function is reachable from the execution phase', g['loc'].replace('/repo/', ''), chain=facts.cg.path(reach, g['from'])[-6:])
            else:
                r.ok(site)
        if n == 0:
            r.note('%s: no modifying access found' % short(var))
    return r


def run(res, facts, tier):
    roots, cut, reach = phase(facts)
    r1_static(res, facts, roots, cut, reach)
    r2_shared(res, facts, roots, cut, reach)
    r3_source_tree(res, facts, roots, cut, reach)
    r4_wrapper(res, facts)
    r5_process_wide(res, facts, reach)
    res.assume('C07: races inside Xerces / ICU and on objects the caller shares beyond the documented contract are not analysed')
