"""C06 — a reused transformer behaves like a fresh one: reset completeness (effect analysis), reset guard placement,
documented stickiness, ownership vectors (DESIGN.md §3)."""
import collections, re
from ..build import AnalysisBroken
from ..mast import walk, calls, callee, strip_casts, pp, CFG
from ..facts import short, NS
from . import common

ROOT_CLASS = 'StylesheetExecutionContextDefault'
# write kinds that (re-)establish a known state
CLEARING = {'clear', 'reset', 'resize', 'assign', 'swap', 'erase', 'operator=', 'release', 'destroy', 'destroyAll', 'deleteAll', 'returnObject'}
# fields of long-lived classes that an execution writes and reset() deliberately leaves alone, one reason each
EXEMPT = {
    'VariablesStack::m_currentStackFrameIndex': 'reset() empties m_stack through pop(), which decrements the index in step with the stack size once they meet; the index never exceeds the size (it is only ever set to a size observed earlier)',
    'StylesheetExecutionContextDefault::m_xsltProcessor': 'pointer to the per-transformation engine; XalanTransformer::reset() (same closure) sets it to 0 via setXSLTProcessor(0) - recorded as an assignment in the callee',
    'StylesheetExecutionContextDefault::m_usePerInstanceDocumentFactory': 'configuration flag',
    'XPathExecutionContextDefault::m_xpathEnvSupport': 'pointer to per-transformation support object; set to 0 by XalanTransformer::reset() via setXPathEnvSupport(0)',
    'XPathExecutionContextDefault::m_domSupport': 'pointer to per-transformation support object; set to 0 by XalanTransformer::reset() via setDOMSupport(0)',
    'XPathExecutionContextDefault::m_xobjectFactory': 'pointer to per-transformation factory; set to 0 by XalanTransformer::reset() via setXObjectFactory(0)',
    'XalanQNameByValue::m_namespace': 'XPathExecutionContextDefault::m_scratchQName: scratch object, initialised (write) before every read by its only user',
    'XalanQNameByValue::m_localpart': 'XPathExecutionContextDefault::m_scratchQName: scratch object, initialised (write) before every read by its only user',
    'XPathExecutionContextDefault::ContextNodeListPositionCache::m_index': 'meaningful only while m_node matches; reset() calls m_cachedPosition.clear(), which nulls m_node',
    'XalanDOMStringCache::m_availableList': 'pool of reusable strings: reset() returns every busy string to it; strings are cleared when released',
    'XalanDOMStringCache::m_busyList': 'emptied by XalanDOMStringCache::reset() (moves entries to the pool)',
    'XalanDOMStringReusableAllocator::m_allocator': 'memory pool of the string cache; holds no observable content',
    'ExecutionContext::m_hasPreserveOrStripConditions': 're-assigned by setStylesheetRoot(), which every transformation calls before executing',
}
# fields cleared by a CollectionClearGuard local in the function that fills them (side condition checked on every run)
RAII_CLEARED = {'NodeSorter::m_numberResultsCache', 'NodeSorter::m_stringResultsCache', 'NodeSorter::m_scratchVector'}
TERMINAL_TEMPLATES = ('XalanVector', 'XalanDeque', 'XalanMap', 'XalanSet', 'XalanList', 'XalanObjectCache', 'XalanObjectStackCache', 'XalanMemMgrAutoPtr', 'XalanAutoPtr',
                      'ArenaAllocator', 'ReusableArenaAllocator', 'XalanArrayAllocator', 'std::')


def class_key(facts, ty):
    """class name (as in facts.K) of a by-value member type, or None"""
    t = ty.replace('const ', '').strip()
    if t.endswith('*') or t.endswith('&') or '[' in t:
        return None
    return t if t in facts.K else None


def long_lived_classes(facts):
    root = NS + ROOT_CLASS
    if root not in facts.K:
        raise AnalysisBroken('class %s not found' % ROOT_CLASS)
    out = collections.OrderedDict()
    st = [root]
    while st:
        c = st.pop()
        if c in out:
            continue
        k = facts.K[c]
        out[c] = k
        for b in k.get('bases', []):
            if b in facts.K and facts.K[b].get('repo') and facts.K[b].get('fields'):
                st.append(b)
        for f in k.get('fields', []):
            ck = class_key(facts, f['ty'])
            if ck and facts.K[ck].get('repo') and not short(ck).startswith(TERMINAL_TEMPLATES) and '<' not in short(ck) and short(ck) != 'XalanDOMString':
                st.append(ck)
    return out


def r1_reset_completeness(res, facts):
    r = res.rule('C06-R1', 'every field of the long-lived execution context (and of the classes it embeds by value) that a transformation can write '
                 'is re-initialised in the closure of EnsureReset::~EnsureReset', floor=40)
    cg = facts.cg
    reach = cg.reach(facts.fn('XalanTransformer::doTransform'))
    rreach = cg.reach(facts.fn('XalanTransformer::EnsureReset::~EnsureReset'))
    if len(reach) < 8000 or len(rreach) < 500:
        raise AnalysisBroken('call graph unexpectedly small: %d functions below doTransform, %d below ~EnsureReset' % (len(reach), len(rreach)))
    K = long_lived_classes(facts)
    ex = collections.defaultdict(list); rs = collections.defaultdict(list)
    ctor_dtor = {k for k, f in facts.F.items() if f.get('kind') in ('ctor', 'dtor')}
    for w in facts.W:
        cls = w['field'].rsplit('::', 1)[0]
        if cls not in K:
            continue
        if w['from'] in rreach:
            kind = w['kind']
            if kind == 'assign' or (kind.startswith('call:') and kind[5:] in CLEARING):
                rs[w['field']].append(w)
        if w['from'] in reach and w['from'] not in rreach and w['from'] not in ctor_dtor:
            ex[w['field']].append(w)
    seen = cg.reach(facts.fn('XalanTransformer::doTransform'))
    for cls, k in K.items():
        for f in k.get('fields', []):
            fld = cls + '::' + f['n']
            sfld = short(fld)
            if fld not in ex:
                continue
            kinds = sorted({w['kind'] for w in ex[fld]})
            if fld in rs:
                r.ok(sfld, 'written by %s; reset by %s' % (kinds[:4], sorted({w['kind'] for w in rs[fld]})[:3]))
            elif sfld in EXEMPT:
                r.ok(sfld, 'exempt: ' + EXEMPT[sfld])
            elif sfld in RAII_CLEARED:
                bad = raii_side_condition(facts, fld, ex[fld])
                if bad:
                    r.violation('field %s' % sfld, 'exempt as guard-cleared, but %s' % bad, ex[fld][0]['loc'].replace('/repo/', ''))
                else:
                    r.ok(sfld, 'cleared by a CollectionClearGuard local in every function that fills it')
            else:
                w = ex[fld][0]
                r.violation('field %s' % sfld, 'written during a transformation (%s in %s) but not re-initialised by the reset closure: state leaks into the next transform() call' %
                            (w['kind'], short(facts.name.get(w['from'], '?'))), w['loc'].replace('/repo/', ''), chain=cg.path(seen, w['from'])[-8:] if w['from'] in seen else None)
    r.note('long-lived classes (by-value closure of %s): %s' % (ROOT_CLASS, [short(c) for c in K]))
    r.note('%d functions below doTransform, %d in the reset closure' % (len(reach), len(rreach)))
    res.assume('C06-R1: contents of the object caches (strings, node lists, formatters, sorters) are cleared at acquisition/release by their users; that protocol is behavioural and not decided here')
    return r


def raii_side_condition(facts, fld, writes):
    """every writer of the field holds a CollectionClearGuard on it, or is reachable from a function that does"""
    name = fld.split('::')[-1]
    holders = set()
    cls = fld.rsplit('::', 1)[0]
    for k, f in facts.F.items():
        if f.get('cls') == cls and k in facts.astidx:
            a = facts.ast(k)
            for x in walk(a['body']):
                if x['k'] == 'Decl':
                    for v in x['vars']:
                        if 'CollectionClearGuard' in v['ty'] and v.get('init') is not None and any(y['k'] == 'Member' and y.get('m') == name for y in walk(v['init'])):
                            holders.add(k)
    if not holders:
        return 'no function of %s declares a CollectionClearGuard on %s' % (short(cls), name)
    below = facts.cg.reach(list(holders))
    for w in writes:
        if w['from'] not in below:
            return 'it is written in %s, outside the guarded functions' % short(facts.name.get(w['from'], '?'))
    return None


def dominated_by(cfg, target_nodes, guard_pred):
    """are all target nodes unreachable from the entry when nodes satisfying guard_pred are removed?"""
    seen = cfg.reachable_avoiding([cfg.entry], guard_pred)
    return [n for n in target_nodes if n.id in seen]


def r2_guard(res, facts):
    r = res.rule('C06-R2', 'in doTransform the EnsureReset guard is constructed before every statement that mutates the shared execution context or runs the processor, '
                 'and its destructor reaches both reset functions', floor=6)
    a = facts.asts('XalanTransformer::doTransform')[0]
    cfg = CFG(a)

    def is_guard(n):
        if n.ast is None or n.ast.get('k') != 'Decl':
            return False
        return any('EnsureReset' in v['ty'] for v in n.ast['vars'])
    if not any(is_guard(n) for n in cfg.nodes):
        r.violation('doTransform EnsureReset', 'no EnsureReset local in doTransform', common.file_line(a))
        return r
    targets = []
    for n in cfg.nodes:
        if n.ast is None or n.kind not in ('stmt', 'cond'):
            continue
        for c in calls(n.ast):
            if c['k'] == 'MCall':
                o = strip_casts(c.get('obj'))
                if o is not None and o.get('k') == 'Member' and o.get('m') == 'm_stylesheetExecutionContext' and not c.get('const'):
                    targets.append((n, 'm_stylesheetExecutionContext->%s' % c.get('n')))
                if c.get('n') == 'process' and 'XSLTEngineImpl' in (c.get('cls') or ''):
                    targets.append((n, 'XSLTEngineImpl::process'))
    for n, what in targets:
        bad = dominated_by(cfg, [n], is_guard)
        site = 'doTransform: %s' % what
        if bad:
            r.violation(site, 'reachable before the EnsureReset guard exists: an exception here leaves the context dirty for the next call', common.file_line(a, n.ast))
        else:
            r.ok(site)
    cg = facts.cg
    rreach = cg.reach(facts.fn('XalanTransformer::EnsureReset::~EnsureReset'))
    for q in ('StylesheetExecutionContextDefault::reset', 'XalanTransformer::reset', 'XPathExecutionContextDefault::reset', 'VariablesStack::reset'):
        ks = facts.fn(q)
        if any(k in rreach for k in ks):
            r.ok('~EnsureReset reaches %s' % q)
        else:
            r.violation('~EnsureReset reaches %s' % q, 'reset function not reachable from the guard destructor', None)
    return r


def r3_params(res, facts):
    r = res.rule('C06-R3', 'documented stickiness only: m_params is written only by the parameter API, and doTransform re-seeds the processor from it after clearStylesheetParams()', floor=3)
    allowed = re.compile(r'XalanTransformer::(setStylesheetParam|clearStylesheetParams|XalanTransformer|~XalanTransformer)$')
    n = 0
    for w in facts.W:
        if short(w['field']) == 'XalanTransformer::m_params' and w['kind'] != 'call:begin' and w['kind'] != 'call:end' and w['kind'] != 'call:find':
            n += 1
            fn = short(facts.name.get(w['from'], '?'))
            if allowed.search(fn):
                r.ok('m_params %s in %s' % (w['kind'], fn))
            else:
                r.violation('m_params written in %s' % fn, 'XalanTransformer::m_params is modified (%s) outside the stylesheet-parameter API' % w['kind'], w['loc'].replace('/repo/', ''))
    a = facts.asts('XalanTransformer::doTransform')[0]
    cfg = CFG(a)
    sets = [n for n, c in common.find_call_nodes(cfg, 'setStylesheetParam')]
    if not sets:
        r.violation('doTransform re-seeds parameters', 'no setStylesheetParam call in doTransform', common.file_line(a))
    bad = dominated_by(cfg, sets, lambda n: n.ast is not None and any(c.get('n') == 'clearStylesheetParams' for c in calls(n.ast)))
    if bad:
        r.violation('doTransform clearStylesheetParams before re-seeding', 'parameters are pushed without clearing the processor first', common.file_line(a, bad[0].ast))
    else:
        r.ok('doTransform: clearStylesheetParams() dominates %d setStylesheetParam calls' % len(sets))
    return r


def r4_ownership(res, facts):
    r = res.rule('C06-R4', 'ownership vectors: reserve(size()+1) dominates the creation which dominates push_back; elements leave only through destroy*/the destructor', floor=4)
    for q, fld in (('XalanTransformer::compileStylesheet', 'm_compiledStylesheets'), ('XalanTransformer::parseSource', 'm_parsedSources'), ('XalanTransformer::createDocumentBuilder', 'm_parsedSources')):
        for a in facts.asts(q):
            cfg = CFG(a)
            pushes = [(n, c) for n, c in common.find_call_nodes(cfg, 'push_back') if strip_casts(c.get('obj')) is not None and strip_casts(c['obj']).get('m') == fld]
            if not pushes:
                continue

            def is_reserve(n):
                return n.ast is not None and any(c.get('n') == 'reserve' and strip_casts(c.get('obj')) is not None and strip_casts(c['obj']).get('m') == fld for c in calls(n.ast))

            def is_create(n):
                return n.ast is not None and any(c.get('n') == 'create' for c in calls(n.ast))
            site = '%s: %s' % (q.split('::')[-1], fld)
            reserves = [n for n in cfg.nodes if is_reserve(n)]
            creates = [n for n in cfg.nodes if is_create(n)]
            if dominated_by(cfg, [n for n, c in pushes], is_reserve):
                r.violation(site + ' reserve', 'push_back reachable without the preceding reserve(): a failing push_back leaks the object just created', common.file_line(a, pushes[0][1]))
            elif dominated_by(cfg, creates, is_reserve):
                r.violation(site + ' reserve', 'object created before space is reserved', common.file_line(a, creates[0].ast))
            else:
                r.ok(site + ' reserve -> create -> push_back')
    allowed = re.compile(r'XalanTransformer::(destroyStylesheet|destroyParsedSource|~XalanTransformer|compileStylesheet|parseSource|createDocumentBuilder|XalanTransformer)$')
    for w in facts.W:
        sf = short(w['field'])
        if sf in ('XalanTransformer::m_compiledStylesheets', 'XalanTransformer::m_parsedSources') and w['kind'] in ('call:erase', 'call:clear', 'call:pop_back', 'call:push_back', 'assign', 'call:resize'):
            fn = short(facts.name.get(w['from'], '?'))
            if allowed.search(fn):
                r.ok('%s %s in %s' % (sf.split('::')[-1], w['kind'], fn.split('::')[-1]))
            else:
                r.violation('%s modified in %s' % (sf, fn), 'ownership vector modified (%s) outside create/destroy' % w['kind'], w['loc'].replace('/repo/', ''))
    return r


def run(res, facts, tier):
    r1_reset_completeness(res, facts)
    r2_guard(res, facts)
    r3_params(res, facts)
    r4_ownership(res, facts)


# ----------------------------------------------------------------------------------------------- R5: the last-error buffer
def r5_last_error(res, facts):
    """getLastError() returns &m_errorMessage[0].  A fresh transformer holds {NUL}; every public operation that can set the message must start
    by putting it back to exactly that, whatever the buffer held."""
    from ..mast import walk, calls, pp, strip_casts
    r = res.rule('C06-R5', 'XalanTransformer::m_errorMessage (what getLastError() returns): every operation that resets it leaves exactly one NUL whatever it held before — '
                 'clear() followed by push_back(0); resize(1, 0) alone keeps the first character of a longer message', floor=3)
    n = 0
    for k in facts.astidx:
        f = facts.F.get(k)
        if not f or f.get('cls') != 'xalanc_1_12::XalanTransformer':
            continue
        a = facts.ast(k)
        if a is None:
            continue
        fn = short(facts.name[k])
        ops = []
        for c in calls(a['body']):
            if c.get('k') == 'MCall' and pp(strip_casts(c.get('obj'))) == 'm_errorMessage' and c.get('n') in ('clear', 'push_back', 'resize', 'assign', 'erase', 'swap'):
                ops.append(c)
        if not ops:
            continue
        # reset idioms: look at the first operation(s)
        first = ops[0]
        site = '%s: reset of m_errorMessage' % fn
        if first['n'] == 'clear':
            nxt = ops[1] if len(ops) > 1 else None
            if nxt is not None and nxt['n'] == 'push_back' and strip_casts(nxt['args'][0]).get('cv') == 0:
                n += 1
                r.ok(site, 'clear(); push_back(0)')
            elif nxt is not None and nxt['n'] == 'resize' and strip_casts(nxt['args'][0]).get('cv') == 1:
                n += 1
                r.ok(site, 'clear(); resize(1, 0)')
            else:
                n += 1
                r.violation(site, 'the buffer is cleared but no terminator is stored: getLastError() reads an empty vector', common.file_line(a, first))
        elif first['n'] == 'resize':
            n += 1
            r.violation(site, 'reset with %s: on a buffer that holds a longer message this keeps its first character and no terminator, so getLastError() after a successful call still '
                        'shows the message of an earlier failure' % pp(first)[:50], common.file_line(a, first))
    if n < 3:
        raise AnalysisBroken('only %d reset sites of XalanTransformer::m_errorMessage found (parseSource, compileStylesheet, doTransform expected)' % n)
    return r


_run_c06_prev = run


def run(res, facts, tier):
    _run_c06_prev(res, facts, tier)
    r5_last_error(res, facts)


# ----------------------------------------------------------------------------------------------- R6: re-configuration replaces
def r6_replace(res, facts):
    """A transformer that has been configured before must end up configured like a fresh one given the last settings: stores into the keyed
    settings of XalanTransformer (external functions, stylesheet params) replace an existing entry."""
    from .c19_own import collect_stores, is_map_member, field_of
    r = res.rule('C06-R6', 'keyed settings of XalanTransformer (m_functions, m_params): a setter replaces what is stored under the key — operator[] / slot assignment; XalanMap::insert, which '
                 'keeps the old entry, only where the key is known absent', floor=1)
    n = 0
    for k in facts.astidx:
        f = facts.F.get(k)
        if not f or f.get('cls') != 'xalanc_1_12::XalanTransformer':
            continue
        a = facts.ast(k)
        if a is None:
            continue
        fn = short(facts.name[k])
        stores, slots = collect_stores(a)
        for fld, kind, ktxt, vtxt, node in stores:
            n += 1
            site = '%s: %s %s' % (fn, fld.split('::')[-1], {'insert': 'insert(key, value)', 'assign': '[key] = value', 'slot': 'slot reference assigned'}[kind])
            if kind == 'insert':
                r.violation(site, 'XalanMap::insert keeps an existing entry: setting the same key again leaves the previous value in force, so a transformer that was configured before '
                            'does not behave like a fresh one configured with the last value', common.file_line(a, node))
            else:
                r.ok(site, 'replaces')
        # vector-typed params: push_back after a search is fine; not decided here
    if n == 0:
        raise AnalysisBroken('no keyed store found in XalanTransformer (installExternalFunction expected)')
    # an entry that can hold the setting in several forms (XalanParamHolder: an expression or a value; the consumer prefers one of them) must be overwritten as a whole:
    # every setter that writes one field of the entry writes all of them
    n_entry = 0
    for k in facts.astidx:
        f = facts.F.get(k)
        if not f or f.get('cls') != 'xalanc_1_12::XalanTransformer':
            continue
        a = facts.ast(k)
        if a is None or a.get('body') is None:
            continue
        written = collections.defaultdict(set)      # entry class -> fields written through a slot of a keyed member
        slot_ids = {}
        for x in walk(a['body']):
            if x.get('k') == 'Decl':
                for v in x.get('vars', []):
                    ini = strip_casts(v['init']) if v.get('init') is not None else None
                    if ini is not None and ini.get('k') == 'OpCall' and ini.get('op') == '[]' and (v.get('ty') or '').rstrip().endswith('&'):
                        slot_ids[v['id']] = (v.get('ty') or '').replace('&', '').replace('const', '').strip()
        for x in walk(a['body']):
            tgt = None
            if x.get('k') in ('Bin', 'OpCall') and x.get('op') == '=':
                tgt = strip_casts(x['lhs'] if x['k'] == 'Bin' else x['args'][0])
            elif x.get('k') == 'MCall' and x.get('n') in ('clear', 'assign', 'reset'):
                tgt = strip_casts(x.get('obj'))
            if tgt is None or tgt.get('k') != 'Member':
                continue
            base = strip_casts(tgt.get('obj'))
            if base is None:
                continue
            cls = None
            if base.get('k') == 'OpCall' and base.get('op') == '[]':
                cls = (base.get('ty') or '').replace('const', '').strip()
            elif base.get('k') == 'Ref' and base.get('id') in slot_ids:
                cls = slot_ids[base['id']]
            if cls:
                written[cls].add(tgt['m'])
        for cls, flds in written.items():
            allf = {fl['n'] for fl in (facts.K.get(cls) or facts.K.get('xalanc_1_12::' + cls.split('::')[-1]) or {}).get('fields', [])}
            if len(allf) < 2:
                continue
            n_entry += 1
            site = '%s: entry of type %s' % (short(facts.name[k]), short(cls))
            if allf <= flds:
                r.ok(site, 'writes every form of the entry: %s' % sorted(flds))
            else:
                r.violation(site, 'the setter writes %s of the entry but leaves %s as an earlier call set it: the consumer may prefer the stale form (a parameter set as an expression and '
                            'then as a value keeps the expression)' % (sorted(flds), sorted(allf - flds)), common.file_line(a))
    if n_entry == 0:
        raise AnalysisBroken('no setter of a multi-form entry found in XalanTransformer (setStylesheetParam expected)')
    return r


_run_c06_prev2 = run


def run(res, facts, tier):
    _run_c06_prev2(res, facts, tier)
    r6_replace(res, facts)


# ----------------------------------------------------------------------------------------------- R7: the re-initialisation is not conditional on something else
R7_REVIEWED = {
    'XalanDOMStringCache::m_allocator': 'the arena behind the cached strings: reset() returns every busy string to the available list (or destroys it beyond the size limit); the arena holds '
                                        'memory, not state a transformation can observe',
}


def r7_unconditional(res, facts):
    """C06-R1 asks whether the reset closure CAN re-initialise a field (reachability).  It must DO so whenever the transformer is reset: from ~EnsureReset a resetting write has to
    be reached through calls and statements that lie on every path of their function, or under conditions that are about the field itself (if (m_x != 0) m_x->reset();
    while (!m_busy.empty()) ...).  A reset that runs only when some OTHER state happens to be set leaves the field as the aborted transformation left it."""
    from ..mast import CFG, calls, callee
    r = res.rule('C06-R7', 'every field the reset closure re-initialises is re-initialised whenever the transformer is reset: a resetting write is reached from ~EnsureReset through '
                 'calls and statements on every path of their function, or under conditions that mention only that field', floor=40)
    cg = facts.cg
    roots = facts.fn('XalanTransformer::EnsureReset::~EnsureReset')
    edges = collections.defaultdict(lambda: collections.defaultdict(set))
    for c in facts.calls:
        edges[c['from']][c['toName'].split('::')[-1]].add(c['to'])
    cfgs = {}

    def cfg_of(u):
        if u not in cfgs:
            a = facts.ast(u)
            if a is None or a.get('body') is None:
                cfgs[u] = None
            else:
                cfg = CFG(a)
                mn = set()
                for n in cfg.nodes:
                    if n.ast is None:
                        continue
                    if cfg.exit.id not in cfg.reachable_avoiding([cfg.entry], lambda m2, n=n: m2 is n):
                        mn.add(n.id)
                cfgs[u] = (cfg, mn, common.must_conds(cfg))
        return cfgs[u]
    def controlling(a, stmt):
        """texts of the conditions of the if / loop statements the statement is nested in (for a disjunction the must-analysis has no single atom)"""
        out = []

        def go(x, acc):
            if x is stmt or (isinstance(x, dict) and any(y is stmt for y in ([x.get('e')] if x.get('k') in ('ExprStmt',) else []))):
                out.extend(acc); return True
            if not isinstance(x, dict):
                return False
            k = x.get('k')
            if k == 'If':
                for br in ('then', 'else'):
                    if x.get(br) is not None and any(y is stmt for y in walk(x[br])):
                        return go(x[br], acc + [pp(x['cond'])[:100]])
                return False
            if k in ('While', 'For', 'Do'):
                if x.get('body') is not None and any(y is stmt for y in walk(x['body'])):
                    return go(x['body'], acc + [pp(x.get('cond'))[:100] if x.get('cond') is not None else '<loop>'])
                return False
            if k == 'Compound':
                for c in x['c']:
                    if c is stmt or any(y is stmt for y in walk(c)):
                        return go(c, acc)
                return False
            out.extend(acc)
            return True
        go(a['body'], [])
        return out
    # G[u]: the conditions (texts) under which u runs when the transformer is reset; frozenset() = always
    G = {}
    work = [(u, frozenset()) for u in roots]
    while work:
        u, g = work.pop(0)
        if u in G and (len(G[u]) <= len(g)):
            continue
        G[u] = g
        c = cfg_of(u)
        if c is None:
            continue
        cfg, mn, must = c
        for n in cfg.nodes:
            if n.ast is None or n.kind not in ('stmt', 'cond'):
                continue
            cs = list(calls(n.ast))
            if not cs:
                continue
            extra = frozenset() if n.id in mn else frozenset(pp(common.norm_atom(at, br)[0])[:80] for at, br in must.get(n.id, []))
            if n.id not in mn and not extra:
                extra = frozenset(controlling(facts.ast(u), n.ast) or ['<some path>'])
            for call in cs:
                nm = call.get('n') or callee(call).split('::')[-1]
                for t in edges[u].get(nm, ()):
                    ng = g | extra
                    if t not in G or len(ng) < len(G[t]):
                        work.append((t, ng))
    if len(G) < 100:
        raise AnalysisBroken('only %d functions are reached from ~EnsureReset' % len(G))
    K = long_lived_classes(facts)
    rreach = cg.reach(roots)
    reach = cg.reach(facts.fn('XalanTransformer::doTransform'))
    ctor_dtor = {k for k, f in facts.F.items() if f.get('kind') in ('ctor', 'dtor')}
    rs = collections.defaultdict(list); ex = set()
    for w in facts.W:
        cls = w['field'].rsplit('::', 1)[0]
        if cls not in K:
            continue
        if w['from'] in rreach and (w['kind'] == 'assign' or (w['kind'].startswith('call:') and w['kind'][5:] in CLEARING | {'pop_back'})):
            rs[w['field']].append(w)            # pop_back: "while (!m_x.empty()) { ...; m_x.pop_back(); }" empties the container
        if w['from'] in reach and w['from'] not in rreach and w['from'] not in ctor_dtor:
            ex.add(w['field'])
    for fld, ws in sorted(rs.items()):
        if fld not in ex:
            continue
        name = fld.split('::')[-1]
        sfld = short(fld)
        if sfld in R7_REVIEWED:
            r.ok(sfld, 'reviewed: ' + R7_REVIEWED[sfld])
            continue
        best = None
        for w in ws:
            u = w['from']
            if u not in G:
                continue
            c = cfg_of(u)
            if c is None:
                continue
            cfg, mn, must = c
            line = int(w['loc'].rsplit(':', 1)[-1])
            nodes = [n for n in cfg.nodes if n.ast is not None and n.line is not None and abs(n.line - line) <= 2 and
                     any(y.get('k') == 'Member' and y.get('m') == name for y in walk(n.ast))]
            if not nodes:
                nodes = [n for n in cfg.nodes if n.ast is not None and n.line == line]
            for n in nodes:
                conds = set(G[u])
                if n.id not in mn:
                    local = [pp(common.norm_atom(at, br)[0])[:80] for at, br in must.get(n.id, [])]
                    conds |= set(local) if local else set(controlling(facts.ast(u), n.ast) or ['<some path>'])
                foreign = sorted(x for x in conds if name not in x)
                if best is None or len(foreign) < len(best[0]):
                    best = (foreign, w)
        if best is None:
            r.violation('field %s' % sfld, 're-initialised only in functions the destructor of EnsureReset does not reach by calls (only through code that is itself conditional)',
                        ws[0]['loc'].replace('/repo/', ''))
        elif best[0]:
            r.violation('field %s' % sfld, 're-initialised (%s in %s) only when %s: after a transformation that leaves that condition false the field keeps what the transformation wrote' %
                        (best[1]['kind'], short(facts.name.get(best[1]['from'], '?')), ' and '.join(best[0][:3])), best[1]['loc'].replace('/repo/', ''))
        else:
            r.ok(sfld, 'unconditionally, or under a test of the field itself')
    return r


_run_c06_prev7 = run


def run(res, facts, tier):
    _run_c06_prev7(res, facts, tier)
    r7_unconditional(res, facts)
    from . import c06_pool
    c06_pool.run_rule(res, facts, tier)
