"""C04-R15 / C01-R16 — the attributes of a result element form a set under EXPANDED names.

XSLT 1.0 7.1.3: adding an attribute to an element replaces any existing attribute of that element with the same expanded-name.  Namespaces in XML 6.3: no element
may carry two attributes whose qualified names have the same local part and prefixes bound to the same namespace name.  Every attribute - literal, xsl:attribute,
attribute sets, copies - reaches the pending element through XSLTEngineImpl::addResultAttribute, whose list is keyed by the QUALIFIED name.  The function is interpreted on
sequences of additions (attributes with one or two prefixes bound to one or two namespace names, without prefix, namespace declarations in between) with the list and the
namespace bindings as models; afterwards no two attributes have the same expanded name, every expanded name carries the value added last, every prefix used is bound, and a
declaration is in the list exactly when it changed a binding."""
import itertools
from ..build import AnalysisBroken
from ..mast import Unsupported, callee, strip_casts
from ..facts import NS
from ..omach import OMachine, Obj, Vec, Fault
from . import common
from .c01_copyns import NSWorld, Reported


class AWorld(NSWorld):
    def allow(self, body, c):
        if not body['file'].endswith(('XSLT/XSLTEngineImpl.cpp', 'XSLT/XSLTEngineImpl.hpp')):
            return False
        n = (body.get('fq') or '').split('::')[-1]
        return n in ('addResultAttribute', 'getNamespaceForPrefix')

    def hook(self, m, c):
        k = c['k']
        n = c.get('n') or callee(c).split('::')[-1]
        if k == 'MCall':
            tgt = m.target_obj(c)
            a = c.get('args', [])
            if isinstance(tgt, Obj) and tgt.cls == 'attlist':
                items = tgt.fields['items']
                if n == 'getLength':
                    return len(items)
                if n == 'getName':
                    return items[int(m.ev(a[0]))][0]
                if n == 'getValue':
                    return items[int(m.ev(a[0]))][1]
                if n == 'removeAttribute':
                    nm = m.ev(a[0])
                    for i, (x, _) in enumerate(items):
                        if x == nm:
                            del items[i]
                            return 1
                    return 0
                if n == 'addAttribute':
                    nm, val = m.ev(a[0]), m.ev(a[2])
                    for i, (x, _) in enumerate(items):
                        if x == nm:
                            items[i] = (nm, val)        # AttributeListImpl::addAttribute updates an attribute of the same (qualified) name in place
                            return 1
                    items.append((nm, val))
                    return 1
                raise Unsupported('attribute list method ' + n)
            if isinstance(tgt, Obj) and tgt.cls.endswith('XSLTEngineImpl'):
                if n in ('getNamespaceForPrefix',) and len(a) == 1:
                    p = m.ev(a[0])
                    v = self.local.get(p, self.outer.get(p))
                    return v if v is not None else 0
                if n == 'addResultAttribute':
                    return NotImplemented
            if isinstance(tgt, str) and n == 'c_str':
                return tgt
            if isinstance(tgt, str) and n == 'assign' and len(a) == 2:
                s2, ln = m.ev(a[0]), int(m.ev(a[1]))
                m.assign(strip_casts(c['obj']), s2[:ln])
                return 0
        if k == 'Call':
            a = c.get('args', [])
            if n == 'length' and len(a) == 1:
                v = m.ev(a[0])
                if isinstance(v, str):
                    return len(v)
            if n == 'endsWith' and len(a) == 2:
                x, y = m.ev(a[0]), m.ev(a[1])
                if isinstance(x, str) and isinstance(y, str):
                    return int(x.endswith(y))
            if n == 'equals' and len(a) == 3:
                x, y, ln = m.ev(a[0]), m.ev(a[1]), int(m.ev(a[2]))
                return int(x == y[:ln] and len(x) == ln)
        return super().hook(m, c)


def expanded(name, bound):
    if ':' in name:
        p, l = name.split(':', 1)
        return (bound.get(p, '?unbound:' + p), l)
    return ('', name)


SCENARIOS = [
    # (outer bindings, [(name, value)...])
    ({}, [('xmlns:p', 'urn:x'), ('p:a', '1'), ('xmlns:q', 'urn:x'), ('q:a', '2')]),
    ({'p': 'urn:x', 'q': 'urn:x'}, [('p:a', '1'), ('q:a', '2')]),
    ({'p': 'urn:x', 'q': 'urn:x'}, [('p:a', '1'), ('b', '0'), ('q:a', '2'), ('p:a', '3')]),
    ({'p': 'urn:x', 'q': 'urn:y'}, [('p:a', '1'), ('q:a', '2')]),
    ({'p': 'urn:x'}, [('p:a', '1'), ('a', '2'), ('p:a', '3')]),
    ({'p': 'urn:x', 'q': 'urn:x', 'r': 'urn:x'}, [('p:a', '1'), ('q:b', '2'), ('r:a', '3'), ('r:b', '4')]),
    ({'p': 'urn:x'}, [('p:a', '1'), ('xmlns:q', 'urn:x'), ('q:a', '2'), ('q:ab', '3'), ('p:b', '4')]),
    ({'p': 'urn:x', 'q': 'urn:x'}, [('p:ab', '1'), ('q:b', '2'), ('q:a', '3')]),
    ({}, [('a', '1'), ('a', '2')]),
    ({'p': 'urn:x'}, [('xmlns:p', 'urn:x'), ('p:a', '1')]),
    ({'p': 'urn:x'}, [('xmlns:p', 'urn:y'), ('p:a', '1')]),
    ({}, [('xmlns', 'urn:d'), ('a', '1')]),
    ({}, [('xmlns', ''), ('a', '1')]),
    ({'': 'urn:d'}, [('xmlns', ''), ('a', '1')]),
    ({'': 'urn:d'}, [('xmlns', 'urn:d'), ('a', '1')]),
]


def run_rule(res, facts, tier, rid='C04-R15'):
    r = res.rule(rid, 'the attributes of a result element are a set under expanded names: XSLTEngineImpl::addResultAttribute interpreted on sequences of additions (prefixes bound to '
                 'the same / different namespace names, no prefix, namespace declarations in between): afterwards no two attributes share an expanded name, each expanded name has '
                 'the value added last, every prefix is bound, a declaration stays in the list exactly when it changed a binding (XSLT 1.0 7.1.3, Namespaces in XML 6.3)',
                 floor=len(SCENARIOS))
    w = AWorld(facts)
    cands = [a for a in facts.asts('XSLTEngineImpl::addResultAttribute', must=False) if a.get('body') is not None and len(a['params']) == 6]
    if len(cands) != 1:
        raise AnalysisBroken('XSLTEngineImpl::addResultAttribute(list, name, value, length, fromCopy, locator): %d bodies' % len(cands))
    fn = cands[0]
    kfields = {f['n'] for f in (facts.K.get(NS + 'XSLTEngineImpl') or {}).get('fields', [])}
    for outer, adds in SCENARIOS:
        for from_copy in (0, 1):
            w.outer = dict(outer); w.local = {}; w.pending = []; w.pending_prefixes = set()
            att = Obj('attlist', {'items': []})
            this = Obj(NS + 'XSLTEngineImpl', {'m_resultNamespacesStack': 'NSSTACK', 'm_executionContext': 'ECTX'})
            for f in kfields:
                this.fields.setdefault(f, 0)
            site = 'attributes %s added %sto an element inside %s' % (', '.join('%s="%s"' % nv for nv in adds), 'by copying ' if from_copy else '',
                                                                      ('elements binding ' + ', '.join('%s=%s' % (k or '(default)', v) for k, v in sorted(outer.items()))) if outer else 'no bindings')
            outcome = None
            last = {}
            try:
                for nm, val in adds:
                    w.calls = 0
                    m = OMachine(w, {}, this)
                    m.fuel = 20000
                    m.run_body(fn, [att, nm, val, len(val), from_copy, 0], this)
                    bound = dict(w.outer); bound.update(w.local)
                    if not nm.startswith('xmlns'):
                        last[expanded(nm, bound)] = val
            except Reported as x:
                outcome = 'reported: %s' % x
            except Fault as f:
                outcome = 'FAULT: %s' % f
            except Unsupported as u:
                raise AnalysisBroken('addResultAttribute outside the interpreted subset (%s): %s' % (site, u))
            if outcome is not None:
                if outcome.startswith('FAULT'):
                    r.violation('attribute additions: fault', '%s: %s' % (site, outcome), common.file_line(fn))
                elif from_copy and any(n2.startswith('xmlns') and outer.get(n2[6:] if ':' in n2 else '') not in (None, v2) for n2, v2 in adds):
                    r.ok(site, 'an error is reported: a copied namespace node contradicts a binding')
                else:
                    r.violation('attribute additions: spurious error', '%s: %s' % (site, outcome), common.file_line(fn))
                continue
            bound = dict(w.outer); bound.update(w.local)
            items = [(n2, v2) for n2, v2 in att.fields['items'] if not n2.startswith('xmlns')]
            exp = [expanded(n2, bound) for n2, _ in items]
            bad = None
            if len(exp) != len(set(exp)):
                dup = sorted({e for e in exp if exp.count(e) > 1})
                bad = ('attribute additions: two attributes with one expanded name',
                       'the element ends up with %s: {%s}%s occurs twice - not namespace-well-formed; 7.1.3: the later addition replaces the earlier attribute' %
                       (' '.join('%s="%s"' % nv for nv in items), dup[0][0], dup[0][1]))
            elif any(e[0].startswith('?unbound') for e in exp):
                bad = ('attribute additions: unbound prefix', 'the element ends up with %s and the bindings %s' % (items, bound))
            else:
                got = {expanded(n2, bound): v2 for n2, v2 in items}
                if got != last:
                    bad = ('attribute additions: value of an expanded name', 'the element ends up with %s; required per expanded name: %s' % (sorted(got.items()), sorted(last.items())))
            if bad:
                r.violation(bad[0], '%s: %s' % (site, bad[1]), common.file_line(fn))
            else:
                r.ok(site, ' '.join('%s="%s"' % nv for nv in att.fields['items']))
    return r


def run_c01_rule(res, facts, tier):
    return run_rule(res, facts, tier, 'C01-R16')
