"""C01-R3 — xsl:element: the namespace declarations it adds put the element into the namespace XSLT 1.0 §7.1.2 prescribes.

ElemElement::startElement (with fixupDefaultNamespace) is interpreted over the finite domain
    name {e, p:e} x namespace attribute {absent, "", urn:a} x stylesheet binding of p {none, urn:a, urn:b} x stylesheet default namespace {none, urn:a}
    x default namespace in scope in the result tree {none, urn:a, urn:b} x result binding of p {none, urn:a, urn:b} x static default namespace of the parent {"", urn:b}
and for each point the declarations passed to addResultAttribute are combined with what is in scope: the binding of the element's
prefix (or of the default namespace for an unprefixed name) after them must be the required namespace, and nothing else may be declared."""
import itertools
from ..build import AnalysisBroken
from ..mast import walk, calls, callee, strip_casts, Machine, Unsupported, pp
from ..facts import short
from . import common


class StrMachine(Machine):
    def __init__(self, facts, env, cfg, rec):
        super().__init__(env, call_hook=self.hook, global_hook=self.ghook)
        self.facts, self.cfg, self.rec = facts, cfg, rec

    def ghook(self, q):
        if q.endswith('s_XMLNamespaceWithSeparator'):
            return 'xmlns:'
        if q.endswith('s_XMLNamespace'):
            return 'xmlns'
        if q.endswith('s_emptyString'):
            return ''
        return NotImplemented

    def setref(self, e, v):
        t = strip_casts(e)
        if isinstance(t, dict) and t.get('k') == 'Ref':
            self.env[t['id']] = v
        else:
            raise Unsupported('string target ' + pp(e))

    def hook(self, m, c):
        k = c['k']
        n = c.get('n') or callee(c).split('::')[-1]
        cfg = self.cfg
        if k == 'Ctor':
            if len(c.get('args', [])) == 1 and 'GetCachedString' not in (c.get('cls') or ''):
                return self.ev(c['args'][0])
            return 'GUARD'
        if k == 'OpCall':
            if c['op'] == '=' and len(c['args']) == 2:
                v = self.ev(c['args'][1])
                self.setref(c['args'][0], v)
                return v
            if c['op'] in ('==', '!=') and len(c['args']) == 2:
                a, b = self.ev(c['args'][0]), self.ev(c['args'][1])
                return int((a == b) == (c['op'] == '=='))
            return NotImplemented
        if n == 'evaluate':
            which = pp(strip_casts(c.get('obj')))
            self.setref(c['args'][0], cfg['name'] if 'name' in which.lower() and 'namespace' not in which.lower() else cfg['ns'])
            return 0
        if n in ('getAndPushCachedString', 'get'):
            return ''
        if n == 'isValidQName':
            return 1
        if n in ('warn', 'error'):
            self.rec.append(('warn',))
            return 0
        if n in ('pushSkipElementAttributes', 'beginExecuteChildren', 'getNamespacesHandler'):
            return 0
        if n == 'startElement' and k == 'MCall' and 'executionContext' in pp(c.get('obj')):
            self.rec.append(('start', self.ev(c['args'][0])))
            return 0
        if n == 'startElement':
            return 0    # ElemUse::startElement: attribute sets
        if n == 'addResultAttribute':
            self.rec.append(('decl', self.ev(c['args'][0]), self.ev(c['args'][1])))
            return 0
        if n == 'getNamespace':
            p = self.ev(c['args'][0])
            return cfg['S_d'] if p == '' else cfg['S_p']
        if n == 'getResultNamespaceForPrefix':
            p = self.ev(c['args'][0])
            return cfg['R_d'] if p == '' else cfg['R_p']
        if n == 'getParentDefaultNamespace':
            return cfg['parent']
        if n == 'length':
            return len(self.ev(c['obj']))
        if n == 'empty':
            return int(self.ev(c['obj']) == '')
        if n == 'c_str':
            return self.ev(c['obj'])
        if n == 'indexOf':
            s, ch = self.ev(c['args'][0]), self.ev(c['args'][1])
            ch = chr(ch) if isinstance(ch, int) else ch
            return s.index(ch) if ch in s else len(s)
        if n == 'substring':
            s = self.ev(c['args'][0])
            a = self.ev(c['args'][2]); b = self.ev(c['args'][3]) if len(c['args']) > 3 else len(s)
            self.setref(c['args'][1], s[a:b])
            return 0
        if n == 'equals':
            return int(self.ev(c['args'][0]) == self.ev(c['args'][1]))
        if n == 'erase' and k == 'MCall':
            s = self.ev(c['obj']); a, b = self.ev(c['args'][0]), self.ev(c['args'][1])
            self.setref(c['obj'], s[:a] + s[a + b:])
            return 0
        if n == 'insert' and k == 'MCall':
            s = self.ev(c['obj']); a, t = self.ev(c['args'][0]), self.ev(c['args'][1])
            self.setref(c['obj'], s[:a] + t + s[a:])
            return 0
        if n == 'fixupDefaultNamespace':
            a = self.facts.asts('ElemElement::fixupDefaultNamespace')[0]
            sub = StrMachine(self.facts, {}, cfg, self.rec)
            sub.call(a['body'])
            return 0
        return NotImplemented


def run(res, facts):
    r = res.rule('C01-R3', 'xsl:element (ElemElement::startElement + fixupDefaultNamespace, interpreted over name x namespace attribute x stylesheet bindings x result-tree bindings): '
                 'after the declarations it adds, the element\'s prefix (or the default namespace) is bound to the namespace XSLT 1.0 §7.1.2 requires, and nothing else is declared', floor=400)
    cands = [a for a in facts.asts('ElemElement::startElement') if a['file'].endswith('ElemElement.cpp')]
    if len(cands) != 1:
        raise AnalysisBroken('ElemElement::startElement: %d bodies' % len(cands))
    a = cands[0]
    NONE = 0
    reported = 0
    for name, ns, S_p, S_d, R_d, R_p, parent in itertools.product(('e', 'p:e'), (None, '', 'urn:a'), (NONE, 'urn:a', 'urn:b'), (NONE, 'urn:a'),
                                                                  (NONE, 'urn:a', 'urn:b'), (NONE, 'urn:a', 'urn:b'), ('', 'urn:b')):
        prefixed = ':' in name
        if prefixed and ns == '':
            continue        # xmlns:p="" cannot be written in XML 1.0; XSLT leaves the prefix to the processor
        if ns is not None:
            want = ns
        elif prefixed:
            if S_p == NONE:
                continue    # undeclared prefix without namespace attribute: an error, no element is created
            want = S_p
        else:
            want = S_d or ''
        cfg = {'name': name, 'ns': ns if ns is not None else '', 'S_p': S_p, 'S_d': S_d, 'R_d': R_d, 'R_p': R_p, 'parent': parent}
        rec = []
        m = StrMachine(facts, {'.m_namespaceAVT': 0 if ns is None else 'AVT', '.m_nameAVT': 'AVT'}, cfg, rec)
        try:
            m.call(a['body'])
        except Unsupported as u:
            raise AnalysisBroken('ElemElement::startElement outside the interpreted subset: %s' % u)
        starts = [x for x in rec if x[0] == 'start']
        decls = [x for x in rec if x[0] == 'decl']
        site = 'xsl:element name=%s namespace=%s | stylesheet: p=%s default=%s | result tree: default=%s p=%s | parent default=%r' % (
            name, 'absent' if ns is None else repr(ns), S_p or 'none', S_d or 'none', R_d or 'none', R_p or 'none', parent)
        if len(starts) != 1:
            if prefixed and S_p == NONE and ns is not None and len(starts) == 1:
                pass
            r.violation(site, 'startElement is called %d times' % len(starts), common.file_line(a))
            continue
        out_name = starts[0][1]
        out_prefix = out_name.split(':')[0] if ':' in out_name else ''
        attr = 'xmlns:' + out_prefix if out_prefix else 'xmlns'
        scope = (R_p if out_prefix else R_d) or ''
        others = [d for d in decls if d[1] != attr]
        mine = [d for d in decls if d[1] == attr]
        bound = mine[-1][2] if mine else scope
        if others:
            msg = 'declares %s, which is not the binding of the element\'s own prefix' % others
        elif bound != want:
            msg = 'the element %s ends up in namespace %r (in scope: %r, declared: %s), required %r' % (out_name, bound, scope, [d[1:] for d in mine] or 'nothing', want)
        else:
            msg = None
        if msg is None:
            r.ok(site, 'bound to %r' % bound)
        else:
            reported += 1
            if reported <= 4:
                r.violation(site, msg, common.file_line(a))
            else:
                r.instances += 1
    if reported > 4:
        r.note('%d further points of the domain violate the clause' % (reported - 4))
    return r


# ----------------------------------------------------------------------------------------------- R4: namespace nodes of literal result elements
class NsObj:
    def __init__(self, prefix, uri):
        self.prefix, self.uri = prefix, uri

    def __repr__(self):
        return '%s=%s' % (self.prefix or '#default', self.uri)


class NsMachine(StrMachine):
    """StrMachine plus vector iteration over Namespace objects (NamespacesHandler::postConstruction and the members it calls)"""

    def __init__(self, facts, env, cfg, rec, obj):
        super().__init__(facts, env, cfg, rec)
        self.obj = obj          # member vectors by name
        self.fuel = 4000

    def ev(self, e):
        from .c10_lists import It
        k = e['k']
        if k == 'Member' and (strip_casts(e.get('obj')) is None or strip_casts(e['obj']).get('k') == 'This') and e['m'] in self.obj:
            return self.obj[e['m']]
        if k == 'Un' and e['op'] == '*':
            v = self.ev(e['e'])
            if isinstance(v, It):
                return v.vec.items[v.i]
            return v
        if k == 'Un' and e['op'] in ('++', '--'):
            t = strip_casts(e['e'])
            old = self.ev(t)
            if isinstance(old, It):
                new = It(old.vec, old.i + (1 if e['op'] == '++' else -1))
                self.env[t['id']] = new
                return old if e.get('post') else new
        return super().ev(e)

    def hook(self, m, c):
        from .c10_lists import It, Vec
        k = c['k']
        n = c.get('n') or callee(c).split('::')[-1]
        cfg = self.cfg
        if k == 'OpCall':
            op = c['op']; a = c['args']
            if op == '*' and len(a) == 1:
                v = self.ev(a[0])
                return v.vec.items[v.i] if isinstance(v, It) else v
            if op in ('++', '--'):
                t = strip_casts(a[0]); old = self.ev(t)
                if isinstance(old, It):
                    new = It(old.vec, old.i + (1 if op == '++' else -1))
                    self.env[t['id']] = new
                    return old if len(a) == 2 else new
            if op in ('==', '!=') and len(a) == 2:
                l, r = self.ev(a[0]), self.ev(a[1])
                if isinstance(l, It) or isinstance(r, It):
                    return int((l == r) == (op == '=='))
            if op == '=' and len(a) == 2:
                v = self.ev(a[1])
                t = strip_casts(a[0])
                if isinstance(t, dict) and t.get('k') == 'Ref':
                    self.env[t['id']] = v
                    return v
        if k == 'Ctor':
            if len(c.get('args', [])) == 1:
                return self.ev(c['args'][0])
            if len(c.get('args', [])) == 2 and 'GetCachedString' not in (c.get('cls') or ''):
                return ('pair', self.ev(c['args'][0]), self.ev(c['args'][1]))
        if k == 'MCall':
            ob = strip_casts(c.get('obj'))
            o = None
            try:
                o = self.ev(ob) if ob is not None and ob.get('k') != 'This' else None
            except Unsupported:
                o = None
            if isinstance(o, It) and n in ('getPrefix', 'getURI', 'setURI'):
                o = o.vec.items[o.i]
            if isinstance(o, NsObj):
                if n == 'getPrefix':
                    return o.prefix
                if n == 'getURI':
                    return o.uri
                if n == 'setURI':
                    o.uri = self.ev(c['args'][0]); return 0
            if isinstance(o, Vec):
                if n in ('begin', 'end'):
                    return It(o, 0 if n == 'begin' else len(o.items))
                if n == 'empty':
                    return int(not o.items)
                if n == 'size':
                    return len(o.items)
                if n == 'erase':
                    it = self.ev(c['args'][0])
                    del o.items[it.i]
                    return It(o, it.i)
                if n == 'push_back':
                    o.items.append(self.ev(c['args'][0])); return 0
            if n == 'getPooledString':
                return self.ev(c['args'][0])
            if n == 'isActive':
                return 0
            if ob is None or ob.get('k') == 'This':
                if n == 'isExcludedNamespaceURI':
                    return int(self.ev(c['args'][0]) in cfg['excluded'])
                if n == 'isExtensionNamespaceURI':
                    return 0
                if n == 'getNamespaceAlias':
                    return cfg['aliases'].get(self.ev(c['args'][0]), 0)
                if n in ('copyNamespaceAliases', 'copyExtensionNamespaceURIs', 'copyExcludeResultPrefixes', 'createResultAttributeNames'):
                    return 0
                if n in ('processExcludeResultPrefixes', 'processNamespaceAliases'):
                    a = self.facts.ast(c.get('usr')) if c.get('usr') else None
                    if a is None:
                        raise Unsupported('NamespacesHandler::%s: callee not resolved' % n)
                    sub = NsMachine(self.facts, {p['id']: self.ev(x) for p, x in zip(a['params'], c['args'])}, cfg, self.rec, self.obj)
                    self.rec.append(('call', n))
                    sub.call(a['body'])
                    return 0
        return super().hook(m, c)


def r4_literal_namespaces(res, facts):
    import itertools
    from .c10_lists import Vec
    r = res.rule('C01-R4', 'namespace nodes a literal result element copies (NamespacesHandler::postConstruction with processExcludeResultPrefixes and processNamespaceAliases, interpreted '
                 'over declarations x excluded URIs x aliases x owner prefix): a node is dropped exactly when its stylesheet URI is excluded and it is not the owner\'s prefix, and the '
                 'survivors carry the alias of their stylesheet URI (XSLT 1.0 §7.1.1: exclusion by the literal URI, then aliasing)', floor=200)
    cands = [a for a in facts.asts('NamespacesHandler::postConstruction') if len(a['params']) == 5]
    if len(cands) != 1:
        raise AnalysisBroken('NamespacesHandler::postConstruction(5 parameters): %d bodies' % len(cands))
    a = cands[0]
    DECLS = [('', 'urn:d'), ('lit', 'urn:lit'), ('o', 'urn:o'), ('k', 'urn:res')]
    EXCL = ['urn:lit', 'urn:res']
    ALIAS = [('urn:lit', 'urn:res'), ('urn:o', 'urn:lit')]
    reported = 0
    for nd in range(1, len(DECLS) + 1):
        for decls in itertools.combinations(DECLS, nd):
            for ne in range(1, len(EXCL) + 1):
                for excl in itertools.combinations(EXCL, ne):
                    for na in range(0, len(ALIAS) + 1):
                        for al in itertools.combinations(ALIAS, na):
                            for owner in ('e', 'lit:e'):
                                cfg = {'excluded': set(excl), 'aliases': dict(al), 'name': owner, 'ns': ''}
                                vec = Vec([NsObj(p, u) for p, u in decls])
                                obj = {'m_namespaceDeclarations': vec, 'm_excludedResultPrefixes': Vec([('pair', 'x', u) for u in excl])}
                                rec = []
                                pid = [p['id'] for p in a['params']]
                                m = NsMachine(facts, {pid[0]: 'CTX', pid[1]: 1, pid[2]: owner, pid[3]: 0, pid[4]: 0}, cfg, rec, obj)
                                try:
                                    m.call(a['body'])
                                except Unsupported as u:
                                    raise AnalysisBroken('NamespacesHandler::postConstruction outside the interpreted subset: %s' % u)
                                own_prefix = owner.split(':')[0] if ':' in owner else ''
                                want = [(p, dict(al).get(u, u)) for p, u in decls if not (u in excl and p != own_prefix)]
                                got = [(x.prefix, x.uri) for x in vec.items]
                                site = 'literal result element <%s> declares %s | exclude %s | alias %s' % (owner, ['%s=%s' % (p or '#default', u) for p, u in decls], list(excl), ['%s->%s' % x for x in al])
                                if got == want:
                                    r.ok(site)
                                else:
                                    reported += 1
                                    if reported <= 3:
                                        order = [x[1] for x in rec if x[0] == 'call']
                                        r.violation(site, 'copies %s, required %s (order of processing: %s)' % (['%s=%s' % (p or '#default', u) for p, u in got], ['%s=%s' % (p or '#default', u) for p, u in want], ' then '.join(order)),
                                                    common.file_line(a))
                                    else:
                                        r.instances += 1
    return r
