"""C01-R3 — xsl:element: the namespace declarations it adds put the element into the namespace XSLT 1.0 §7.1.2 prescribes.

ElemElement::startElement (with fixupDefaultNamespace) is interpreted over the finite domain
    name {e, p:e} x namespace attribute {absent, "", urn:a} x stylesheet binding of p {none, urn:a, urn:b} x stylesheet default namespace {none, urn:a}
    x default namespace in scope in the result tree {none, urn:a, urn:b} x result binding of p {none, urn:a, urn:b} x static default namespace of the parent {"", urn:b}
and for each point the declarations passed to addResultAttribute are combined with what is in scope: the binding of the element's
prefix (or of the default namespace for an unprefixed name) after them must be the required namespace, and nothing else may be declared."""
import itertools
from ..build import AnalysisBroken
from ..mast import walk, calls, callee, strip_casts, Machine, Unsupported, pp
from ..facts import short
from . import common


class StrMachine(Machine):
    def __init__(self, facts, env, cfg, rec):
        super().__init__(env, call_hook=self.hook, global_hook=self.ghook)
        self.facts, self.cfg, self.rec = facts, cfg, rec

    def ghook(self, q):
        if q.endswith('s_XMLNamespaceWithSeparator'):
            return 'xmlns:'
        if q.endswith('s_XMLNamespace'):
            return 'xmlns'
        if q.endswith('s_emptyString'):
            return ''
        return NotImplemented

    def setref(self, e, v):
        t = strip_casts(e)
        if isinstance(t, dict) and t.get('k') == 'Ref':
            self.env[t['id']] = v
        else:
            raise Unsupported('string target ' + pp(e))

    def hook(self, m, c):
        k = c['k']
        n = c.get('n') or callee(c).split('::')[-1]
        cfg = self.cfg
        if k == 'Ctor':
            if len(c.get('args', [])) == 1 and 'GetCachedString' not in (c.get('cls') or ''):
                return self.ev(c['args'][0])
            return 'GUARD'
        if k == 'OpCall':
            if c['op'] == '=' and len(c['args']) == 2:
                v = self.ev(c['args'][1])
                self.setref(c['args'][0], v)
                return v
            if c['op'] in ('==', '!=') and len(c['args']) == 2:
                a, b = self.ev(c['args'][0]), self.ev(c['args'][1])
                return int((a == b) == (c['op'] == '=='))
            return NotImplemented
        if n == 'evaluate':
            which = pp(strip_casts(c.get('obj')))
            self.setref(c['args'][0], cfg['name'] if 'name' in which.lower() and 'namespace' not in which.lower() else cfg['ns'])
            return 0
        if n in ('getAndPushCachedString', 'get'):
            return ''
        if n == 'isValidQName':
            return 1
        if n in ('warn', 'error'):
            self.rec.append(('warn',))
            return 0
        if n in ('pushSkipElementAttributes', 'beginExecuteChildren', 'getNamespacesHandler'):
            return 0
        if n == 'startElement' and k == 'MCall' and 'executionContext' in pp(c.get('obj')):
            self.rec.append(('start', self.ev(c['args'][0])))
            return 0
        if n == 'startElement':
            return 0    # ElemUse::startElement: attribute sets
        if n == 'addResultAttribute':
            self.rec.append(('decl', self.ev(c['args'][0]), self.ev(c['args'][1])))
            return 0
        if n == 'getNamespace':
            p = self.ev(c['args'][0])
            return cfg['S_d'] if p == '' else cfg['S_p']
        if n == 'getResultNamespaceForPrefix':
            p = self.ev(c['args'][0])
            return cfg['R_d'] if p == '' else cfg['R_p']
        if n == 'getParentDefaultNamespace':
            return cfg['parent']
        if n == 'length':
            return len(self.ev(c['obj']))
        if n == 'empty':
            return int(self.ev(c['obj']) == '')
        if n == 'c_str':
            return self.ev(c['obj'])
        if n == 'indexOf':
            s, ch = self.ev(c['args'][0]), self.ev(c['args'][1])
            ch = chr(ch) if isinstance(ch, int) else ch
            return s.index(ch) if ch in s else len(s)
        if n == 'substring':
            s = self.ev(c['args'][0])
            a = self.ev(c['args'][2]); b = self.ev(c['args'][3]) if len(c['args']) > 3 else len(s)
            self.setref(c['args'][1], s[a:b])
            return 0
        if n == 'equals':
            return int(self.ev(c['args'][0]) == self.ev(c['args'][1]))
        if n == 'erase' and k == 'MCall':
            s = self.ev(c['obj']); a, b = self.ev(c['args'][0]), self.ev(c['args'][1])
            self.setref(c['obj'], s[:a] + s[a + b:])
            return 0
        if n == 'insert' and k == 'MCall':
            s = self.ev(c['obj']); a, t = self.ev(c['args'][0]), self.ev(c['args'][1])
            self.setref(c['obj'], s[:a] + t + s[a:])
            return 0
        if n == 'fixupDefaultNamespace':
            a = self.facts.asts('ElemElement::fixupDefaultNamespace')[0]
            sub = StrMachine(self.facts, {}, cfg, self.rec)
            sub.call(a['body'])
            return 0
        return NotImplemented


def run(res, facts):
    r = res.rule('C01-R3', 'xsl:element (ElemElement::startElement + fixupDefaultNamespace, interpreted over name x namespace attribute x stylesheet bindings x result-tree bindings): '
                 'after the declarations it adds, the element\'s prefix (or the default namespace) is bound to the namespace XSLT 1.0 §7.1.2 requires, and nothing else is declared', floor=400)
    cands = [a for a in facts.asts('ElemElement::startElement') if a['file'].endswith('ElemElement.cpp')]
    if len(cands) != 1:
        raise AnalysisBroken('ElemElement::startElement: %d bodies' % len(cands))
    a = cands[0]
    NONE = 0
    reported = 0
    for name, ns, S_p, S_d, R_d, R_p, parent in itertools.product(('e', 'p:e'), (None, '', 'urn:a'), (NONE, 'urn:a', 'urn:b'), (NONE, 'urn:a'),
                                                                  (NONE, 'urn:a', 'urn:b'), (NONE, 'urn:a', 'urn:b'), ('', 'urn:b')):
        prefixed = ':' in name
        if prefixed and ns == '':
            continue        # xmlns:p="" cannot be written in XML 1.0; XSLT leaves the prefix to the processor
        if ns is not None:
            want = ns
        elif prefixed:
            if S_p == NONE:
                continue    # undeclared prefix without namespace attribute: an error, no element is created
            want = S_p
        else:
            want = S_d or ''
        cfg = {'name': name, 'ns': ns if ns is not None else '', 'S_p': S_p, 'S_d': S_d, 'R_d': R_d, 'R_p': R_p, 'parent': parent}
        rec = []
        m = StrMachine(facts, {'.m_namespaceAVT': 0 if ns is None else 'AVT', '.m_nameAVT': 'AVT'}, cfg, rec)
        try:
            m.call(a['body'])
        except Unsupported as u:
            raise AnalysisBroken('ElemElement::startElement outside the interpreted subset: %s' % u)
        starts = [x for x in rec if x[0] == 'start']
        decls = [x for x in rec if x[0] == 'decl']
        site = 'xsl:element name=%s namespace=%s | stylesheet: p=%s default=%s | result tree: default=%s p=%s | parent default=%r' % (
            name, 'absent' if ns is None else repr(ns), S_p or 'none', S_d or 'none', R_d or 'none', R_p or 'none', parent)
        if len(starts) != 1:
            if prefixed and S_p == NONE and ns is not None and len(starts) == 1:
                pass
            r.violation(site, 'startElement is called %d times' % len(starts), common.file_line(a))
            continue
        out_name = starts[0][1]
        out_prefix = out_name.split(':')[0] if ':' in out_name else ''
        attr = 'xmlns:' + out_prefix if out_prefix else 'xmlns'
        scope = (R_p if out_prefix else R_d) or ''
        others = [d for d in decls if d[1] != attr]
        mine = [d for d in decls if d[1] == attr]
        bound = mine[-1][2] if mine else scope
        if others:
            msg = 'declares %s, which is not the binding of the element\'s own prefix' % others
        elif bound != want:
            msg = 'the element %s ends up in namespace %r (in scope: %r, declared: %s), required %r' % (out_name, bound, scope, [d[1:] for d in mine] or 'nothing', want)
        else:
            msg = None
        if msg is None:
            r.ok(site, 'bound to %r' % bound)
        else:
            reported += 1
            if reported <= 4:
                r.violation(site, msg, common.file_line(a))
            else:
                r.instances += 1
    if reported > 4:
        r.note('%d further points of the domain violate the clause' % (reported - 4))
    return r
