"""C19-R6 / C19-R7 — containers of owned pointers: a pointer is never dropped.

A member container of raw pointers is *owning* when library code releases its elements (a releasing functor in for_each over it,
or XalanDestroy / destroy / deallocate / delete applied to a value read from it).  The set is derived from the code on every run.

R6 (removals).  Every pop_front / pop_back / erase / clear on an owning container is one of
    released     a release of a value read from the container lies on every path through the removal (before it or after it)
    transferred  the value read from the container is pushed into a container, returned, or stored in a member on every such path
    by-value     erase(v) with v a pointer / key the caller still holds (not an iterator): nothing becomes unreachable
    release-all  clear(): preceded by a releasing for_each / loop over the container, by a swap into a temporary, or accompanied
                 by reset() of the arena allocator the elements were created from
  otherwise the block the pointer refers to can never be returned to the MemoryManager: violation at the removal.

R7 (keyed stores).  Storing an owned pointer into an owning XalanMap:
    insert(k, p) does nothing when k is present  -> k must be known absent (find(k) == end() dominates) or key and value are the same pointer
    m[k] = p overwrites the old pointer          -> k known absent, key == value, or the old value is read and released
  otherwise either the new object (insert) or the old one (operator[]) is dropped."""
import collections, re
from ..build import AnalysisBroken
from ..mast import walk, calls, callee, strip_casts, pp, CFG
from ..facts import short, NS
from . import common

CONT = re.compile(r'\b(XalanVector|XalanList|XalanDeque|XalanMap|XalanSet|vector|deque|list|map|set)<')
REL = {'XalanDestroy', 'destroy', 'deallocate', 'destroyObject', 'XalanDestruct'}
REMOVE = {'pop_front', 'pop_back', 'erase', 'clear'}
PUSH = {'push_back', 'push_front', 'insert', 'push', 'addNode', 'add'}
RELNAME = re.compile(r'^(delete|destroy|return|release|dispose|free)[A-Z_]')
NONREAD = {'getMemoryManager', 'size', 'empty', 'count', 'max_size', 'capacity', 'reserve'}


def strip_t(n):
    out = ''; d = 0
    for ch in n:
        if ch == '<':
            d += 1
        elif ch == '>':
            d -= 1
        elif d == 0:
            out += ch
    return out


def is_ptr_cont(ty):
    return bool(ty and CONT.search(ty) and re.search(r'\*\s*(const\s*)?[,>]', ty))


def field_of(x):
    return strip_t(short(x.get('field') or x['m']))


def cname(c):
    return c.get('n') or callee(c).split('::')[-1]


def reads_of(e, derived):
    """fields of pointer containers, and derived locals, whose elements e may denote (mentions outside size()/getMemoryManager())"""
    out = set()

    def go(x):
        if isinstance(x, list):
            for y in x:
                go(y)
            return
        if not isinstance(x, dict):
            return
        k = x.get('k')
        if k == 'MCall' and x.get('n') in NONREAD:
            for a in x.get('args', []):
                go(a)
            return
        if k == 'Member' and is_ptr_cont(x.get('ty')):
            out.add(field_of(x))
        if k == 'Ref' and x.get('id') in derived:
            out.update(derived[x['id']])
        for v in x.values():
            if isinstance(v, (dict, list)):
                go(v)
    go(e)
    return out


class Flow:
    """per function: which locals hold values read from which pointer containers"""

    def __init__(self, a):
        self.a = a
        self.derived = {}
        changed = True
        rounds = 0
        while changed and rounds < 6:
            changed = False
            rounds += 1
            for x in walk(a['body']):
                if x['k'] == 'Decl':
                    for v in x.get('vars', []):
                        if v.get('init') is not None:
                            s = reads_of(v['init'], self.derived)
                            if s - self.derived.get(v['id'], set()):
                                self.derived.setdefault(v['id'], set()).update(s); changed = True
                elif x['k'] == 'Bin' and x['op'] == '=':
                    t = strip_casts(x['lhs'])
                    if isinstance(t, dict) and t.get('k') == 'Ref' and t.get('d') == 'local':
                        s = reads_of(x['rhs'], self.derived)
                        if s - self.derived.get(t['id'], set()):
                            self.derived.setdefault(t['id'], set()).update(s); changed = True
                elif x['k'] == 'OpCall' and x['op'] == '=' and len(x['args']) == 2:
                    t = strip_casts(x['args'][0])
                    if isinstance(t, dict) and t.get('k') == 'Ref' and t.get('d') == 'local':
                        s = reads_of(x['args'][1], self.derived)
                        if s - self.derived.get(t['id'], set()):
                            self.derived.setdefault(t['id'], set()).update(s); changed = True

    def reads(self, e):
        return reads_of(e, self.derived)


class Releasers:
    """functor classes / helper functions that release their argument"""

    def __init__(self, facts):
        self.facts = facts
        self.memo = {}

    def body_releases(self, a, depth):
        for c in calls(a['body']):
            n = cname(c)
            if n in REL:
                return True
            if c.get('k') == 'OpCall' and c.get('op') == '()' and c['args']:
                t = strip_casts(c['args'][0])
                if isinstance(t, dict) and self.functor(t, depth + 1):
                    return True
            if depth < 3 and c.get('k') in ('Call', 'MCall') and c.get('fn'):
                if self.fn_releases(c['fn'], depth + 1):
                    return True
                if c.get('virt') and c.get('usr'):
                    for o in sorted(self.facts.cg.all_over(c['usr']))[:8]:
                        if self.fn_releases(self.facts.name.get(o, ''), depth + 1):
                            return True
        return any(x.get('k') == 'Delete' for x in walk(a['body']))

    def fn_releases(self, fn, depth=0):
        key = ('fn', fn)
        if key in self.memo:
            return self.memo[key]
        self.memo[key] = False
        r = False
        nm = short(fn)
        if strip_t(nm).split('::')[-1] in REL:
            r = True
        else:
            for a in (self.facts.asts(fn, must=False) or self.facts.asts(nm, must=False))[:3]:
                if self.body_releases(a, depth):
                    r = True
                    break
        self.memo[key] = r
        return r

    def cls_releases(self, cls, depth=0):
        key = ('cls', cls)
        if key in self.memo:
            return self.memo[key]
        self.memo[key] = False
        r = False
        for a in (self.facts.asts(cls + '::operator()', must=False) or self.facts.asts(short(cls) + '::operator()', must=False))[:3]:
            if self.body_releases(a, depth):
                r = True
                break
        self.memo[key] = r
        return r

    def functor(self, e, depth=0):
        """expression denoting a releasing functor object (constructor call, make...Functor helper, or a member of such a type)"""
        if depth > 4:
            return False
        e = strip_casts(e)
        if not isinstance(e, dict):
            return False
        if e.get('k') == 'Ctor':
            if e.get('cls') and self.cls_releases(e['cls'], depth):
                return True
            return any(self.functor(x, depth + 1) for x in e.get('args', [])[:1]) if e.get('copy') or len(e.get('args', [])) == 1 else False
        if e.get('k') == 'Call' and e.get('fn'):
            ty = e.get('ty') or ''
            if ty and self.cls_releases(ty, depth):
                return True
        if e.get('k') in ('Member', 'Ref'):
            ty = (e.get('ty') or '').replace('const ', '').strip()
            if ty and self.cls_releases(ty, depth):
                return True
        return False


def release_args(c):
    """the expression released by a release primitive call"""
    n = cname(c)
    if n in ('XalanDestroy', 'XalanDestruct'):
        # XalanDestroy(manager, object) destroys and returns the storage; XalanDestroy(object) only runs the destructor
        return c['args'][-1:] if len(c.get('args', [])) >= 2 else []
    if n in ('destroy', 'deallocate', 'destroyObject'):
        return c['args'][-1:] if c['args'] else []
    return []


def stmt_events(flow, rel, n_ast):
    """(kind, fields) events of one CFG node: 'release' / 'transfer' of values read from those containers; 'release_all' over a container"""
    ev = []
    for c in calls(n_ast):
        n = cname(c)
        if n in REL:
            for e in release_args(c):
                s = flow.reads(e)
                if s:
                    ev.append(('release', s, c))
        elif n == 'for_each' and len(c.get('args', [])) == 3 and rel.functor(c['args'][2]):
            s = flow.reads(c['args'][0]) | flow.reads(c['args'][1])
            if s:
                ev.append(('release_all', s, c))
        elif c.get('k') == 'OpCall' and c.get('op') == '()' and len(c['args']) >= 2 and rel.functor(c['args'][0]):
            s = set()
            for e in c['args'][1:]:
                s |= flow.reads(e)
            if s:
                ev.append(('release', s, c))
        elif n in PUSH and c.get('k') == 'MCall' and c.get('args'):
            s = flow.reads(c['args'][-1])
            if s:
                ev.append(('transfer', s, c))
        elif RELNAME.match(n) and c.get('k') in ('Call', 'MCall') and c.get('args') and c.get('fn'):
            # deleteObject(p), returnXPath(p), ...: a helper named for it that reaches a release primitive (or has no body here: an interface)
            has_body = bool(rel.facts.asts(c['fn'], must=False) or rel.facts.asts(short(c['fn']), must=False))
            if not has_body or rel.fn_releases(c['fn']) or (c.get('virt') and any(rel.fn_releases(rel.facts.name.get(o, '')) for o in sorted(rel.facts.cg.all_over(c.get('usr')))[:8])):
                s = set()
                for e in c['args']:
                    s |= flow.reads(e)
                if s:
                    ev.append(('release', s, c))
        elif n == 'swap' and c.get('k') == 'MCall' and c.get('args'):
            s = flow.reads(c['args'][0]) | flow.reads(c.get('obj'))
            if s:
                ev.append(('swap', s, c))
    for x in walk(n_ast):
        k = x.get('k')
        if k == 'Decl':
            for v in x.get('vars', []):
                if re.search(r'\b(XalanMemMgrAutoPtr|XalanAutoPtr|XalanMemMgrAutoPtrArray|XalanAllocationGuard)\b', v.get('ty') or '') and v.get('init') is not None:
                    init = strip_casts(v['init'])
                    if isinstance(init, dict) and init.get('k') == 'Ctor' and init.get('args'):
                        s = flow.reads(init['args'][-1])
                        if s:
                            ev.append(('release', s, x))
        if k == 'Delete':
            s = flow.reads(x.get('e'))
            if s:
                ev.append(('release', s, x))
        elif k == 'Return' and x.get('e') is not None:
            s = flow.reads(x['e'])
            if s:
                ev.append(('transfer', s, x))
        elif k == 'Bin' and x['op'] == '=':
            t = strip_casts(x['lhs'])
            if isinstance(t, dict) and t.get('k') == 'Member' and not is_ptr_cont(t.get('ty')):
                s = flow.reads(x['rhs'])
                if s:
                    ev.append(('transfer', s, x))
            elif isinstance(t, dict) and ((t.get('k') == 'MCall' and t.get('n') in ('back', 'front')) or (t.get('k') == 'OpCall' and t.get('op') == '[]')):
                # slot of a pointer container assigned: c.back() = p
                base = strip_casts(t.get('obj') if t.get('k') == 'MCall' else t['args'][0])
                if isinstance(base, dict) and base.get('k') == 'Member' and is_ptr_cont(base.get('ty')):
                    s = flow.reads(x['rhs'])
                    if s:
                        ev.append(('transfer', s, x))
    return ev


def lib_functions(facts):
    for k in facts.astidx:
        a = facts.ast(k)
        if a is None or not (facts.lib_path(a['file']) or common.is_fixture(a)):
            continue
        yield k, a


def discover(facts, rel):
    """{field: [evidence]} of owning containers, plus per function pre-computed flows for functions touching pointer containers"""
    own = collections.defaultdict(set)
    touched = []
    for k, a in lib_functions(facts):
        has = False
        for x in walk(a['body']):
            if x.get('k') == 'Member' and is_ptr_cont(x.get('ty')):
                has = True
                break
        if not has:
            continue
        flow = Flow(a)
        touched.append((k, a, flow))
        fn = strip_t(short(facts.name[k]))
        for kind, s, node in stmt_events(flow, rel, a['body']):
            if kind in ('release', 'release_all'):
                for m in s:
                    own[m].add('%s: %s' % (fn, pp(node)[:70]))
    # a member container handed to a function that releases every element of the container it is given (deleteEntries(m_cacheVector))
    releasing_params = {}
    for k, a in lib_functions(facts):
        for c in calls(a['body']):
            if cname(c) == 'for_each' and len(c.get('args', [])) == 3 and rel.functor(c['args'][2]):
                a0 = strip_casts(c['args'][0])
                if isinstance(a0, dict) and a0.get('k') == 'MCall' and a0.get('n') in ('begin', 'rbegin'):
                    a0 = a0.get('obj')
                rr = root_ref(a0)
                if rr is not None and rr.get('d') == 'param':
                    idx = [i for i, p in enumerate(a['params']) if p.get('id') == rr.get('id')]
                    if idx:
                        releasing_params[a['usr']] = idx[0]
    for k, a, flow in touched:
        fn = strip_t(short(facts.name[k]))
        for c in calls(a['body']):
            if c.get('usr') in releasing_params and len(c.get('args', [])) > releasing_params[c['usr']]:
                o = strip_casts(c['args'][releasing_params[c['usr']]])
                if isinstance(o, dict) and o.get('k') == 'Member' and is_ptr_cont(o.get('ty')):
                    own[field_of(o)].add('%s: %s' % (fn, pp(c)[:70]))
    # a container whose elements are moved into an owning container is owning, too (the pending attributes go to the cache of entries)
    moves = []
    for k, a, flow in touched:
        fn = strip_t(short(facts.name[k]))
        for c in calls(a['body']):
            if c.get('k') == 'MCall' and cname(c) in PUSH and c.get('args'):
                o = strip_casts(c.get('obj'))
                if isinstance(o, dict) and o.get('k') == 'Member' and is_ptr_cont(o.get('ty')):
                    src = set()
                    for e in c['args']:
                        src |= flow.reads(e)
                    src.discard(field_of(o))
                    if src:
                        moves.append((field_of(o), src, '%s: %s' % (fn, pp(c)[:70])))
    discover.moves = moves
    changed = True
    while changed:
        changed = False
        for tgt, src, ev in moves:
            if tgt in own:
                for m in src:
                    if m not in own:
                        own[m].add('elements are moved into the owning %s (%s)' % (tgt.split('::')[-1], ev)); changed = True
    return own, touched


def covered(cfg, site, cover_ids):
    """a covering node lies on every entry->site path or on every site->exit path"""
    avoid = lambda n: n.id in cover_ids
    if site.id in cover_ids:
        return True
    before = cfg.reachable_avoiding([cfg.entry], avoid)
    if site.id not in before:
        return True
    after = cfg.reachable_avoiding([site], avoid)
    return cfg.exit.id not in after


def allocator_sources(facts, touched, field):
    """allocator members from which values pushed into `field` are created (arena-backed elements)"""
    src = set()
    for k, a, flow in touched:
        for c in calls(a['body']):
            if c.get('k') == 'MCall' and cname(c) in PUSH and c.get('args'):
                o = strip_casts(c.get('obj'))
                if isinstance(o, dict) and o.get('k') == 'Member' and is_ptr_cont(o.get('ty')) and field_of(o) == field:
                    for x in walk(c['args'][-1]):
                        if x.get('k') == 'MCall' and x.get('n') in ('create', 'allocate', 'allocateBlock'):
                            oo = strip_casts(x.get('obj'))
                            if isinstance(oo, dict) and oo.get('k') == 'Member':
                                src.add(oo['m'])
                    # through a local
                    for x in walk(a['body']):
                        if x['k'] == 'Decl':
                            for v in x.get('vars', []):
                                if v.get('init') is not None and any(r.get('k') == 'Ref' and r.get('id') == v['id'] for r in walk(c['args'][-1])):
                                    for y in walk(v['init']):
                                        if y.get('k') == 'MCall' and y.get('n') in ('create', 'allocate', 'allocateBlock'):
                                            oo = strip_casts(y.get('obj'))
                                            if isinstance(oo, dict) and oo.get('k') == 'Member':
                                                src.add(oo['m'])
    return src


def key_absent(flow, conds, cont_field, key_txt):
    """find(key) == end() established (either comparison orientation), directly or through a const local iterator"""
    for atom, br in conds:
        e, b = common.norm_atom(atom, br)
        if not isinstance(e, dict):
            continue
        if e.get('k') in ('OpCall', 'Bin') and e.get('op') in ('==', '!='):
            ops = e['args'] if e['k'] == 'OpCall' else [e['lhs'], e['rhs']]
            txt = [pp(strip_casts(o)) for o in ops]
            sides = []
            for o in ops:
                o = strip_casts(o)
                # resolve a local iterator to its initialiser
                if isinstance(o, dict) and o.get('k') == 'Ref':
                    for x in walk(flow.a['body']):
                        if x['k'] == 'Decl':
                            for v in x.get('vars', []):
                                if v['id'] == o.get('id') and v.get('init') is not None:
                                    o = strip_casts(v['init'])
                    while isinstance(o, dict) and o.get('k') == 'Ctor' and len(o.get('args', [])) == 1:
                        o = strip_casts(o['args'][0])
                sides.append(o)
            kinds = []
            for o in sides:
                if isinstance(o, dict) and o.get('k') == 'MCall' and o.get('n') == 'find' and pp(strip_casts(o.get('obj'))).endswith(cont_field.split('::')[-1]) and o.get('args') and pp(strip_casts(o['args'][0])) == key_txt:
                    kinds.append('find')
                elif isinstance(o, dict) and o.get('k') == 'MCall' and o.get('n') == 'end':
                    kinds.append('end')
                else:
                    kinds.append('?')
            if sorted(kinds) == ['end', 'find'] and ((e['op'] == '==') == b):
                return True
    return False


def root_ref(e):
    """the variable a value expression is built on: strips casts, &x, *x, x->y / x.y reads"""
    e = strip_casts(e)
    while isinstance(e, dict):
        if e.get('k') == 'Un' and e.get('op') in ('&', '*'):
            e = strip_casts(e['e'])
        elif e.get('k') == 'Ctor' and len(e.get('args', [])) == 1:
            e = strip_casts(e['args'][0])
        else:
            break
    return e if isinstance(e, dict) and e.get('k') == 'Ref' else None


def is_map_member(o):
    return isinstance(o, dict) and o.get('k') == 'Member' and 'XalanMap<' in (o.get('ty') or '') and is_ptr_cont(o.get('ty'))


def collect_stores(a):
    """keyed stores into pointer maps in one function: [(field, kind, key text, value text, node)], kind in insert / assign / slot"""
    out = []
    slots = {}
    for x in walk(a['body']):
        k = x.get('k')
        if k == 'MCall' and x.get('n') == 'insert' and len(x.get('args', [])) == 2 and is_map_member(strip_casts(x.get('obj'))):
            out.append((field_of(strip_casts(x['obj'])), 'insert', pp(strip_casts(x['args'][0])), pp(strip_casts(x['args'][1])), x))
        elif k in ('Bin', 'OpCall') and x.get('op') == '=':
            lhs, rhs = (x['lhs'], x['rhs']) if k == 'Bin' else (x['args'][0], x['args'][1]) if len(x['args']) == 2 else (None, None)
            t = strip_casts(lhs) if lhs is not None else None
            if isinstance(t, dict) and t.get('k') == 'OpCall' and t.get('op') == '[]' and is_map_member(strip_casts(t['args'][0])):
                out.append((field_of(strip_casts(t['args'][0])), 'assign', pp(strip_casts(t['args'][1])), pp(strip_casts(rhs)), x))
            elif isinstance(t, dict) and t.get('k') == 'Ref' and t.get('id') in slots:
                f, key, decl = slots[t['id']]
                out.append((f, 'slot', key, pp(strip_casts(rhs)), x))
        elif k == 'Decl':
            for v in x.get('vars', []):
                init = strip_casts(v.get('init')) if v.get('init') is not None else None
                if isinstance(init, dict) and init.get('k') == 'OpCall' and init.get('op') == '[]' and (v.get('ty') or '').rstrip().endswith('&') and is_map_member(strip_casts(init['args'][0])):
                    slots[v['id']] = (field_of(strip_casts(init['args'][0])), pp(strip_casts(init['args'][1])), x)
    return out, slots


def run_rules(res, facts, tier):
    rel = Releasers(facts)
    own, touched = discover(facts, rel)
    r6 = res.rule('C19-R6', 'owning pointer containers (derived: containers whose elements library code releases): every pop / erase / clear is covered by a release or a '
                  'transfer of the removed pointer on every path through it, removes an element the caller named and still holds, or is a clear() accompanied by a release '
                  'of all elements; otherwise the block is unreachable and never goes back to the manager', floor=25)
    r7 = res.rule('C19-R7', 'keyed stores of owned pointers into owning maps: XalanMap::insert does not replace and operator[] assignment overwrites; the key is known '
                  'absent, or is the pointer stored, or the value overwritten is released', floor=5)
    if len(own) < 25:
        raise AnalysisBroken('only %d owning pointer containers discovered (floor 25)' % len(own))
    # pass 1: keyed stores; identity maps (every store puts a pointer under itself)
    stores_by_fn = {}
    per_field = collections.defaultdict(list)
    for k, a, flow in touched:
        st, slots = collect_stores(a)
        st = [x for x in st if x[0] in own]
        if st:
            stores_by_fn[k] = st
            for f, kind, key, val, node in st:
                per_field[f].append(key == val)
    identity = {f for f, v in per_field.items() if v and all(v)}
    seen = set()
    for k, a, flow in touched:
        fn = strip_t(short(facts.name[k]))
        removals = []
        for c in calls(a['body']):
            if c.get('k') != 'MCall' or cname(c) not in REMOVE:
                continue
            o = strip_casts(c.get('obj'))
            if isinstance(o, dict) and o.get('k') == 'Member' and is_ptr_cont(o.get('ty')) and field_of(o) in own:
                removals.append((field_of(o), c, o))
        st = stores_by_fn.get(k, [])
        if not removals and not st:
            continue
        cfg = CFG(a)
        must = common.must_conds(cfg)
        node_of = {}
        for n in cfg.nodes:
            if n.ast is None or n.kind not in ('stmt', 'cond'):
                continue
            for x in walk(n.ast):
                node_of[id(x)] = n
        # aliases: an iterator found by value names the value searched for
        for x in walk(a['body']):
            if x.get('k') != 'Decl':
                continue
            for v in x.get('vars', []):
                init = strip_casts(v.get('init')) if v.get('init') is not None else None
                while isinstance(init, dict) and init.get('k') == 'Ctor' and len(init.get('args', [])) == 1:
                    init = strip_casts(init['args'][0])
                if not isinstance(init, dict):
                    continue
                val = None
                fld = None
                if init.get('k') == 'Call' and cname(init) == 'find' and len(init.get('args', [])) == 3:
                    fs = flow.reads(init['args'][0])
                    if len(fs) == 1:
                        fld, val = list(fs)[0], init['args'][2]
                elif init.get('k') == 'MCall' and init.get('n') == 'find' and init.get('args'):
                    o = strip_casts(init.get('obj'))
                    if isinstance(o, dict) and o.get('k') == 'Member' and is_ptr_cont(o.get('ty')):
                        f0 = field_of(o)
                        if f0 in identity or 'XalanSet<' in (o.get('ty') or ''):
                            fld, val = f0, init['args'][0]
                if fld and val is not None:
                    rr = root_ref(val)
                    if rr is not None:
                        flow.derived.setdefault(rr['id'], set()).add(fld)
        events = {}
        for n in cfg.nodes:
            if n.ast is not None and n.kind in ('stmt', 'cond'):
                events[n.id] = stmt_events(flow, rel, n.ast)
        for f, c, o in removals:
            n = node_of.get(id(c))
            key = (fn, f, cname(c), c.get('l'))
            if key in seen or n is None:
                continue
            seen.add(key)
            nm = cname(c)
            site = '%s: %s.%s()' % (fn, f.split('::')[-1], nm)
            loc = common.file_line(a, c)
            evidence = sorted(own[f])[0][:90]
            if nm == 'clear':
                earlier = [1 for nid, evs in events.items() for kd, s, nd in evs if f in s and kd in ('release', 'release_all', 'swap', 'transfer') and (nd.get('l') or 0) <= (c.get('l') or 0)]
                srcs = set(allocator_sources(facts, touched, f))
                # elements that reach this container from another one (or go on to another one) come from that container's allocator
                rel_f, grew = {f}, True
                while grew:
                    grew = False
                    for tgt, src, _ in getattr(discover, 'moves', []):
                        if (tgt in rel_f or src & rel_f) and not ({tgt} | src) <= rel_f:
                            rel_f |= {tgt} | src; grew = True
                for f2 in rel_f - {f}:
                    srcs |= set(allocator_sources(facts, touched, f2))
                arena = [cc for cc in calls(a['body']) if cc.get('k') == 'MCall' and cname(cc) in ('reset', 'clear') and isinstance(strip_casts(cc.get('obj')), dict) and strip_casts(cc['obj']).get('k') == 'Member' and strip_casts(cc['obj'])['m'] in srcs]
                if earlier:
                    r6.ok(site, 'release-all: elements released / handed over before the clear')
                elif arena:
                    r6.ok(site, 'release-all: elements live in %s, reset in the same function' % strip_casts(arena[0]['obj'])['m'])
                else:
                    r6.violation(site, 'clear() drops every pointer of an owning container (%s) and nothing in this function releases or hands over the elements' % evidence, loc)
                continue
            if nm == 'erase' and c.get('args'):
                arg = strip_casts(c['args'][0])
                rr = root_ref(arg)
                aty = (arg.get('ty') or '') if isinstance(arg, dict) else ''
                is_iter = 'terator' in aty or (rr is not None and f in flow.derived.get(rr['id'], set()) and rr.get('d') == 'local')
                by_value_ok = ('XalanMap<' not in (o.get('ty') or '')) or f in identity
                if not is_iter and by_value_ok and rr is not None:
                    flow.derived.setdefault(rr['id'], set()).add(f)
                    events = {nn.id: stmt_events(flow, rel, nn.ast) for nn in cfg.nodes if nn.ast is not None and nn.kind in ('stmt', 'cond')}
                    if rr.get('d') == 'param':
                        rel_ids = {nid for nid, evs in events.items() if any(kd in ('release', 'transfer') and f in s for kd, s, _ in evs)}
                        r6.ok(site, 'erase by value of the caller\'s pointer %s%s' % (pp(arg)[:30], ' (released here)' if rel_ids else ' (the caller still holds it)'))
                        continue
            rel_ids = {nid for nid, evs in events.items() if any(kd in ('release', 'transfer', 'release_all', 'swap') and f in s for kd, s, _ in evs)}
            if covered(cfg, n, rel_ids):
                r6.ok(site, 'released or transferred on every path through the removal')
            else:
                r6.violation(site, 'the pointer removed here is neither released nor handed over on every path through the removal (elements of this container are owned: %s)' % evidence, loc)
        for f, kind, ktxt, vtxt, node in st:
            n = node_of.get(id(node))
            key = (fn, f, kind, node.get('l'))
            if key in seen:
                continue
            seen.add(key)
            short_f = f.split('::')[-1]
            site = '%s: %s %s' % (fn, short_f, {'insert': 'insert(key, pointer)', 'assign': '[key] = pointer', 'slot': 'slot reference assigned'}[kind])
            loc = common.file_line(a, node)
            conds = must.get(n.id, []) if n is not None else []
            if kind == 'insert' and not any(t in vtxt for t in ('get()', 'release', 'create(', 'clone(')) and ktxt != vtxt:
                r7.ok(site, 'stores %s: not an object created here' % vtxt[:40])
            elif ktxt == vtxt:
                r7.ok(site, 'key is the pointer stored')
            elif key_absent(flow, conds, f, ktxt):
                r7.ok(site, 'key known absent')
            elif kind in ('assign', 'slot') and any(kd == 'release' and f in s for kd, s, _ in stmt_events(flow, rel, a['body'])):
                r7.ok(site, 'old value read from the map and released')
            elif kind == 'insert':
                r7.violation(site, 'insert(%s, %s) leaves the map unchanged when the key is already present, and the key is not known to be absent: the object just created is dropped '
                             '(its guard is released) and never returned to the manager' % (ktxt[:30], vtxt[:30]), loc)
            else:
                r7.violation(site, '%s[%s] = %s overwrites the pointer stored under a key not known to be absent, without releasing it' % (short_f, ktxt[:30], vtxt[:30]), loc)
    res.assume('C19-R6/R7 decide removal and keyed-store sites of %d owning containers (identity maps: %s); leaks through other shapes (a raw pointer member overwritten, an early return '
               'between create and store, uninstantiated template members) are not decided' % (len(own), sorted(x.split('::')[-1] for x in identity)))
    return own


# ----------------------------------------------------------------------------------------------- R8: hand-over of a guarded object
GUARD_TY = re.compile(r'\b(XalanMemMgrAutoPtr|XalanAutoPtr|XalanMemMgrAutoPtrArray)\b')


def _released_members(facts):
    """members (Class::m_x) that some library function hands to a release primitive or deletes: raw-pointer members that are owned"""
    out = set()
    for k in facts.astidx:
        a = facts.ast(k)
        if a is None or not facts.lib_path(a['file']):
            continue
        for x in walk(a['body']):
            args = []
            if x.get('k') == 'Delete':
                args = [x.get('e')]
            elif x.get('k') in ('Call', 'MCall') and cname(x) in REL and x.get('args'):
                args = [x['args'][-1]]
            for e in args:
                for y in walk(e):
                    if y.get('k') == 'Member' and y.get('field'):
                        out.add(strip_t(short(y['field'])))
    return out


def _stores_param(facts, fn, idx, own, released, depth=0):
    """the callee becomes an owner of its idx-th (pointer) parameter: puts it into an owning container, or assigns it to a member that the library releases"""
    for a in (facts.asts(fn, must=False) or facts.asts(short(fn), must=False))[:2]:
        if idx >= len(a['params']):
            continue
        pid = a['params'][idx]['id']
        for x in walk(a['body']):
            k = x.get('k')
            if k == 'MCall' and x.get('n') in ('push_back', 'push_front', 'insert') and x.get('args'):
                t = strip_casts(x['args'][-1])
                o = strip_casts(x.get('obj'))
                if isinstance(t, dict) and t.get('k') == 'Ref' and t.get('id') == pid and isinstance(o, dict) and o.get('k') == 'Member' and field_of(o) in own:
                    return True
            if k == 'Bin' and x['op'] == '=':
                t, l = strip_casts(x['rhs']), strip_casts(x['lhs'])
                if isinstance(t, dict) and t.get('k') == 'Ref' and t.get('id') == pid and isinstance(l, dict) and l.get('k') == 'Member' and strip_t(short(l.get('field') or '')) in released:
                    return True
            if depth < 2 and k in ('Call', 'MCall') and x.get('fn'):
                for j, a0 in enumerate(x.get('args', [])):
                    t = strip_casts(a0)
                    if isinstance(t, dict) and t.get('k') == 'Ref' and t.get('id') == pid and _stores_param(facts, x['fn'], j, own, released, depth + 1):
                        return True
    return False


def r8_handover(res, facts, own):
    r = res.rule('C19-R8', 'hand-over of a guarded object: when guard.get() is given to a call that keeps the pointer (a container insertion, or a function that stores its parameter), '
                 'guard.release() follows on every path with no call in between — while both the guard and the new owner hold the object, an exception destroys it twice', floor=4)
    n = 0
    released = _released_members(facts)
    for k in facts.astidx:
        a = facts.ast(k)
        if a is None or not facts.lib_path(a['file']):
            continue
        guards = {}
        for x in walk(a['body']):
            if x.get('k') == 'Decl':
                for v in x.get('vars', []):
                    if GUARD_TY.search(v.get('ty') or ''):
                        guards[v['id']] = v['n']
        if not guards:
            continue
        hand = []
        for c in calls(a['body']):
            if c.get('k') not in ('Call', 'MCall'):
                continue
            for j, a0 in enumerate(c.get('args', [])):
                t = strip_casts(a0)
                if isinstance(t, dict) and t.get('k') == 'MCall' and t.get('n') == 'get':
                    o = strip_casts(t.get('obj'))
                    if isinstance(o, dict) and o.get('k') == 'Ref' and o.get('id') in guards:
                        co = strip_casts(c.get('obj')) if c.get('k') == 'MCall' else None
                        direct = c.get('k') == 'MCall' and c.get('n') in ('push_back', 'insert', 'push_front') and isinstance(co, dict) and co.get('k') == 'Member' and field_of(co) in own
                        if direct or (c.get('fn') and _stores_param(facts, c['fn'], j, own, released)):
                            hand.append((c, o['id']))
        if not hand:
            continue
        cfg = CFG(a)
        fn = strip_t(short(facts.name[k]))
        for c, gid in hand:
            n += 1
            hn = None
            for nd in cfg.nodes:
                if nd.ast is not None and any(x is c for x in walk(nd.ast)):
                    hn = nd
            site = '%s: %s handed to %s' % (fn, guards[gid], (c.get('n') or callee(c).split('::')[-1]))
            if hn is None:
                continue

            def is_release(nd):
                return nd.ast is not None and any(x.get('k') == 'MCall' and x.get('n') in ('release', 'releasePtr') and isinstance(strip_casts(x.get('obj')), dict) and strip_casts(x['obj']).get('id') == gid
                                                  for x in walk(nd.ast))
            problem = None
            seen = set()
            work = list(hn.succ)
            while work and problem is None:
                nd = work.pop()
                if nd.id in seen:
                    continue
                seen.add(nd.id)
                if is_release(nd):
                    continue
                if nd is cfg.exit or nd is cfg.throw:
                    problem = 'a path leaves the function without %s.release(): the guard destroys the object its new owner still holds' % guards[gid]
                    break
                if nd.ast is not None and nd.kind in ('stmt', 'cond'):
                    cs = [x for x in calls(nd.ast) if x.get('k') in ('Call', 'MCall', 'Ctor') and not (x.get('k') == 'Ctor' and not x.get('args'))]
                    cs = [x for x in cs if (x.get('n') or callee(x).split('::')[-1]) not in ('get', 'c_str', 'length', 'size', 'empty')]
                    if cs:
                        problem = 'between the hand-over and %s.release() the function calls %s: if that throws, the guard and the new owner both destroy the object' % (guards[gid], pp(cs[0])[:70])
                        break
                work.extend(nd.succ)
            if problem:
                r.violation(site, problem, common.file_line(a, c))
            else:
                r.ok(site, 'release() follows immediately')
    if n < 4:
        raise AnalysisBroken('only %d guarded hand-over sites into owners found (6 confirmed by hand)' % n)
    return r



# ----------------------------------------------------------------------------------------------- R9: destruct-only
INFRA = ('/src/xalanc/Include/', '/PlatformSupport/ArenaBlock', '/PlatformSupport/ReusableArenaBlock', '/PlatformSupport/ArenaAllocator', '/PlatformSupport/ReusableArenaAllocator',
         '/PlatformSupport/XalanArrayAllocator', '/PlatformSupport/XalanAllocator')


def r9_destruct_only(res, facts):
    r = res.rule('C19-R9', 'outside the container / arena layer an object is never only destructed: an explicit destructor call or the one-argument XalanDestroy(object) — which do not '
                 'return the storage — is followed in the same function by deallocate() of the same pointer on the manager', floor=1)
    n = 0
    for k in facts.astidx:
        a = facts.ast(k)
        if a is None or not facts.lib_path(a['file']) or any(t in a['file'] for t in INFRA):
            continue
        sites = []
        for c in calls(a['body']):
            nm = cname(c)
            if c.get('k') == 'MCall' and nm.startswith('~'):
                sites.append((c, strip_casts(c.get('obj'))))
            elif nm == 'XalanDestroy' and len(c.get('args', [])) == 1:
                sites.append((c, strip_casts(c['args'][0])))
        if not sites:
            continue
        fn = strip_t(short(facts.name[k]))
        deallocs = [pp(strip_casts(x['args'][-1])).replace('(void *)', '').strip('()* ') for x in calls(a['body']) if cname(x) == 'deallocate' and x.get('args')]
        for c, obj in sites:
            n += 1
            t = pp(obj).strip('()*& ') if obj is not None else '?'
            while t.startswith('*'):
                t = t[1:]
            site = '%s: %s' % (fn, pp(c)[:50])
            if any(t and (t == d or t in d or d in t) for d in deallocs):
                r.ok(site, 'storage returned by deallocate(%s)' % t)
            else:
                r.violation(site, 'the object is destructed but its storage is not returned: %s only runs the destructor, and no deallocate() of %s follows in this function — the block '
                            'stays with the MemoryManager for ever' % (pp(c)[:40], t), common.file_line(a, c))
    if n == 0:
        raise AnalysisBroken('no destruct-only site found outside the container layer (StylesheetExecutionContextDefault::returnXResultTreeFrag expected)')
    return r


# ----------------------------------------------------------------------------------------------- R13: a slot of an owning container is not overwritten
def r13_slot_stores(res, facts, own=None, touched=None, rel=None):
    """An owning container of raw pointers holds the only reference to each element.  Assigning to a slot - through an iterator (*i = p), an index (v[n] = p), back() /
    front() - replaces that reference: the element that was there must have been released, or handed on (pushed elsewhere, returned, stored in a member), in the same
    function before the store; a slot that was just created (push_back(0) / resize, then back() = p) holds nothing.  Maps are C19-R7's."""
    r = res.rule('C19-R13', 'a slot of an owning pointer container (vector / deque / list; derived as in C19-R6) is assigned only after the pointer it held has been released or handed on '
                 'in the same function, or when the slot was created empty just before: otherwise the old element can never be given back to the manager', floor=3)
    if own is None:
        rel = Releasers(facts)
        own, touched = discover(facts, rel)
    n = 0
    for k, a, flow in touched:
        fn = strip_t(short(facts.name[k]))
        stores = []
        for x in walk(a['body']):
            lhs = rhs = None
            if x.get('k') == 'Bin' and x.get('op') == '=':
                lhs, rhs = strip_casts(x['lhs']), x['rhs']
            elif x.get('k') == 'OpCall' and x.get('op') == '=' and len(x.get('args', [])) == 2:
                lhs, rhs = strip_casts(x['args'][0]), x['args'][1]
            if not isinstance(lhs, dict):
                continue
            flds = set()
            how = None
            if (lhs.get('k') == 'Un' and lhs.get('op') == '*') or (lhs.get('k') == 'OpCall' and lhs.get('op') == '*' and len(lhs.get('args', [])) == 1):
                it = strip_casts(lhs.get('e') if lhs.get('k') == 'Un' else lhs['args'][0])
                if isinstance(it, dict) and it.get('k') == 'Ref' and it.get('d') == 'local' and ('terator' in (it.get('ty') or '') or '*' in (it.get('ty') or '')):
                    flds = {f for f in flow.derived.get(it['id'], set())}
                    how = '*%s' % it.get('n')
            elif lhs.get('k') == 'OpCall' and lhs.get('op') == '[]' and lhs.get('args'):
                base = strip_casts(lhs['args'][0])
                if isinstance(base, dict) and base.get('k') == 'Member' and is_ptr_cont(base.get('ty')) and 'XalanMap<' not in (base.get('ty') or ''):
                    flds = {field_of(base)}; how = '%s[...]' % base['m']
            elif lhs.get('k') == 'MCall' and lhs.get('n') in ('back', 'front'):
                base = strip_casts(lhs.get('obj'))
                if isinstance(base, dict) and base.get('k') == 'Member' and is_ptr_cont(base.get('ty')):
                    flds = {field_of(base)}; how = '%s.%s()' % (base['m'], lhs['n'])
            flds = {f for f in flds if f in own}
            if not flds or 'XalanMap<' in (lhs.get('ty') or ''):
                continue
            # the type stored must be a pointer (an iterator over a map yields pairs: R7's)
            if not (lhs.get('ty') or '').rstrip().endswith('*') and '*' not in (lhs.get('ty') or ''):
                continue
            stores.append((x, lhs, rhs, flds, how))
        if not stores:
            continue
        evs = stmt_events(flow, rel, a['body'])
        for x, lhs, rhs, flds, how in stores:
            n += 1
            site = '%s: %s = ...' % (fn, how)
            line = x.get('l') or 0
            # values moved within the container (a rotation, a compaction) drop nothing
            if flow.reads(rhs) & flds:
                r.ok(site, 'the value stored was read from the same container')
                continue
            before = [e for e in evs if e[0] in ('release', 'transfer', 'release_all', 'swap') and (e[1] & flds) and ((e[2].get('l') or 0) <= line)]
            created = [c for c in calls(a['body']) if c.get('k') == 'MCall' and cname(c) in ('push_back', 'resize', 'push_front') and (c.get('l') or 0) <= line and
                       isinstance(strip_casts(c.get('obj')), dict) and strip_casts(c['obj']).get('k') == 'Member' and field_of(strip_casts(c['obj'])) in flds and
                       (cname(c) == 'resize' or (c.get('args') and (strip_casts(c['args'][0]) or {}).get('cv') == 0))]
            if before:
                r.ok(site, 'the element that was there is released / handed on first (%s)' % pp(before[0][2])[:60])
            elif created:
                r.ok(site, 'the slot was created empty just before (%s)' % pp(created[0])[:60])
            else:
                r.violation('%s: a slot of the owning container %s is overwritten' % (fn, '/'.join(sorted(f.split('::')[-1] for f in flds))),
                            '%s = %s replaces the pointer the container held; nothing in this function releases it or hands it on before: the old element (allocated from the manager) is '
                            'unreachable and never given back' % (how, pp(rhs)[:50]), common.file_line(a, x))
    if n < 3:
        raise AnalysisBroken('C19-R13: only %d slot stores into owning containers found' % n)
    return r


# ----------------------------------------------------------------------------------------------- R14: what is erased is what was read
def r14_move_within(res, facts, own=None, touched=None, rel=None):
    """Moving an element inside an owning container - read the pointer through an iterator, erase, insert it again elsewhere - keeps the books only if the node erased is the
    node that was read.  Erasing through another iterator (or through reverse_iterator::base(), which designates the element AFTER the one the reverse iterator refers to)
    removes a neighbour: that element is never released, and the moved one is in the container twice and is released twice."""
    r = res.rule('C19-R14', 'an element moved inside an owning pointer container (pointer read through an iterator, erase, re-insert): the iterator handed to erase is the iterator the '
                 'pointer was read through - not another one, not reverse_iterator::base() of it', floor=1)
    if own is None:
        rel = Releasers(facts)
        own, touched = discover(facts, rel)
    n = 0
    seen = set()
    for k, a, flow in touched:
        fn = strip_t(short(facts.name[k]))
        # locals that hold a pointer read through an iterator: P = *X
        read_through = {}
        for x in walk(a['body']):
            if x.get('k') == 'Decl':
                for v in x.get('vars', []):
                    init = strip_casts(v.get('init')) if v.get('init') is not None else None
                    src = None
                    if isinstance(init, dict) and init.get('k') == 'Un' and init.get('op') == '*':
                        src = strip_casts(init.get('e'))
                    elif isinstance(init, dict) and init.get('k') == 'OpCall' and init.get('op') == '*' and len(init.get('args', [])) == 1:
                        src = strip_casts(init['args'][0])
                    if isinstance(src, dict) and src.get('k') == 'Ref' and src.get('d') == 'local':
                        read_through[v['id']] = (src['id'], src.get('n'), v.get('n'))
        if not read_through:
            continue
        for c in calls(a['body']):
            if c.get('k') != 'MCall' or cname(c) != 'erase' or len(c.get('args', [])) != 1:
                continue
            o = strip_casts(c.get('obj'))
            if not (isinstance(o, dict) and o.get('k') == 'Member' and is_ptr_cont(o.get('ty')) and field_of(o) in own):
                continue
            f = field_of(o)
            # is a value read through an iterator re-inserted into the same container after this erase?
            moved = None
            for c2 in calls(a['body']):
                if c2.get('k') == 'MCall' and cname(c2) in ('push_front', 'push_back', 'insert') and (c2.get('l') or 0) >= (c.get('l') or 0):
                    o2 = strip_casts(c2.get('obj'))
                    if isinstance(o2, dict) and o2.get('k') == 'Member' and field_of(o2) == f and c2.get('args'):
                        rr = root_ref(c2['args'][-1])
                        if rr is not None and rr.get('d') == 'local' and rr.get('id') in read_through and (moved is None or (c2.get('l') or 0) < moved[3]):
                            moved = read_through[rr['id']] + ((c2.get('l') or 0),)
            if moved is None:
                continue
            key = (fn, f, c.get('l'))
            if key in seen:
                continue
            seen.add(key)
            n += 1
            arg = strip_casts(c['args'][0])
            while isinstance(arg, dict) and arg.get('k') == 'Ctor' and len(arg.get('args', [])) == 1:
                arg = strip_casts(arg['args'][0])        # the iterator passed by value
            site = '%s: %s moved within %s' % (fn, moved[2], f.split('::')[-1])
            if isinstance(arg, dict) and arg.get('k') == 'Ref' and arg.get('d') == 'local' and arg.get('id') == moved[0]:
                r.ok(site, 'erase(%s), the iterator %s was read through' % (arg.get('n'), moved[2]))
            elif isinstance(arg, dict) and arg.get('k') == 'MCall' and arg.get('n') == 'base':
                r.violation('%s: erase through reverse_iterator::base()' % fn,
                            '%s was read through the reverse iterator %s, and erase(%s) removes the element AFTER it (base() of a reverse iterator designates the next element): a neighbour '
                            'leaves the container without being released, %s is in it twice' % (moved[2], moved[1], pp(arg)[:40], moved[2]), common.file_line(a, c))
            else:
                r.violation('%s: the element erased is not the element read' % fn,
                            '%s was read through %s, erase is given %s: another element leaves the container without being released, %s is in it twice' %
                            (moved[2], moved[1], pp(arg)[:40], moved[2]), common.file_line(a, c))
    if n < 1:
        raise AnalysisBroken('C19-R14: no move within an owning container found (ReusableArenaAllocator::destroyObject has two)')
    return r
