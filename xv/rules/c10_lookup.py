"""C10-R11 / C09-R10 — the template look-up tables offer every rule whose pattern matches the node.

findTemplate does not try every rule on every node: addTemplate files one entry per alternative of the match pattern, under what getTargetData says about the alternative's
last step (a pseudo name or a local name, and a target type), postConstruction merges the wildcard lists into the per-name tables, and locateMatchPatternDataList picks ONE list
for the node at hand.  A rule that is not in that list does not exist for that node, whatever the matcher would say.

The whole chain is interpreted from the parsed program: the pattern parser (a real op-code map), XPath::getTargetData with the TargetData constructor, the filing loop of
Stylesheet::addTemplate with addToList, addToTable (called by postConstruction for both tables), Stylesheet::locateMatchPatternDataList with its two helpers.  The stylesheet of
every run holds the pattern under test plus rules for the names 'a' and 'x' (so that per-name tables exist for elements and attributes and the wildcard merge matters).
For every pattern of the corpus (C09-R9's patterns and the node-type / wildcard / attribute steps, also as alternatives of unions) and every node of the tree:
  if the node matches the pattern by the definition of XSLT 1.0 5.2, the list looked up for the node holds an entry of that rule.
Modelled, not interpreted: the map behind the per-name tables (an ordered association list), the entry object (template, position, priority), the nodes."""
import itertools
from ..build import AnalysisBroken
from ..mast import Unsupported, callee, strip_casts, pp, walk, calls
from ..facts import NS
from ..omach import OMachine, Obj, Vec, It, Fault
from . import common
from .c09_match import PWorld, Tok, Reject, tree, patterns, ref_match, INDEXED_STEPS, step_matches
from .c12_order import TNode


class PMap:
    """std::map<XalanDOMString, PatternTableVectorType>: pairs sorted by key"""
    identity = True

    def __init__(self):
        self.pairs = Vec([])

    def find(self, key):
        for i, p in enumerate(self.pairs.items):
            if p.fields['first'] == key:
                return It(self.pairs, i)
        return It(self.pairs, len(self.pairs.items))

    def at(self, key):
        it = self.find(key)
        if it.i == len(self.pairs.items):
            self.pairs.items.append(Obj('pair', {'first': key, 'second': Vec([])}))
            self.pairs.items.sort(key=lambda p: p.fields['first'])
            it = self.find(key)
        return self.pairs.items[it.i].fields['second']


class LWorld(PWorld):
    construct_objects = True

    def __init__(self, facts):
        super().__init__(facts)
        self.max_calls = 20000
        self.quiet = True
        self.warnings = 0
        self.gms = None

    def allow(self, body, c):
        f = body['file']
        return super().allow(body, c) or f.endswith(('XSLT/Stylesheet.cpp', 'XSLT/Stylesheet.hpp', 'XSLT/XalanMatchPatternData.hpp', 'XSLT/XalanMatchPatternData.cpp'))

    def destructor(self, o):
        return None

    def hook(self, m, c):
        k = c['k']
        n = c.get('n') or (callee(c).split('::')[-1] if c.get('fn') != '<memptr>' else '<memptr>')
        cls = c.get('cls') or ''
        if k == 'Ctor' and cls.split('<')[0].endswith('XalanMapIterator') and len(c.get('args', [])) == 1:
            return m.ev(c['args'][0])
        if k == 'MCall':
            tgt = m.target_obj(c)
            if isinstance(tgt, PMap):
                if n == 'find':
                    return tgt.find(m.ev(c['args'][0]))
                if n == 'begin':
                    return It(tgt.pairs, 0)
                if n == 'end':
                    return It(tgt.pairs, len(tgt.pairs.items))
                raise Unsupported('map method ' + n)
            if isinstance(tgt, Obj) and tgt.cls == 'template':
                if n == 'getMatchPattern':
                    return tgt.fields['xpath']
                if n == 'getPriority':
                    return tgt.fields['priority']
                if n == 'getMode':
                    return tgt.fields['mode']
                if n == 'getLocator':
                    return 0
            if isinstance(tgt, Obj) and tgt.cls == 'qname':
                if n == 'isEmpty':
                    return int(tgt.fields['name'] == '')
                if n == 'equals':
                    o = m.ev(c['args'][0])
                    return int(isinstance(o, Obj) and o.cls == 'qname' and o.fields['name'] == tgt.fields['name'])
            if tgt == 'ECTX' and n == 'getQuietConflictWarnings':
                return int(self.quiet)
            if tgt == 'ECTX' and n == 'problem':
                self.warnings += 1
                return 0
            if n == 'getMatchScore' and len(c.get('args', [])) == 3 and isinstance(tgt, Obj) and tgt.cls.endswith('XPath'):
                nd = m.ev(c['args'][0])
                sub = OMachine(self, {}, tgt)
                sub.fuel = 20000
                return sub.run_body(self.gms, [nd, 'ECTX'], tgt)
            if tgt == 'CCTX' and n == 'createXalanMatchPatternData':
                a = [m.ev(x) for x in c['args']]
                if len(a) != 6:
                    raise Unsupported('createXalanMatchPatternData with %d arguments' % len(a))
                return Obj(NS + 'XalanMatchPatternData', {'m_template': a[0], 'm_position': a[1], 'm_targetString': a[2], 'm_matchPattern': a[3], 'm_pattern': a[4], 'm_priority': a[5]})
            if n == 'getCurrentPattern':
                return m.target_obj(c).fields.get('m_currentPattern') or 'PATTERN'
            if isinstance(tgt, Obj) and tgt.cls.endswith('TargetData') and n == 'getString' and isinstance(tgt.fields.get('m_string'), Tok):
                return tgt.fields['m_string'].s
        if k == 'OpCall' and c.get('op') == '[]' and len(c['args']) == 2:
            base = m.ev(c['args'][0])
            if isinstance(base, PMap):
                return base.at(m.ev(c['args'][1]))
        if k == 'OpCall' and c.get('op') == '=' and len(c['args']) == 2:
            v = m.ev(c['args'][1])
            if isinstance(v, (str, Tok)):
                m.assign(strip_casts(c['args'][0]), v.s if isinstance(v, Tok) else v)
                return v
        if k == 'Call' and n == 'isNegativeInfinity':
            return int(m.ev(c['args'][0]) == float('-inf'))
        if k == 'Call' and n == 'getNegativeInfinity':
            return float('-inf')
        if k == 'Call' and n == 'getPositiveInfinity':
            return float('inf')
        return super().hook(m, c)


def big_tree():
    """the tree of C09-R9 with a comment and a processing instruction added: <!--c--><a x y><b x><a><b/>text</a></b><a/>text<b><b y/><?p?><!--c--></b></a>"""
    doc, nodes = tree()

    def mk(kind, parent, at=None):
        nd = TNode(kind, '')
        nd.local = '' if kind == 'comment' else 'p'
        nd.parent = parent
        if at is None:
            parent.children.append(nd)
        else:
            parent.children.insert(at, nd)
        return nd
    mk('comment', doc, 0)
    inner = [n for n in nodes if n.kind == 'elem' and n.children and all(c.kind == 'elem' for c in n.children) and n.parent is not doc and n.parent.kind != 'doc']
    host = inner[-1] if inner else nodes[1]
    mk('pi', host)
    mk('comment', host)
    out = []

    def walk_(n):
        out.append(n)
        for x in n.attrs:
            out.append(x)
        for ch in n.children:
            walk_(ch)
    walk_(doc)
    from .c09_match import path
    for i, n in enumerate(out):
        n.order = i
        n.name = path(n) if n.kind not in ('comment', 'pi') else (path(n.parent).rstrip('/') + '/' + ('comment()' if n.kind == 'comment' else 'processing-instruction()'))
    return doc, out


def corpus(tier):
    pats = []
    base = patterns(2)
    if tier != 'thorough':
        base = [p for i, p in enumerate(base) if i % 3 == 0 or len(p) <= 4]
    pats += base
    for st in INDEXED_STEPS:
        pats.append(list(st))
        pats.append(['a', '/'] + list(st))
    singles = [['a'], ['b'], ['*'], ['@', 'x'], ['@', 'y'], ['@', '*'], ['@', 'node', '(', ')'], ['text', '(', ')'], ['node', '(', ')'], ['/'],
               ['comment', '(', ')'], ['processing-instruction', '(', ')'], ['b', '/', 'comment', '(', ')'], ['/', 'comment', '(', ')'], ['/', 'node', '(', ')'],
               ['a', '/', '@', 'node', '(', ')'], ['b', '/', '/', '@', 'node', '(', ')'], ['b', '/', 'node', '(', ')'], ['/', 'a'], ['/', '/', '@', 'y']]
    pats += singles
    unions = []
    for l, r2 in itertools.permutations(singles, 2):
        unions.append(l + ['|'] + r2)
    if tier != 'thorough':
        unions = [u for i, u in enumerate(unions) if i % 4 == 0]
    return pats, unions


def alt_split(toks):
    out, cur = [], []
    for t in toks:
        if t == '|':
            out.append(cur); cur = []
        else:
            cur.append(t)
    out.append(cur)
    return out


class Pipeline:
    """the interpreted chain: compile a pattern, getTargetData, file it (addTemplate's loop), merge (addToTable), look a node up"""

    def __init__(self, facts, r=None):
        self.facts = facts
        w = self.w = LWorld(facts)

        def one(name, pred=lambda a: True):
            c = [a for a in facts.asts(name, must=False) if a.get('body') is not None and pred(a)]
            if len(c) != 1:
                raise AnalysisBroken('%s: %d bodies' % (name, len(c)))
            return c[0]
        self.one = one
        self.init = one('XPathProcessorImpl::initMatchPattern')
        self.gtd = one('XPath::getTargetData')
        self.add = add = one('Stylesheet::addTemplate')
        self.locate = one('Stylesheet::locateMatchPatternDataList')
        self.post = post = one('Stylesheet::postConstruction')
        w.gms = one('XPath::getMatchScore', lambda a: len(a['params']) == 2)
        a2t = [a for a in facts.asts('addToTable', must=False) if a.get('body') is not None and a['file'].endswith('XSLT/Stylesheet.cpp')]
        if len(a2t) != 1:
            raise AnalysisBroken('addToTable: %d bodies' % len(a2t))
        self.a2t = a2t[0]
        # postConstruction merges the wildcard lists into both tables
        merged = set()
        for c in calls(post['body']):
            if (c.get('n') or callee(c).split('::')[-1]) == 'addToTable' and len(c.get('args', [])) == 2:
                t, l = strip_casts(c['args'][0]), strip_casts(c['args'][1])
                merged.add((t.get('m'), l.get('m')))
        for pair in (('m_elementPatternTable', 'm_elementAnyPatternList'), ('m_attributePatternTable', 'm_attributeAnyPatternList')):
            if r is None:
                continue
            if pair in merged:
                r.ok('postConstruction merges %s into %s' % (pair[1], pair[0]))
            else:
                r.violation('postConstruction: %s' % pair[0], 'the wildcard list %s is not merged into the per-name table: rules with wildcard patterns are lost for named nodes' % pair[1],
                            common.file_line(post))
        # the filing loop of addTemplate
        loop = None
        for x in walk(add['body']):
            if x.get('k') == 'For' and any((c.get('n') or '') == 'createXalanMatchPatternData' for c in calls(x)):
                loop = x
        if loop is None:
            raise AnalysisBroken('addTemplate: the loop over the target data is gone')
        self.loop = loop
        # the locals the loop reads, found by what they are (type / initialiser), not by what they are called
        self.locals_ = {}
        for x in walk(add['body']):
            if x.get('k') == 'Decl':
                for v in x.get('vars', []):
                    ty = v.get('ty') or ''
                    ini = v.get('init')
                    inicalls = [(c.get('n') or '') for c in calls(ini)] if ini is not None else []
                    if 'TargetData' in ty and ('Vector' in ty):
                        self.locals_['data'] = v['id']
                    elif 'getMatchPattern' in inicalls:
                        self.locals_['xp'] = v['id']
                    elif ty.replace('xalanc_1_12::', '').strip() == 'XalanDOMString &':
                        self.locals_['tempString'] = v['id']
                    elif 'size' in inicalls and 'data' in self.locals_ and any(y.get('k') == 'Ref' and y.get('id') == self.locals_['data'] for y in walk(ini)):
                        self.locals_['nTargets'] = v['id']
        for need in ('data', 'nTargets', 'tempString', 'xp'):
            if need not in self.locals_:
                raise AnalysisBroken('addTemplate: the local that holds %s is gone' % {'data': 'the target data', 'nTargets': 'the number of targets',
                                                                                       'tempString': 'the target string', 'xp': 'the match pattern'}[need])
        self.T = {k2: facts.enumconst.get(NS + 'XalanNode::' + v) for k2, v in (('elem', 'ELEMENT_NODE'), ('attr', 'ATTRIBUTE_NODE'), ('text', 'TEXT_NODE'), ('doc', 'DOCUMENT_NODE'),
                                                                                 ('comment', 'COMMENT_NODE'), ('pi', 'PROCESSING_INSTRUCTION_NODE'))}
        if None in self.T.values():
            raise AnalysisBroken('node type constants not found')
        self.doc, self.nodes = big_tree()
        w.doc = self.doc

    LISTS = ('m_textPatternList', 'm_commentPatternList', 'm_piPatternList', 'm_rootPatternList', 'm_nodePatternList', 'm_elementAnyPatternList', 'm_attributeAnyPatternList')

    def compile_(self, toks):
        w = self.w
        expr = Obj(NS + 'XPathExpression', {'m_opMap': Vec([], 'ops'), 'm_lastOpCodeIndex': 0, 'm_tokenQueue': Vec([Tok(t) for t in toks], 'tokens'), 'm_currentPosition': 0,
                                            'm_currentPattern': '', 'm_numberLiteralValues': Vec([])})
        xp = Obj(NS + 'XPath', {'m_expression': expr, 'm_locator': 0, 'm_inStylesheet': 1})
        parser = Obj(NS + 'XPathProcessorImpl', {'m_token': '', 'm_tokenChar': 0, 'm_xpath': 0, 'm_constructionContext': 0, 'm_expression': 0, 'm_prefixResolver': 0,
                                                 'm_requireLiterals': 0, 'm_isMatchPattern': 0, 'm_positionPredicateStack': Vec([]), 'm_namespaces': Vec([]), 'm_locator': 0,
                                                 'm_allowVariableReferences': 1, 'm_allowKeyFunction': 1})
        w.calls = 0
        w.pending = list(toks)
        m = OMachine(w, {}, parser)
        m.fuel = 20000
        m.run_body(self.init, [xp, 'CCTX', ' '.join(toks), 'RES', 0, 1, 1], parser)
        return xp

    def file_rule(self, sheet, name, toks, priority=float('-inf'), mode=''):
        w = self.w
        xp = self.compile_(toks)
        xp.fields['m_expression'].fields['m_currentPattern'] = ''.join(toks)
        tmpl = Obj('template', {'name': name, 'xpath': xp, 'priority': priority, 'mode': Obj('qname', {'name': mode})})
        data = Vec([])
        w.calls = 0
        m = OMachine(w, {}, xp)
        m.fuel = 20000
        m.run_body(self.gtd, [data], xp)
        L = self.locals_
        env = {L['data']: data, L['nTargets']: len(data.items), L['tempString']: '', L['xp']: xp}
        for p in self.add['params']:
            env[p['id']] = tmpl if 'ElemTemplate' in (p.get('ty') or '') else 'CCTX'
        w.calls = 0
        m2 = OMachine(w, env, sheet)
        m2.fuel = 20000
        m2.exec(self.loop)
        return tmpl, data

    def new_sheet(self):
        f = {k2: Vec([]) for k2 in self.LISTS}
        f.update({'m_elementPatternTable': PMap(), 'm_attributePatternTable': PMap(), 'm_patternCount': 0, 'm_isWrapperless': 0, 'm_firstTemplate': 0, 'm_imports': Vec([]),
                  'm_importsSize': 0})
        return Obj(NS + 'Stylesheet', f)

    def finish_sheet(self, sheet):
        """what postConstruction does to the tables"""
        w = self.w
        for tab, lst in (('m_elementPatternTable', 'm_elementAnyPatternList'), ('m_attributePatternTable', 'm_attributeAnyPatternList')):
            w.calls = 0
            m3 = OMachine(w, {}, None)
            m3.fuel = 20000
            m3.run_body(self.a2t, [sheet.fields[tab], sheet.fields[lst]], None)
        sheet.fields['m_elementPatternTableEnd'] = It(sheet.fields['m_elementPatternTable'].pairs, len(sheet.fields['m_elementPatternTable'].pairs.items))
        sheet.fields['m_attributePatternTableEnd'] = It(sheet.fields['m_attributePatternTable'].pairs, len(sheet.fields['m_attributePatternTable'].pairs.items))


def run_rule(res, facts, tier, rid='C10-R11'):
    r = res.rule(rid, 'the look-up tables offer every rule whose pattern matches: parser, XPath::getTargetData, the filing loop of Stylesheet::addTemplate with addToList, '
                 'addToTable (postConstruction) and locateMatchPatternDataList interpreted end to end for a corpus of patterns and unions next to rules named a and @x; '
                 'whenever a node matches the pattern by XSLT 1.0 5.2 the list consulted for that node holds an entry of the rule', floor=3000)
    P = Pipeline(facts, r)
    w, add, loop, locate, nodes, T = P.w, P.add, P.loop, P.locate, P.nodes, P.T
    file_rule, new_sheet = P.file_rule, P.new_sheet
    pats, unions = corpus(tier)
    seen = set()
    found = {}
    for toks in pats + unions:
        if tuple(toks) in seen:
            continue
        seen.add(tuple(toks))
        ptxt = ' '.join(toks)
        try:
            sheet = new_sheet()
            file_rule(sheet, 'named-a', ['a'])
            file_rule(sheet, 'named-x', ['@', 'x'])
            tmpl, data = file_rule(sheet, 'P', toks)
            P.finish_sheet(sheet)
        except Reject as x:
            raise AnalysisBroken('the pattern parser rejects the valid pattern "%s" (%s)' % (ptxt, x))
        except Fault as f:
            r.violation('filing ' + ptxt, 'the code misbehaves: %s' % f, common.file_line(add)); continue
        except Unsupported as u:
            raise AnalysisBroken('filing outside the interpreted subset on "%s": %s' % (ptxt, u))
        alts = alt_split(toks)
        for nd in nodes:
            want = any(ref_match(a, nd) for a in alts)
            try:
                w.calls = 0
                m4 = OMachine(w, {}, sheet)
                m4.fuel = 5000
                lst = m4.run_body(locate, [nd, T[nd.kind]], sheet)
            except Fault as f:
                r.violation('look-up for %s' % nd.kind, 'the code misbehaves: %s' % f, common.file_line(locate)); continue
            except Unsupported as u:
                raise AnalysisBroken('look-up outside the interpreted subset for %s: %s' % (nd.name, u))
            if isinstance(lst, It):
                lst = lst.vec
            if not isinstance(lst, Vec):
                raise AnalysisBroken('look-up for %s yields %r, not a list' % (nd.name, lst))
            offered = any(isinstance(e, Obj) and e.cls.endswith('XalanMatchPatternData') and e.fields['m_template'] is tmpl for e in lst.items)
            r.instances += 1
            if want and not offered:
                last = alts[[ref_match(a, nd) for a in alts].index(True)]
                key = ('last step %s, %s node' % (' '.join(split_last(last)), {'elem': 'element', 'attr': 'attribute', 'text': 'text', 'doc': 'root', 'comment': 'comment', 'pi': 'processing-instruction'}[nd.kind]))
                if key not in found:
                    found[key] = (ptxt, nd, [(d.fields.get('m_string') if not isinstance(d.fields.get('m_string'), Tok) else d.fields['m_string'].s) for d in data.items])
    for key, (ptxt, nd, data) in sorted(found.items()):
        r.instances -= 1
        r.violation('rule not offered: ' + key, 'match="%s" matches %s by XSLT 1.0 5.2, but the list findTemplate consults for that node holds no entry of the rule (filed under %s)'
                    % (ptxt.replace(' ', ''), nd.name, data), common.file_line(add, loop))
    r.note('%d patterns x %d nodes' % (len(seen), len(nodes)))
    return r


def split_last(toks):
    """tokens of the last step of one alternative"""
    out = []
    depth = 0
    for t in reversed(toks):
        if t == ']':
            depth += 1
        if t == '[':
            depth -= 1
        if t == '/' and depth == 0:
            break
        out.append(t)
    return list(reversed(out)) or ['/']


def run_c09_rule(res, facts, tier):
    return run_rule(res, facts, tier, 'C09-R10')


# ------------------------------------------------------------------------------------------------------------------ C10-R12: the choice itself
POOL = [(['a'], 0.0), (['b'], 0.0), (['*'], -0.5), (['a', '/', 'b'], 0.5), (['*', '/', 'a'], 0.5), (['@', 'x'], 0.0), (['@', '*'], -0.5), (['node', '(', ')'], -0.5),
        (['text', '(', ')'], -0.5), (['b', '[', '1', ']'], 0.5), (['/'], 0.5), (['comment', '(', ')'], -0.5)]
EXPLICIT = (None, -1.0, 0.25)
# unions whose alternatives have different default priorities (XSLT 1.0 5.5: each alternative is a rule of its own)
UNIONS = [(['b'], 0.0, ['a', '/', 'b'], 0.5), (['a', '/', 'b'], 0.5, ['b'], 0.0), (['*'], -0.5, ['b', '[', '1', ']'], 0.5), (['@', '*'], -0.5, ['@', 'x'], 0.0),
          (['a'], 0.0, ['*', '/', 'a'], 0.5), (['node', '(', ')'], -0.5, ['a'], 0.0), (['text', '(', ')'], -0.5, ['b'], 0.0)]


def base_step(alt):
    """the node test of the last step of one alternative (what the entry is filed under)"""
    last = split_last(alt)
    return last[:last.index('[')] if '[' in last else last


def run_select_rule(res, facts, tier):
    """Stylesheet::findTemplate, both branches (conflict warnings quiet / reported), interpreted on stylesheets of two or three rules drawn from a pool of single-alternative
    patterns with default and explicit priorities, plus a rule in another mode; the rule chosen for every node must be the one of XSLT 1.0 5.5: among the rules of the
    mode whose pattern matches, the highest priority, then the last one; none -> no rule (built-in)."""
    r = res.rule('C10-R12', 'the choice end to end: Stylesheet::findTemplate (quiet and conflict-reporting branch) interpreted over look-up tables built by the interpreted filing chain '
                 'for stylesheets of two or three rules (pool of patterns x default / explicit priorities, one rule in another mode), with the interpreted matcher: for every node '
                 'the rule returned is the one XSLT 1.0 5.5 prescribes (mode, then priority, then last), or none', floor=3000)
    P = Pipeline(facts)
    w = P.w
    find = P.one('Stylesheet::findTemplate', lambda a: len(a['params']) == 5)
    ftii = P.one('Stylesheet::findTemplateInImports')
    NONE = facts.enumconst.get(NS + 'XPath::eMatchScoreNone')
    deep = tier == 'thorough'
    rules1 = [([(toks, dflt)], ex) for toks, dflt in POOL for ex in EXPLICIT]
    unions1 = [([(t1, d1), (t2, d2)], ex) for t1, d1, t2, d2 in UNIONS for ex in (None, 0.25)]
    sheets = []
    for i, (x, y) in enumerate(itertools.product(rules1, repeat=2)):
        if deep or i % 2 == 0:
            sheets.append([x, y])
    for i, t in enumerate(itertools.product(rules1[::2], repeat=3)):
        if i % (23 if deep else 211) == 0:
            sheets.append(list(t))
    competitors = [r1 for r1 in rules1 if r1[1] in (None, 0.25) and r1[0][0][0] in (['a'], ['b'], ['*'], ['@', 'x'], ['@', '*'], ['a', '/', 'b'], ['node', '(', ')'])]
    for i, (u, c) in enumerate(itertools.product(unions1, competitors)):
        if deep or i % 2 == 0:
            sheets.append([u, c])
            sheets.append([c, u])
    default_mode = Obj('qname', {'name': ''})
    other_mode = Obj('qname', {'name': 'm'})

    first_elem = next(n for n in P.nodes if n.kind == 'elem')

    def work(part):
        inst = 0
        found = {}
        for sheet_rules in part:
            label = ' ; '.join('match="%s"%s' % ('|'.join(''.join(t) for t, d in alts), '' if ex is None else ' priority="%s"' % ex) for alts, ex in sheet_rules)
            try:
                sheet = P.new_sheet()
                tmpls = []
                for k, (alts, ex) in enumerate(sheet_rules):
                    toks = []
                    for t2, d2 in alts:
                        toks += (['|'] if toks else []) + list(t2)
                    t, _ = P.file_rule(sheet, 'T%d' % (k + 1), toks, float('-inf') if ex is None else ex)
                    tmpls.append((t, alts, ex, k))
                tm, _ = P.file_rule(sheet, 'M', ['*'], float('-inf'), 'm')       # rules of two other modes: never chosen in the default mode, nor in each other's
                P.file_rule(sheet, 'N', ['*'], float('-inf'), 'n')
                P.finish_sheet(sheet)
            except Reject as x:
                raise AnalysisBroken('the pattern parser rejects a valid pattern of [%s] (%s)' % (label, x))
            except Fault as f:
                found.setdefault(('filing', ''), ('filing [%s]' % label, 'the code misbehaves: %s' % f)); continue
            except Unsupported as u:
                raise AnalysisBroken('filing outside the interpreted subset on [%s]: %s' % (label, u))
            for nd in P.nodes:
                cands, kcands = [], []
                for t, alts, ex, k in tmpls:
                    hit = [d2 for t2, d2 in alts if ref_match(t2, nd)]
                    if hit:
                        cands.append((ex if ex is not None else max(hit), k, t))
                        # the tree as it is (C10-R6, known finding): an entry is filed per alternative under the node test of its last step and tested with the WHOLE pattern,
                        # so an alternative whose last step fits the node lends its default priority even when it does not match
                        lend = [d2 for t2, d2 in alts if (nd.kind == 'doc' if base_step(t2) == ['/'] else step_matches(base_step(t2), nd))]
                        kcands.append((ex if ex is not None else max(lend or hit), k, t))
                want = max(cands, key=lambda c: (c[0], c[1]))[2] if cands else None
                kwant = max(kcands, key=lambda c: (c[0], c[1]))[2] if kcands else None
                for mode, wantm in ((default_mode, want), (other_mode, tm if nd.kind == 'elem' else None)):
                    if mode is other_mode and nd is not first_elem and nd.kind == 'elem':
                        continue
                    for quiet in (True, False):
                        w.quiet, w.warnings, w.calls = quiet, 0, 0
                        try:
                            m = OMachine(w, {}, sheet)
                            m.fuel = 30000
                            got = m.run_body(find, ['ECTX', nd, P.T[nd.kind], mode, 0], sheet)
                        except Fault as f:
                            got = 'FAULT: %s' % f
                        except Unsupported as u:
                            raise AnalysisBroken('findTemplate outside the interpreted subset on [%s] for %s: %s' % (label, nd.name, u))
                        inst += 1
                        if got == 0:
                            got = None
                        if got is wantm:
                            continue
                        if mode is default_mode and got is kwant:
                            found.setdefault(('union', 'both'), ('[%s], node %s' % (label, nd.name),
                                                                 'findTemplate returns %s, XSLT 1.0 5.5 requires %s: the union rule is credited with the default priority of an alternative '
                                                                 'that does not match this node' % (got.fields['name'] if got is not None else 'none', wantm.fields['name'] if wantm is not None else 'none')))
                            continue
                        def nm(t):
                            return 'none (built-in rule)' if t is None else (t if isinstance(t, str) else t.fields['name'])
                        kind = 'mode' if mode is other_mode or got is tm else ('no rule' if got is None else ('priority' if wantm is not None and got is not None else 'match'))
                        key = (kind, 'quiet' if quiet else 'reporting')
                        found.setdefault(key, ('[%s] (T1, T2 ... in document order; then M = match="*" mode="m", N = match="*" mode="n"), node %s, %s, conflict warnings %s' %
                                               (label, nd.name, 'mode m' if mode is other_mode else 'default mode', 'quiet' if quiet else 'reported'),
                                               'findTemplate returns %s, XSLT 1.0 5.5 requires %s' % (nm(got), nm(wantm))))
        return inst, found
    from ..report import fork_map
    nparts = 8 if deep else 4
    found = {}
    for inst, fnd in fork_map(work, [sheets[i::nparts] for i in range(nparts)]):
        r.instances += inst
        for k2, v in fnd.items():
            found.setdefault(k2, v)
    for (kind, branch), (site, what) in sorted(found.items()):
        if kind == 'union':
            r.violation('choice: a union rule takes the priority of an alternative that does not match the node', '%s: %s' % (site, what), common.file_line(find))
        else:
            r.violation('choice (%s, %s branch)' % (kind, branch), '%s: %s' % (site, what), common.file_line(find))
    r.note('%d stylesheets x %d nodes x 2 branches' % (len(sheets), len(P.nodes)))
    return r
