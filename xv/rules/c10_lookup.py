"""C10-R11 / C09-R10 — the template look-up tables offer every rule whose pattern matches the node.

findTemplate does not try every rule on every node: addTemplate files one entry per alternative of the match pattern, under what getTargetData says about the alternative's
last step (a pseudo name or a local name, and a target type), postConstruction merges the wildcard lists into the per-name tables, and locateMatchPatternDataList picks ONE list
for the node at hand.  A rule that is not in that list does not exist for that node, whatever the matcher would say.

The whole chain is interpreted from the parsed program: the pattern parser (a real op-code map), XPath::getTargetData with the TargetData constructor, the filing loop of
Stylesheet::addTemplate with addToList, addToTable (called by postConstruction for both tables), Stylesheet::locateMatchPatternDataList with its two helpers.  The stylesheet of
every run holds the pattern under test plus rules for the names 'a' and 'x' (so that per-name tables exist for elements and attributes and the wildcard merge matters).
For every pattern of the corpus (C09-R9's patterns and the node-type / wildcard / attribute steps, also as alternatives of unions) and every node of the tree:
  if the node matches the pattern by the definition of XSLT 1.0 5.2, the list looked up for the node holds an entry of that rule.
Modelled, not interpreted: the map behind the per-name tables (an ordered association list), the entry object (template, position, priority), the nodes."""
import itertools
from ..build import AnalysisBroken
from ..mast import Unsupported, callee, strip_casts, pp, walk, calls
from ..facts import NS
from ..omach import OMachine, Obj, Vec, It, Fault
from . import common
from .c09_match import PWorld, Tok, Reject, tree, patterns, ref_match, INDEXED_STEPS
from .c12_order import TNode


class PMap:
    """std::map<XalanDOMString, PatternTableVectorType>: pairs sorted by key"""
    identity = True

    def __init__(self):
        self.pairs = Vec([])

    def find(self, key):
        for i, p in enumerate(self.pairs.items):
            if p.fields['first'] == key:
                return It(self.pairs, i)
        return It(self.pairs, len(self.pairs.items))

    def at(self, key):
        it = self.find(key)
        if it.i == len(self.pairs.items):
            self.pairs.items.append(Obj('pair', {'first': key, 'second': Vec([])}))
            self.pairs.items.sort(key=lambda p: p.fields['first'])
            it = self.find(key)
        return self.pairs.items[it.i].fields['second']


class LWorld(PWorld):
    construct_objects = True

    def __init__(self, facts):
        super().__init__(facts)
        self.max_calls = 20000

    def allow(self, body, c):
        f = body['file']
        return super().allow(body, c) or f.endswith(('XSLT/Stylesheet.cpp', 'XSLT/Stylesheet.hpp'))

    def destructor(self, o):
        return None

    def hook(self, m, c):
        k = c['k']
        n = c.get('n') or (callee(c).split('::')[-1] if c.get('fn') != '<memptr>' else '<memptr>')
        cls = c.get('cls') or ''
        if k == 'Ctor' and cls.split('<')[0].endswith('XalanMapIterator') and len(c.get('args', [])) == 1:
            return m.ev(c['args'][0])
        if k == 'MCall':
            tgt = m.target_obj(c)
            if isinstance(tgt, PMap):
                if n == 'find':
                    return tgt.find(m.ev(c['args'][0]))
                if n == 'begin':
                    return It(tgt.pairs, 0)
                if n == 'end':
                    return It(tgt.pairs, len(tgt.pairs.items))
                raise Unsupported('map method ' + n)
            if isinstance(tgt, Obj) and tgt.cls == 'entry':
                if n == 'getPriorityOrDefault':
                    return tgt.fields['priority']
                if n == 'getPosition':
                    return tgt.fields['position']
                if n == 'getTemplate':
                    return tgt.fields['template']
            if isinstance(tgt, Obj) and tgt.cls == 'template':
                if n == 'getMatchPattern':
                    return tgt.fields['xpath']
            if tgt == 'CCTX' and n == 'createXalanMatchPatternData':
                a = [m.ev(x) for x in c['args']]
                if len(a) != 6:
                    raise Unsupported('createXalanMatchPatternData with %d arguments' % len(a))
                return Obj('entry', {'template': a[0], 'position': a[1], 'target': a[2], 'xpath': a[3], 'pattern': a[4], 'priority': a[5]})
            if n == 'getCurrentPattern':
                return 'PATTERN'
            if isinstance(tgt, Obj) and tgt.cls.endswith('TargetData') and n == 'getString' and isinstance(tgt.fields.get('m_string'), Tok):
                return tgt.fields['m_string'].s
        if k == 'OpCall' and c.get('op') == '[]' and len(c['args']) == 2:
            base = m.ev(c['args'][0])
            if isinstance(base, PMap):
                return base.at(m.ev(c['args'][1]))
        if k == 'OpCall' and c.get('op') == '=' and len(c['args']) == 2:
            v = m.ev(c['args'][1])
            if isinstance(v, (str, Tok)):
                m.assign(strip_casts(c['args'][0]), v.s if isinstance(v, Tok) else v)
                return v
        if k == 'Call' and n == 'getMatchScoreValue':
            return NotImplemented
        return super().hook(m, c)


def big_tree():
    """the tree of C09-R9 with a comment and a processing instruction added: <!--c--><a x y><b x><a><b/>text</a></b><a/>text<b><b y/><?p?><!--c--></b></a>"""
    doc, nodes = tree()

    def mk(kind, parent, at=None):
        nd = TNode(kind, '')
        nd.local = '' if kind == 'comment' else 'p'
        nd.parent = parent
        if at is None:
            parent.children.append(nd)
        else:
            parent.children.insert(at, nd)
        return nd
    mk('comment', doc, 0)
    inner = [n for n in nodes if n.kind == 'elem' and n.children and all(c.kind == 'elem' for c in n.children) and n.parent is not doc and n.parent.kind != 'doc']
    host = inner[-1] if inner else nodes[1]
    mk('pi', host)
    mk('comment', host)
    out = []

    def walk_(n):
        out.append(n)
        for x in n.attrs:
            out.append(x)
        for ch in n.children:
            walk_(ch)
    walk_(doc)
    from .c09_match import path
    for i, n in enumerate(out):
        n.order = i
        n.name = path(n) if n.kind not in ('comment', 'pi') else (path(n.parent).rstrip('/') + '/' + ('comment()' if n.kind == 'comment' else 'processing-instruction()'))
    return doc, out


def corpus(tier):
    pats = []
    base = patterns(2)
    if tier != 'thorough':
        base = [p for i, p in enumerate(base) if i % 3 == 0 or len(p) <= 4]
    pats += base
    for st in INDEXED_STEPS:
        pats.append(list(st))
        pats.append(['a', '/'] + list(st))
    singles = [['a'], ['b'], ['*'], ['@', 'x'], ['@', 'y'], ['@', '*'], ['@', 'node', '(', ')'], ['text', '(', ')'], ['node', '(', ')'], ['/'],
               ['comment', '(', ')'], ['processing-instruction', '(', ')'], ['b', '/', 'comment', '(', ')'], ['/', 'comment', '(', ')'], ['/', 'node', '(', ')'],
               ['a', '/', '@', 'node', '(', ')'], ['b', '/', '/', '@', 'node', '(', ')'], ['b', '/', 'node', '(', ')'], ['/', 'a'], ['/', '/', '@', 'y']]
    pats += singles
    unions = []
    for l, r2 in itertools.permutations(singles, 2):
        unions.append(l + ['|'] + r2)
    if tier != 'thorough':
        unions = [u for i, u in enumerate(unions) if i % 4 == 0]
    return pats, unions


def alt_split(toks):
    out, cur = [], []
    for t in toks:
        if t == '|':
            out.append(cur); cur = []
        else:
            cur.append(t)
    out.append(cur)
    return out


def run_rule(res, facts, tier, rid='C10-R11'):
    r = res.rule(rid, 'the look-up tables offer every rule whose pattern matches: parser, XPath::getTargetData, the filing loop of Stylesheet::addTemplate with addToList, '
                 'addToTable (postConstruction) and locateMatchPatternDataList interpreted end to end for a corpus of patterns and unions next to rules named a and @x; '
                 'whenever a node matches the pattern by XSLT 1.0 5.2 the list consulted for that node holds an entry of the rule', floor=3000)
    w = LWorld(facts)

    def one(name, pred=lambda a: True):
        c = [a for a in facts.asts(name, must=False) if a.get('body') is not None and pred(a)]
        if len(c) != 1:
            raise AnalysisBroken('%s: %d bodies' % (name, len(c)))
        return c[0]
    init = one('XPathProcessorImpl::initMatchPattern')
    gtd = one('XPath::getTargetData')
    add = one('Stylesheet::addTemplate')
    locate = one('Stylesheet::locateMatchPatternDataList')
    post = one('Stylesheet::postConstruction')
    a2t = [a for a in facts.asts('addToTable', must=False) if a.get('body') is not None and a['file'].endswith('XSLT/Stylesheet.cpp')]
    if len(a2t) != 1:
        raise AnalysisBroken('addToTable: %d bodies' % len(a2t))
    a2t = a2t[0]
    # postConstruction merges the wildcard lists into both tables
    merged = set()
    for c in calls(post['body']):
        if (c.get('n') or callee(c).split('::')[-1]) == 'addToTable' and len(c.get('args', [])) == 2:
            t, l = strip_casts(c['args'][0]), strip_casts(c['args'][1])
            merged.add((t.get('m'), l.get('m')))
    for pair in (('m_elementPatternTable', 'm_elementAnyPatternList'), ('m_attributePatternTable', 'm_attributeAnyPatternList')):
        if pair in merged:
            r.ok('postConstruction merges %s into %s' % (pair[1], pair[0]))
        else:
            r.violation('postConstruction: %s' % pair[0], 'the wildcard list %s is not merged into the per-name table: rules with wildcard patterns are lost for named nodes' % pair[1],
                        common.file_line(post))
    # the filing loop of addTemplate
    loop = None
    for x in walk(add['body']):
        if x.get('k') == 'For' and any((c.get('n') or '') == 'createXalanMatchPatternData' for c in calls(x)):
            loop = x
    if loop is None:
        raise AnalysisBroken('addTemplate: the loop over the target data is gone')
    locals_ = {}
    for x in walk(add['body']):
        if x.get('k') == 'Decl':
            for v in x.get('vars', []):
                locals_[v['n']] = v['id']
    for need in ('data', 'nTargets', 'tempString', 'xp'):
        if need not in locals_:
            raise AnalysisBroken('addTemplate: local %s is gone' % need)
    T = {k2: facts.enumconst.get(NS + 'XalanNode::' + v) for k2, v in (('elem', 'ELEMENT_NODE'), ('attr', 'ATTRIBUTE_NODE'), ('text', 'TEXT_NODE'), ('doc', 'DOCUMENT_NODE'), ('comment', 'COMMENT_NODE'),
                                                                              ('pi', 'PROCESSING_INSTRUCTION_NODE'))}
    if None in T.values():
        raise AnalysisBroken('node type constants not found')
    doc, nodes = big_tree()
    w.doc = doc
    LISTS = ('m_textPatternList', 'm_commentPatternList', 'm_piPatternList', 'm_rootPatternList', 'm_nodePatternList', 'm_elementAnyPatternList', 'm_attributeAnyPatternList')

    def compile_(toks):
        expr = Obj(NS + 'XPathExpression', {'m_opMap': Vec([], 'ops'), 'm_lastOpCodeIndex': 0, 'm_tokenQueue': Vec([Tok(t) for t in toks], 'tokens'), 'm_currentPosition': 0,
                                            'm_currentPattern': '', 'm_numberLiteralValues': Vec([])})
        xp = Obj(NS + 'XPath', {'m_expression': expr, 'm_locator': 0, 'm_inStylesheet': 1})
        parser = Obj(NS + 'XPathProcessorImpl', {'m_token': '', 'm_tokenChar': 0, 'm_xpath': 0, 'm_constructionContext': 0, 'm_expression': 0, 'm_prefixResolver': 0,
                                                 'm_requireLiterals': 0, 'm_isMatchPattern': 0, 'm_positionPredicateStack': Vec([]), 'm_namespaces': Vec([]), 'm_locator': 0,
                                                 'm_allowVariableReferences': 1, 'm_allowKeyFunction': 1})
        w.calls = 0
        w.pending = list(toks)
        m = OMachine(w, {}, parser)
        m.fuel = 20000
        m.run_body(init, [xp, 'CCTX', ' '.join(toks), 'RES', 0, 1, 1], parser)
        return xp

    def file_rule(sheet, name, toks):
        xp = compile_(toks)
        tmpl = Obj('template', {'name': name, 'xpath': xp})
        data = Vec([])
        w.calls = 0
        m = OMachine(w, {}, xp)
        m.fuel = 20000
        m.run_body(gtd, [data], xp)
        env = {locals_['data']: data, locals_['nTargets']: len(data.items), locals_['tempString']: '', locals_['xp']: xp}
        for p in add['params']:
            env[p['id']] = tmpl if 'ElemTemplate' in (p.get('ty') or '') else 'CCTX'
        w.calls = 0
        m2 = OMachine(w, env, sheet)
        m2.fuel = 20000
        m2.exec(loop)
        return tmpl, data

    def new_sheet():
        f = {k2: Vec([]) for k2 in LISTS}
        f.update({'m_elementPatternTable': PMap(), 'm_attributePatternTable': PMap(), 'm_patternCount': 0})
        return Obj(NS + 'Stylesheet', f)

    pats, unions = corpus(tier)
    seen = set()
    found = {}
    for toks in pats + unions:
        if tuple(toks) in seen:
            continue
        seen.add(tuple(toks))
        ptxt = ' '.join(toks)
        try:
            sheet = new_sheet()
            file_rule(sheet, 'named-a', ['a'])
            file_rule(sheet, 'named-x', ['@', 'x'])
            tmpl, data = file_rule(sheet, 'P', toks)
            for tab, lst in (('m_elementPatternTable', 'm_elementAnyPatternList'), ('m_attributePatternTable', 'm_attributeAnyPatternList')):
                w.calls = 0
                m3 = OMachine(w, {}, None)
                m3.fuel = 20000
                m3.run_body(a2t, [sheet.fields[tab], sheet.fields[lst]], None)
            sheet.fields['m_elementPatternTableEnd'] = It(sheet.fields['m_elementPatternTable'].pairs, len(sheet.fields['m_elementPatternTable'].pairs.items))
            sheet.fields['m_attributePatternTableEnd'] = It(sheet.fields['m_attributePatternTable'].pairs, len(sheet.fields['m_attributePatternTable'].pairs.items))
        except Reject as x:
            raise AnalysisBroken('the pattern parser rejects the valid pattern "%s" (%s)' % (ptxt, x))
        except Fault as f:
            r.violation('filing ' + ptxt, 'the code misbehaves: %s' % f, common.file_line(add)); continue
        except Unsupported as u:
            raise AnalysisBroken('filing outside the interpreted subset on "%s": %s' % (ptxt, u))
        alts = alt_split(toks)
        for nd in nodes:
            want = any(ref_match(a, nd) for a in alts)
            try:
                w.calls = 0
                m4 = OMachine(w, {}, sheet)
                m4.fuel = 5000
                lst = m4.run_body(locate, [nd, T[nd.kind]], sheet)
            except Fault as f:
                r.violation('look-up for %s' % nd.kind, 'the code misbehaves: %s' % f, common.file_line(locate)); continue
            except Unsupported as u:
                raise AnalysisBroken('look-up outside the interpreted subset for %s: %s' % (nd.name, u))
            if isinstance(lst, It):
                lst = lst.vec
            if not isinstance(lst, Vec):
                raise AnalysisBroken('look-up for %s yields %r, not a list' % (nd.name, lst))
            offered = any(isinstance(e, Obj) and e.cls == 'entry' and e.fields['template'] is tmpl for e in lst.items)
            r.instances += 1
            if want and not offered:
                last = alts[[ref_match(a, nd) for a in alts].index(True)]
                key = ('last step %s, %s node' % (' '.join(split_last(last)), {'elem': 'element', 'attr': 'attribute', 'text': 'text', 'doc': 'root', 'comment': 'comment', 'pi': 'processing-instruction'}[nd.kind]))
                if key not in found:
                    found[key] = (ptxt, nd, [(d.fields.get('m_string') if not isinstance(d.fields.get('m_string'), Tok) else d.fields['m_string'].s) for d in data.items])
    for key, (ptxt, nd, data) in sorted(found.items()):
        r.instances -= 1
        r.violation('rule not offered: ' + key, 'match="%s" matches %s by XSLT 1.0 5.2, but the list findTemplate consults for that node holds no entry of the rule (filed under %s)'
                    % (ptxt.replace(' ', ''), nd.name, data), common.file_line(add, loop))
    r.note('%d patterns x %d nodes' % (len(seen), len(nodes)))
    return r


def split_last(toks):
    """tokens of the last step of one alternative"""
    out = []
    depth = 0
    for t in reversed(toks):
        if t == ']':
            depth += 1
        if t == '[':
            depth -= 1
        if t == '/' and depth == 0:
            break
        out.append(t)
    return list(reversed(out)) or ['/']


def run_c09_rule(res, facts, tier):
    return run_rule(res, facts, tier, 'C09-R10')
