"""C04-R7 — the output stream's buffer and transcoding loop by interpretation.

XalanOutputStream::write(const XalanDOMChar*, n), write(XalanDOMChar), flushBuffer, doWrite and transcode are interpreted on every sequence of writes (bounded)
over a small buffer, with a model transcoder that turns the i-th UTF-16 unit into w(i) bytes (w from a table of width patterns, 1..4 bytes) and, like the real
ones, converts as many whole units as fit into the space it is given.  What reaches writeData must be exactly the bytes of every unit written, once, in order
- whatever the buffer fill, the first size estimate and the number of retries.  The UTF-16 pass-through is covered the same way.
Nothing here runs the library: the bodies come from the parsed program."""
import itertools
from ..build import AnalysisBroken
from ..mast import Unsupported, callee, strip_casts, pp, _Return
from ..facts import NS, short
from . import common
from .c10_lists import VecMachine, Vec, It


class Fault(Exception):
    pass


class Guard:
    def __init__(self, vec):
        self.vec = vec


class SMach(VecMachine):
    def __init__(self, world, env):
        VecMachine.__init__(self, world.facts, env)
        self.world = world
        self.call_hook = self.hook2
        self.fuel = 4000
        self.cleanups = []

    # scope exit: CollectionClearGuard
    def exec(self, s):
        if s['k'] == 'Compound':
            mark = len(self.cleanups)
            try:
                for c in s['c']:
                    self.exec(c)
            finally:
                for g in reversed(self.cleanups[mark:]):
                    g.vec.items[:] = []
                del self.cleanups[mark:]
            return
        if s['k'] == 'Decl':
            for v in s['vars']:
                if v.get('init') is not None:
                    val = self.ev(v['init'])
                    if isinstance(val, Guard):
                        self.cleanups.append(val)
                    self.env[v['id']] = val
            return
        return super().exec(s)

    def deref(self, v):
        if isinstance(v, It):
            if not (0 <= v.i < len(v.vec.items)):
                raise Fault('read at position %d of a buffer of %d' % (v.i, len(v.vec.items)))
            return v.vec.items[v.i]
        return v

    def ev(self, e):
        k = e['k']
        if k == 'Un' and e['op'] == '*':
            return self.deref(self.ev(e['e']))
        if k == 'Un' and e['op'] == '&':
            t = strip_casts(e['e'])
            if t.get('k') == 'OpCall' and t.get('op') == '[]':
                v, i = self.ev(t['args'][0]), int(self.ev(t['args'][1]))
                if isinstance(v, Vec):
                    return It(v, i)
            if t.get('k') == 'Un' and t['op'] == '*':
                return self.ev(t['e'])
            if t.get('k') == 'OpCall' and t.get('op') == '*':
                return self.ev(t['args'][0])
            return self.ev(t)
        if k == 'Bin' and e['op'] in ('+=', '-='):
            t = strip_casts(e['lhs'])
            a = self.ev(t)
            if isinstance(a, It):
                b = int(self.ev(e['rhs']))
                v = It(a.vec, a.i + (b if e['op'] == '+=' else -b))
                self.assign(t, v)
                return v
        if k == 'Bin' and e['op'] == '-' and 'unsigned' in (e.get('ty') or ''):
            a, b = self.ev(e['lhs']), self.ev(e['rhs'])
            if isinstance(a, int) and isinstance(b, int):
                if a - b < 0:
                    raise Fault('unsigned length wraps (%d - %d)' % (a, b))
                return a - b
            if isinstance(a, It):
                return self.itop('-', a, b)
            raise Unsupported('subtraction of %r and %r' % (a, b))
        if k == 'Bin' and e['op'] == '-=':
            pass
        return super().ev(e)

    def this_env(self):
        return {k: v for k, v in self.env.items() if isinstance(k, str) and k.startswith('.')}

    def call_this(self, a, c):
        w = self.world
        args = [self.ev(x) for x in c.get('args', [])]
        env = {p['id']: v for p, v in zip(a['params'], args)}
        te = self.this_env()
        env.update(te)
        w.depth += 1
        if w.depth > 8:
            raise Unsupported('call depth')
        try:
            sub = SMach(w, env)
            sub.fuel = self.fuel
            r = sub.call(a['body'])
            self.fuel = sub.fuel
            for k in te:
                self.env[k] = sub.env[k]
            w.interpreted.add(short(a.get('q') or c.get('fn') or '?'))
            return r
        finally:
            w.depth -= 1

    def hook2(self, m, c):
        w = self.world
        k = c['k']
        n = c.get('n') or callee(c).split('::')[-1]
        cls = c.get('cls') or ''
        if n == '__assert_fail':
            raise Fault('assertion fails: ' + (pp(c['args'][0])[:100] if c.get('args') else ''))
        if k == 'Ctor':
            if 'CollectionClearGuard' in cls:
                return Guard(self.ev(c['args'][0]))
            if 'XalanDOMString' in cls or 'Exception' in cls:
                return 'OBJ'
            if len(c.get('args', [])) == 1:
                return self.ev(c['args'][0])
        if k == 'MCall':
            o = strip_casts(c.get('obj'))
            if n == 'transcode' and 'Transcoder' in cls:
                return w.transcoder(self, c)
            if n == 'writeData':
                p, ln = self.ev(c['args'][0]), int(self.ev(c['args'][1]))
                if not isinstance(p, It):
                    raise Fault('writeData from %r' % (p,))
                if p.vec.kind == 'units':
                    if ln % 2:
                        raise Fault('an odd number of bytes of UTF-16 data')
                    units = p.vec.items[p.i:p.i + ln // 2]
                    if p.i < 0 or p.i + ln // 2 > len(p.vec.items):
                        raise Fault('writeData reads beyond the buffer')
                    for u in units:
                        w.sink.extend([(u, 0), (u, 1)])
                else:
                    if p.i < 0 or p.i + ln > len(p.vec.items):
                        raise Fault('writeData reads beyond the transcoding buffer (%d bytes from %d of %d)' % (ln, p.i, len(p.vec.items)))
                    w.sink.extend(p.vec.items[p.i:p.i + ln])
                return 0
            if n == 'getMemoryManager':
                return 'MM'
            if o is None or o.get('k') == 'This':
                a = w.facts.ast(c['usr']) if c.get('usr') else None
                if a is not None and a.get('body') is not None and not c.get('virt'):
                    return self.call_this(a, c)
            ov = self.ev(c['obj']) if c.get('obj') is not None else None
            if isinstance(ov, Vec):
                if n == 'resize':
                    sz = int(self.ev(c['args'][0]))
                    if sz < 0:
                        raise Fault('resize to a negative size')
                    if sz > 4096:
                        raise Fault('destination grows without bound (resize %d)' % sz)
                    if sz < len(ov.items):
                        del ov.items[sz:]
                    else:
                        ov.items.extend([None] * (sz - len(ov.items)))
                    return 0
                if n == 'insert' and len(c['args']) == 3:
                    at, b, e2 = (self.ev(x) for x in c['args'])
                    if not (isinstance(at, It) and at.vec is ov and isinstance(b, It) and isinstance(e2, It) and b.vec is e2.vec):
                        raise Unsupported('range insert operands')
                    if not (0 <= b.i <= e2.i <= len(b.vec.items)):
                        raise Fault('range insert reads outside the source (%d..%d of %d)' % (b.i, e2.i, len(b.vec.items)))
                    ov.items[at.i:at.i] = b.vec.items[b.i:e2.i]
                    return It(ov, at.i)
                if n == 'clear':
                    ov.items[:] = []
                    return 0
        if k == 'Call' and n == 'TranscodeToLocalCodePage':
            raise Unsupported('local code page branch')
        if k == 'Call' and c.get('usr'):
            # a helper of the file that is not a member (a test moved out of write / flushFullBuffer) is followed
            a = w.facts.ast(c['usr'])
            if a is not None and a.get('body') is not None and not a.get('cls') and a['file'].endswith('PlatformSupport/XalanOutputStream.cpp'):
                return self.call_this(a, c)
        return VecMachine.hook(self, m, c)


class World:
    def __init__(self, facts, widths, bufsize, utf16):
        self.facts = facts
        self.OK = facts.enumconst.get(NS + 'XalanTranscodingServices::OK')
        if self.OK is None:
            raise AnalysisBroken('XalanTranscodingServices::OK not found')
        self.widths = widths
        self.sink = []
        self.depth = 0
        self.interpreted = set()
        self.calls = 0
        self.state = {'.m_buffer': self.vec('units'), '.m_bufferSize': bufsize, '.m_transcodingBuffer': self.vec('bytes'), '.m_transcoder': (0 if utf16 else 'TRANSCODER'),
                      '.m_writeAsUTF16': int(utf16), '.m_throwTranscodeException': 1, '.m_transcoderBlockSize': 16}

    @staticmethod
    def vec(kind, items=None):
        v = Vec(items or [])
        v.kind = kind
        return v

    def transcoder(self, m, c):
        """XalanOutputTranscoder::transcode(src, srcLen, dst, dstLen, &eaten, &filled): whole units only, as many as fit"""
        src, n, dst, room = (m.ev(x) for x in c['args'][:4])
        self.calls += 1
        if self.calls > 64:
            raise Fault('the transcoding loop does not terminate')
        if not isinstance(src, It) or src.vec.kind != 'units' or not isinstance(dst, It) or dst.vec.kind != 'bytes':
            raise Fault('transcode operands: %r %r' % (src, dst))
        n, room = int(n), int(room)
        if src.i < 0 or src.i + n > len(src.vec.items):
            raise Fault('the transcoder is given %d units from position %d of a block of %d' % (n, src.i, len(src.vec.items)))
        if dst.i < 0 or dst.i + room > len(dst.vec.items):
            raise Fault('the transcoder is given %d bytes of room at %d in a destination of %d' % (room, dst.i, len(dst.vec.items)))
        eaten = filled = 0
        while eaten < n:
            u = src.vec.items[src.i + eaten]
            wd = self.widths[u % len(self.widths)]
            if filled + wd > room:
                break
            for b in range(wd):
                dst.vec.items[dst.i + filled + b] = (u, b)
            filled += wd
            eaten += 1
        for x, v in ((c['args'][4], eaten), (c['args'][5], filled)):
            t = strip_casts(x)
            if t.get('k') != 'Ref':
                raise Unsupported('transcode out-parameter ' + pp(x))
            m.env[t['id']] = v
        return self.OK


WIDTHS = ((1,), (2,), (3,), (4,), (1, 3), (3, 1, 1, 4), (4, 4, 1), (2, 1))


def write_plans(maxunits, maxchunk):
    """sequences of writes: ('s', k) a block of k units, ('c',) one unit"""
    out = []

    def go(plan, used):
        if plan:
            out.append(plan)
        if used >= maxunits or len(plan) >= 4:
            return
        go(plan + (('c',),), used + 1)
        for k in range(1, maxchunk + 1):
            if used + k <= maxunits:
                go(plan + (('s', k),), used + k)
    go((), 0)
    return out


def run_rule(res, facts, tier):
    r = res.rule('C04-R7', 'XalanOutputStream write / flushBuffer / doWrite / transcode interpreted on every bounded sequence of block and single-unit writes over a 3-unit buffer, with a '
                 'model transcoder of 1..4 bytes per unit that converts what fits: the bytes handed to writeData are those of every unit written, exactly once, in order '
                 '(also on the UTF-16 pass-through)', floor=1500)
    def pick(name, pred):
        c = [a for a in facts.asts('XalanOutputStream::' + name, must=False) if a.get('body') is not None and pred(a)]
        if len(c) != 1:
            raise AnalysisBroken('XalanOutputStream::%s: %d bodies' % (name, len(c)))
        return c[0]
    wblock = pick('write', lambda a: len(a['params']) == 2 and 'char16_t' in a['params'][0]['ty'])
    wchar = pick('write', lambda a: len(a['params']) == 1 and a['params'][0]['ty'].replace('xalanc_1_12::', '') in ('XalanDOMChar', 'char16_t'))
    flush = pick('flushBuffer', lambda a: True)
    pick('transcode', lambda a: len(a['params']) == 3)
    pick('doWrite', lambda a: True)
    plans = write_plans(9 if tier == 'thorough' else 7, 5)
    reported = {}
    interpreted = set()
    for utf16 in (False, True):
        for widths in (WIDTHS if not utf16 else ((2,),)):
            for plan in plans:
                w = World(facts, widths, 3, utf16)
                counter = 0
                expect = []
                site = '%s, widths %s: %s' % ('UTF-16 pass-through' if utf16 else 'transcoder', widths,
                                             ' '.join('write(%d units)' % p[1] if p[0] == 's' else 'write(unit)' for p in plan))
                fault = None
                try:
                    for p in plan:
                        env = dict(w.state)
                        if p[0] == 's':
                            units = list(range(counter, counter + p[1])); counter += p[1]
                            src = World.vec('units', units)
                            env[wblock['params'][0]['id']] = It(src, 0)
                            env[wblock['params'][1]['id']] = p[1]
                            body = wblock['body']
                        else:
                            units = [counter]; counter += 1
                            env[wchar['params'][0]['id']] = units[0]
                            body = wchar['body']
                        expect.extend(units)
                        mm = SMach(w, env)
                        mm.call(body)
                        for k in w.state:
                            w.state[k] = mm.env[k]
                    mm = SMach(w, dict(w.state))
                    mm.call(flush['body'])
                except Fault as f:
                    fault = str(f)
                except Unsupported as u:
                    raise AnalysisBroken('XalanOutputStream outside the interpreted subset on %s: %s' % (site, u))
                interpreted |= w.interpreted
                want = []
                for u in expect:
                    wd = 2 if utf16 else widths[u % len(widths)]
                    want.extend((u, b) for b in range(wd))
                if fault is None and w.sink == want:
                    r.ok(site, '%d bytes' % len(want))
                    continue
                if fault is None:
                    i = next((j for j in range(min(len(want), len(w.sink))) if want[j] != w.sink[j]), min(len(want), len(w.sink)))
                    got = w.sink[i] if i < len(w.sink) else None
                    fault = 'byte %d of the output is %s, expected %s' % (
                        i, 'missing' if got is None else ('unset' if got is None else 'byte %d of unit %d' % (got[1], got[0])) if got else 'an unset byte',
                        'the end of the output' if i >= len(want) else 'byte %d of unit %d' % (want[i][1], want[i][0]))
                key = ('utf16' if utf16 else 'transcoder')
                reported[key] = reported.get(key, 0) + 1
                if reported[key] <= 2:
                    r.violation(site, fault, 'src/xalanc/PlatformSupport/XalanOutputStream.cpp')
                else:
                    r.instances += 1
    r.note('interpreted bodies: %s' % sorted(interpreted))
    return r
