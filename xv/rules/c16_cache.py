"""C16-R6 — the sort key value caches by interpretation.

NodeSorter::NodeSortKeyCompare::getStringResult and getNumberResult (with the file-local helpers getResult / notCached / isCached / cacheValue) are interpreted for two keys
and three nodes, for every sequence of up to 4 requests (key, node) and key values drawn from {'', 'x', 'y'} resp. {NaN, 0, 5, the cache's dummy value}.  Evaluating a key
(XPath::execute / getNodeData) is modelled as "store the value of THAT key for THAT node"; whatever the order of requests, each request must return the value of its key for
its node - the cache is per (key, node), an empty string or the dummy number being the only encodings of "not evaluated" it may use."""
import itertools
from ..build import AnalysisBroken
from ..mast import Unsupported, callee, strip_casts, pp
from ..facts import NS
from ..omach import OMachine, Obj, Vec, It, Fault
from . import common


class CWorld:
    def __init__(self, facts):
        self.facts = facts
        self.depth = 0
        self.calls = 0
        self.max_calls = 4000
        self.values = None
        self.evaluated = 0

    def tables(self, q):
        return None

    def glob(self, name):
        return ('GLOBAL', name.split('::')[-1])

    def allow(self, body, c):
        return body['file'].endswith('NodeSorter.cpp') or body['file'].endswith('NodeSorter.hpp')

    def hook(self, m, c):
        k = c['k']
        n = c.get('n') or callee(c).split('::')[-1]
        cls = c.get('cls') or ''
        if k == 'MCall':
            tgt = m.target_obj(c)
            if isinstance(tgt, Obj) and tgt.cls.endswith('NodeSortKey'):
                if n == 'getSelectPattern':
                    return ('XPATH', tgt.fields['index'])
                if n == 'getPrefixResolver':
                    return 'RES'
            if n == 'execute' and isinstance(tgt, tuple) and tgt[0] == 'XPATH':
                a = c['args']
                node = m.ev(a[0])
                self.evaluated += 1
                v = self.values[tgt[1]][node]
                if len(a) == 4:
                    m.assign(strip_casts(a[3]), v)
                    return 0
                return ('XOBJ', v)
            if n == 'num' and isinstance(tgt, tuple) and tgt[0] == 'XOBJ':
                return tgt[1]
            if n == 'str' and isinstance(tgt, tuple) and tgt[0] == 'XOBJ':
                return tgt[1]
            if n in ('getMemoryManager',):
                return 'MM'
        if k == 'Call':
            if n in ('equal', 'notEqual') and len(c['args']) == 2:
                a, b = m.ev(c['args'][0]), m.ev(c['args'][1])
                return int((a == b) == (n == 'equal'))
            if n == 'isNaN':
                v = m.ev(c['args'][0])
                return int(v != v)
            if n == 'fill' and len(c['args']) == 3:
                b, e, v = (m.ev(x) for x in c['args'])
                for i in range(b.i, e.i):
                    b.vec.items[i] = v
                return 0
            if n == 'getNodeData':
                raise Unsupported('sort key without select')
        if k == 'OpCall' and c.get('op') in ('->', '*') and len(c['args']) == 1:
            v = m.ev(c['args'][0])
            if isinstance(v, tuple):
                return v
        return NotImplemented


def run_rule(res, facts, tier):
    r = res.rule('C16-R6', 'sort key value caches: NodeSortKeyCompare::getStringResult / getNumberResult interpreted for 2 keys x 3 nodes on every sequence of up to 4 requests and '
                 'key values including the empty string and the dummy number: each request returns the value of its key for its node, whatever was requested before', floor=2500)
    w = CWorld(facts)

    def one(name):
        c = [a for a in facts.asts(name, must=False) if a.get('body') is not None and len(a['params']) == 3]
        if len(c) != 1:
            raise AnalysisBroken('%s: %d bodies' % (name, len(c)))
        return c[0]
    gs = one('NodeSorter::NodeSortKeyCompare::getStringResult')
    gn = one('NodeSorter::NodeSortKeyCompare::getNumberResult')
    nan = float('nan')
    reqs = list(itertools.product((0, 1), (0, 1, 2)))
    seqs = []
    for ln in (2, 3, 4):
        for s in itertools.product(reqs, repeat=ln):
            if len(set(s)) >= 2:
                seqs.append(s)
    if tier != 'thorough':
        seqs = [s for i, s in enumerate(seqs) if len(s) < 4 or i % 5 == 0]
    svals = [[['', 'x', 'y'], ['y', '', 'x']], [['', '', ''], ['x', 'y', 'x']], [['x', '', ''], ['', 'y', 'x']]]
    nvals = [[[nan, 0.0, 5.0], [5.0, nan, 0.0]], [[135792468.0, 1.0, 135792468.0], [2.0, 135792468.0, 3.0]], [[0.0, 0.0, 0.0], [1.0, 2.0, nan]]]
    reported = {}
    for kind, fn, valsets in (('text', gs, svals), ('number', gn, nvals)):
        for vals in valsets:
            w.values = vals
            for si, s in enumerate(seqs):
                # the vector of (node, original position) entries is the one std::stable_sort is permuting while the values are asked for: in every third run it is out of order
                order = [(0, 1, 2), (2, 0, 1), (1, 2, 0)][si % 3]
                entries = Vec([Obj(NS + 'NodeSorter::VectorEntry', {'m_node': i, 'm_position': i}) for i in order])
                sorter = Obj(NS + 'NodeSorter', {'m_stringResultsCache': Vec([]), 'm_numberResultsCache': Vec([]), 'm_keys': Vec([0, 1]), 'm_scratchVector': entries})
                # any further member of the sorter a change may add starts empty (a vector)
                k0 = facts.K.get(NS + 'NodeSorter')
                for fld in (k0 or {}).get('fields', []):
                    sorter.fields.setdefault(fld['n'], Vec([]))
                comp = Obj(NS + 'NodeSorter::NodeSortKeyCompare', {'m_sorter': sorter, 'm_nodeSortKeys': Vec([0, 1]), 'm_nodes': entries, 'm_executionContext': 'ECTX'})
                w.calls = 0
                bad = None
                try:
                    for (ki, ni) in s:
                        key = Obj(NS + 'NodeSortKey', {'index': ki})
                        entry = Obj(NS + 'NodeSorter::VectorEntry', {'m_node': ni, 'm_position': ni})
                        m = OMachine(w, {}, comp)
                        m.fuel = 3000
                        got = m.run_body(fn, [key, ki, entry], comp)
                        if isinstance(got, It):
                            got = m.deref(got)
                        want = vals[ki][ni]
                        same = (got == want) or (isinstance(got, float) and isinstance(want, float) and got != got and want != want)
                        if not same:
                            bad = 'request (key %d, node %d) returns %r, the value of that key for that node is %r' % (ki + 1, ni + 1, got, want)
                            break
                except Fault as f:
                    bad = str(f)
                except Unsupported as u:
                    raise AnalysisBroken('NodeSortKeyCompare::get%sResult outside the interpreted subset: %s' % ('String' if kind == 'text' else 'Number', u))
                site = '%s keys %s, requests %s' % (kind, vals, ' '.join('k%dn%d' % (a + 1, b + 1) for a, b in s))
                if bad is None:
                    r.instances += 1
                    continue
                reported[kind] = reported.get(kind, 0) + 1
                if reported[kind] <= 2:
                    r.violation('%s key cache: %s' % (kind, site), bad, common.file_line(fn))
                else:
                    r.instances += 1
    return r
