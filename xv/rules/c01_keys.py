"""C01-R17 — every xsl:key declaration counts, whatever its import precedence.

XSLT 1.0 12.2: "It is not an error for there to be multiple xsl:key declarations with the same name", and import precedence plays no part: a node has a key value if ANY
declaration of that name gives it one.  The declarations of the imported stylesheets are merged into the importing one by Stylesheet::postConstruction.  The function is
interpreted on an importing stylesheet with its own declarations and two or three imports, the same key name declared at several levels: afterwards the stylesheet holds
every declaration of every level exactly once (as objects: which (name, match, use) triple sits where), the white-space declarations likewise (C13-R4 looks at their
order)."""
import itertools
from ..build import AnalysisBroken
from ..mast import Unsupported, callee, strip_casts
from ..facts import NS
from ..omach import OMachine, Obj, Vec, Fault
from . import common


class QN:
    identity = False

    def __init__(self, s):
        self.s = s

    def __eq__(self, o):
        return isinstance(o, QN) and o.s == self.s

    def __hash__(self):
        return hash(self.s)


class WS:
    """a strip-space / preserve-space declaration (XalanSpaceNodeTester): a label and a match score; deeper levels get the higher scores, so that a merge by score shows"""
    identity = True

    def __init__(self, label, score):
        self.label, self.score = label, score

    def __str__(self):
        return self.label

    __repr__ = __str__


class KWorld:
    construct_objects = False

    def __init__(self, facts):
        self.facts = facts
        self.depth = 0; self.calls = 0; self.max_calls = 8000
        self.rviews = {}

    def tables(self, q):
        return None

    def glob(self, name):
        return ('GLOBAL', name.split('::')[-1])

    def allow(self, body, c):
        return body['file'].endswith(('XSLT/Stylesheet.cpp', 'XSLT/Stylesheet.hpp', 'XSLT/KeyDeclaration.hpp'))

    def destructor(self, o):
        return None

    def hook(self, m, c):
        k = c['k']
        n = c.get('n') or callee(c).split('::')[-1]
        cls = c.get('cls') or ''
        if n == 'addToTable':
            return 0            # the template tables: C10-R11's business
        if k == 'Ctor' and ('XalanVector' in cls or 'VectorType' in (c.get('ty') or '')):
            return Vec([])
        if k == 'MCall' and n in ('rbegin', 'rend'):
            tgt = m.target_obj(c)
            if isinstance(tgt, Vec):
                # a reverse iterator, used for reading only (the walk over the imports that calls their postConstruction): a forward iterator over a reversed view
                key = id(tgt)
                if key not in self.rviews or self.rviews[key][0] != list(tgt.items):
                    self.rviews[key] = (list(tgt.items), Vec(list(reversed(tgt.items))))
                rv = self.rviews[key][1]
                from ..omach import It
                return It(rv, 0 if n == 'rbegin' else len(rv.items))
        if k == 'MCall':
            tgt = m.target_obj(c)
            if isinstance(tgt, Obj) and tgt.cls.endswith('Stylesheet') and n == 'postConstruction' and tgt is not m.this:
                return 0            # the imports have been through their own postConstruction (the function is applied bottom-up)
            if n in ('copyNamespaceAliases', 'getNamespacesHandler', 'addToTable', 'getMemoryManager'):
                return 0
            if n == 'postConstruction':
                o = strip_casts(c.get('obj')) or {}
                if o.get('k') == 'Member' and o.get('m') == 'm_namespacesHandler':
                    return 0
            if isinstance(tgt, Obj) and tgt.cls == 'KeyDeclaration':
                if n == 'getQName':
                    return tgt.fields['name']
                if n in ('getMatchPattern', 'getUse'):
                    return tgt.fields[n]
            if isinstance(tgt, WS):
                if n == 'getMatchScore':
                    return tgt.score
                if n == 'getType':
                    return 0
                raise Unsupported('white-space declaration method ' + n)
            if isinstance(tgt, QN) and n == 'equals':
                return int(tgt == m.ev(c['args'][0]))
        if k == 'OpCall' and c.get('op') == '==' and len(c['args']) == 2:
            a, b = m.ev(c['args'][0]), m.ev(c['args'][1])
            if isinstance(a, QN) or isinstance(b, QN):
                return int(a == b)
        return NotImplemented


def outcomes(facts):
    """interpret Stylesheet::postConstruction on the shapes; yields (site, fn, outcome) with outcome = ('fault', text) or ('done', got_keys, all_keys, got_ws, all_ws)"""
    cands = [a for a in facts.asts('Stylesheet::postConstruction', must=False) if a.get('body') is not None and len(a['params']) == 1]
    if len(cands) != 1:
        raise AnalysisBroken('Stylesheet::postConstruction(context): %d bodies' % len(cands))
    fn = cands[0]
    kfields = {f['n'] for f in (facts.K.get(NS + 'Stylesheet') or {}).get('fields', [])}
    if 'm_keyDeclarations' not in kfields or 'm_imports' not in kfields or 'm_whitespaceElements' not in kfields:
        raise AnalysisBroken('Stylesheet has no m_keyDeclarations / m_whitespaceElements / m_imports')
    w = KWorld(facts)
    # names per level: own, import 1 (highest precedence), import 2, import 3
    SHAPES = [(['k'], ['k'], []), (['k'], [], ['k']), ([], ['k'], ['k']), (['k', 'j'], ['k'], ['j', 'k']), ([], ['k', 'k'], ['k']), (['j'], ['k'], ['k'], ['k', 'j']), (['k'], ['k'], ['k'], ['k']),
              ([], [], ['k']), (['k'], [], []), (['j'], ['k'], [])]
    for shape in SHAPES:
        for own_first in (0, 1):
            serial = itertools.count()

            def decls(names, lvl):
                return [Obj('KeyDeclaration', {'name': QN(nm), 'getMatchPattern': 'match-%d-%d' % (lvl, i), 'getUse': 'use-%d-%d' % (lvl, i), 'id': next(serial)}) for i, nm in enumerate(names)]

            def sheet(names, lvl, imports):
                o = Obj(NS + 'Stylesheet', {'m_keyDeclarations': Vec(decls(names, lvl)), 'm_whitespaceElements': Vec([WS('ws-%d-%d' % (lvl, i), 1 + (lvl * 2 + i) % 3) for i in range(len(names))]),
                                            'm_imports': Vec(imports), 'm_importsSize': 0, 'm_firstTemplate': 0, 'm_topLevelVariables': Vec([]), 'm_namespacesHandler': 'NSH'})
                for f in kfields:
                    o.fields.setdefault(f, 0)
                return o
            imports = [sheet(names, lvl + 1, []) for lvl, names in enumerate(shape[1:])]
            if own_first:
                imports = list(reversed(imports))
            top = sheet(shape[0], 0, imports)
            all_keys = list(top.fields['m_keyDeclarations'].items) + [d for s in imports for d in s.fields['m_keyDeclarations'].items]
            all_ws = list(top.fields['m_whitespaceElements'].items) + [d for s in imports for d in s.fields['m_whitespaceElements'].items]
            site = 'declared as %s in the stylesheet and %s in its imports%s' % (shape[0] or 'none', ' / '.join(str(x or 'none') for x in shape[1:]), ' (imports in the other order)' if own_first else '')
            w.calls = 0
            try:
                m = OMachine(w, {}, top)
                m.fuel = 40000
                m.run_body(fn, ['CCTX'], top)
            except Fault as f:
                yield site, fn, ('fault', str(f)); continue
            except Unsupported as u:
                raise AnalysisBroken('Stylesheet::postConstruction outside the interpreted subset (%s): %s' % (site, u))
            yield site, fn, ('done', list(top.fields['m_keyDeclarations'].items), all_keys, list(top.fields['m_whitespaceElements'].items), all_ws)


def run_rule(res, facts, tier):
    r = res.rule('C01-R17', 'all xsl:key declarations of a name apply together, whatever their import precedence (XSLT 1.0 12.2): Stylesheet::postConstruction interpreted on an importing '
                 'stylesheet with two or three imports and the same key name declared at several levels - afterwards the stylesheet holds every key declaration (and every '
                 'strip-space / preserve-space declaration) of every level exactly once', floor=12)
    for site, fn, out in outcomes(facts):
        site = 'keys ' + site
        if out[0] == 'fault':
            r.violation('key declarations of the imports: fault', '%s: %s' % (site, out[1]), common.file_line(fn)); continue
        _, got, all_keys, gotws, all_ws = out
        ids = sorted(d.fields['id'] for d in got if isinstance(d, Obj))
        want = sorted(d.fields['id'] for d in all_keys)
        if ids != want:
            lost = [d for d in all_keys if d.fields['id'] not in ids]
            dup = sorted({i for i in ids if ids.count(i) > 1})
            r.violation('key declarations of the imports: %s' % ('a declaration is dropped' if lost else 'a declaration is entered twice'),
                        '%s: afterwards the stylesheet holds %d of the %d declarations%s%s: key() misses every node only that declaration matches (12.2: all declarations of a name apply)' %
                        (site, len(set(ids)), len(want), '; lost: ' + ', '.join('%s (%s)' % (d.fields['name'].s, d.fields['getMatchPattern']) for d in lost[:3]) if lost else '',
                         '; twice: %s' % dup if dup else ''), common.file_line(fn))
        elif sorted(map(str, gotws)) != sorted(map(str, all_ws)):
            r.violation('white-space declarations of the imports', '%s: afterwards the stylesheet holds %s, all levels together declare %s' % (site, gotws, all_ws), common.file_line(fn))
        else:
            r.ok(site, '%d declarations' % len(ids))
    return r
