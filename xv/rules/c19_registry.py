"""C19-R12 — what is handed to a destroyer that looks its argument up first, is registered.

Four destroyers of the library give an object back to the manager only if they find the pointer in a member container (XalanSourceTreeParserLiaison::destroyDocument and
XercesParserLiaison::destroyDocument: m_documentMap; XalanTransformer::destroyParsedSource: m_parsedSources; destroyStylesheet: m_compiledStylesheets); for a pointer
they do not find they do nothing (or report).  The Ensure* guards destroy through them.  So a guard - the only thing between a failed parse and a leak - works only on a
pointer that is in the container when the guard fires.  The rule finds the destroyers (destruction of the parameter control-dependent on a lookup of it in a member),
the guards (destructor calls a destroyer on a member initialised from the constructor's pointer argument), and for every guard construction decides where the pointer
came from: a function that stores what it returns in the registry on every path (createXalanSourceTreeDocument), an out-parameter that the callee stores in the registry
after every assignment (parseSource), or a store in the function itself before the guard.  Anything else: the destroyer will not find the object, nobody owns it."""
import re
from ..build import AnalysisBroken
from ..mast import walk, calls, callee, strip_casts, pp, CFG
from ..facts import short
from . import common


def _lib(facts, k):
    f = facts.F.get(k)
    return f and '/src/xalanc/' in f.get('loc', '') and '/Harness/' not in f.get('loc', '') and '/Tests/' not in f.get('loc', '') and '/Samples/' not in f.get('loc', '')


def _this_members(e):
    return {y.get('m') for y in walk(e) if y.get('k') == 'Member' and (y.get('obj') or {}).get('k') == 'This'}


def _refs(e, vid, d):
    return any(y.get('k') == 'Ref' and y.get('id') == vid and y.get('d') == d for y in walk(e))


def _destroys(e, pid):
    """does the statement give the parameter back: XalanDestroy(.., p / *p), an auto-pointer constructed on p, delete p"""
    for y in walk(e):
        k = y.get('k')
        if k in ('Call', 'MCall') and (y.get('n') or callee(y).split('::')[-1]).split('<')[0] in ('XalanDestroy', 'destroy') and any(_refs(a, pid, 'param') for a in y.get('args', [])):
            return True
        if k == 'Ctor' and 'AutoPtr' in (y.get('cls') or '') and any(_refs(a, pid, 'param') for a in y.get('args', [])):
            return True
        if k == 'Delete' and _refs(y, pid, 'param'):
            return True
    return False


def find_destroyers(facts):
    """{usr: (ast, registry member names)}: destroy*(T* p) whose destruction of p (or delegation of it) hangs on a lookup of p in member containers"""
    out = {}
    for k in facts.astidx:
        if not _lib(facts, k):
            continue
        a = facts.ast(k)
        if a is None or a.get('body') is None or not (a.get('name') or a.get('fq') or '').split('::')[-1].startswith('destroy'):
            continue
        ps = [p for p in a['params'] if '*' in (p.get('ty') or '')]
        if len(a['params']) != 1 or not ps:
            continue
        pid = a['params'][0].get('id', 0)
        # locals initialised from a lookup of p
        look = {}
        for st in walk(a['body']):
            if st.get('k') == 'Decl':
                for v in st.get('vars', []):
                    if v.get('init') is not None and _refs(v['init'], pid, 'param'):
                        look[v['id']] = _this_members(v['init'])
        for st in walk(a['body']):
            if st.get('k') != 'If':
                continue
            cond = st['cond']
            regs = set()
            if _refs(cond, pid, 'param'):
                regs |= _this_members(cond)
                for c in calls(cond):
                    if (strip_casts(c.get('obj')) or {}).get('k') == 'This' and c.get('usr'):
                        b = facts.ast(c['usr'])
                        if b is not None and b.get('body') is not None:
                            regs |= _this_members(b['body'])
            for y in walk(cond):
                if y.get('k') == 'Ref' and y.get('d') == 'local' and y.get('id') in look:
                    regs |= look[y['id']]
            if not regs:
                continue
            if _destroys(st.get('then'), pid) or (st.get('else') is not None and _destroys(st['else'], pid)):
                out[k] = (a, regs)
    return out


def find_wrappers(facts, destroyers):
    """destroyX(p) { destroyY(p); } inherits Y's registry"""
    by_name = {}
    for k, (a, regs) in destroyers.items():
        by_name.setdefault((a.get('cls'), (a.get('fq') or '').split('::')[-1]), set()).update(regs)
    more = {}
    for k in facts.astidx:
        if not _lib(facts, k) or k in destroyers:
            continue
        a = facts.ast(k)
        if a is None or a.get('body') is None or not (a.get('fq') or '').split('::')[-1].startswith('destroy') or len(a['params']) != 1:
            continue
        body = a['body'].get('c', [])
        if len(body) == 1 and body[0].get('k') == 'MCall' and (strip_casts(body[0].get('obj')) or {}).get('k') == 'This':
            key = (a.get('cls'), body[0].get('n'))
            if key in by_name and _refs(body[0], a['params'][0].get('id', 0), 'param'):
                more[k] = (a, by_name[key])
    return more


def find_guards(facts, destroyers):
    """{guard class: (destroyer method name, index of the pointer argument of the constructor)}"""
    names = {}
    for k, (a, regs) in destroyers.items():
        names.setdefault((a.get('fq') or '').split('::')[-1], []).append(k)
    guards = {}
    for k in facts.astidx:
        if not _lib(facts, k):
            continue
        a = facts.ast(k)
        if a is None or a.get('body') is None or '~' not in (a.get('fq') or '').split('::')[-1]:
            continue
        for c in calls(a['body']):
            if c.get('k') == 'MCall' and c.get('n') in names and c.get('args'):
                arg = strip_casts(c['args'][0])
                if arg.get('k') == 'Member' and (arg.get('obj') or {}).get('k') == 'This':
                    guards[a.get('cls')] = (c['n'], arg.get('m'))
    # which constructor argument initialises that member
    out = {}
    for k in facts.astidx:
        a = facts.ast(k) if _lib(facts, k) else None
        if a is None or a.get('cls') not in guards or not a.get('inits'):
            continue
        meth, mem = guards[a['cls']]
        for ini in a['inits']:
            e = strip_casts(ini.get('e') or {})
            if ini.get('field') == mem and e.get('k') == 'Ref' and e.get('d') == 'param':
                out[a['cls']] = (meth, e.get('id'))
    return out


def _stores_in(node_ast, vid, d, regs):
    """does the statement put the variable into one of the registries: C[v] = .., C.push_back(v), C.insert(.. v ..)"""
    for y in walk(node_ast):
        k = y.get('k')
        if k in ('MCall', 'OpCall', 'Call'):
            o = strip_casts(y.get('obj')) if y.get('obj') is not None else None
            names = _this_members(y.get('obj')) if o is not None else set()
            if k == 'OpCall' or (k == 'Call' and 'operator' in (y.get('fn') or '')):
                names |= _this_members(y['args'][0]) if y.get('args') else set()
            if names & regs and any(_refs(a, vid, d) for a in y.get('args', [])):
                return True
    return False


def registering_creator(facts, usr, regs):
    """every path from the creation of the returned local to its return passes a store into the registry"""
    a = facts.ast(usr)
    if a is None or a.get('body') is None:
        return False, 'no body'
    rets = [st for st in walk(a['body']) if st.get('k') == 'Return' and st.get('e') is not None]
    if not rets:
        return False, 'returns nothing'
    cfg = CFG(a)
    for rt in rets:
        e = strip_casts(rt['e'])
        if e.get('k') in ('MCall', 'Call') and e.get('usr'):
            ok, why = registering_creator(facts, e['usr'], regs)
            if not ok:
                return False, why
            continue
        if e.get('k') != 'Ref' or e.get('d') != 'local':
            return False, 'returns %s' % pp(e)[:40]
        vid = e['id']
        decl = [nd for nd in cfg.nodes if nd.ast is not None and nd.ast.get('k') == 'Decl' and any(v.get('id') == vid for v in nd.ast.get('vars', []))]
        if not decl:
            return False, 'declaration of %s not found' % e.get('n')
        retn = [nd for nd in cfg.nodes if nd.ast is rt]
        reach = cfg.reachable_avoiding(decl, lambda nd: nd.ast is not None and _stores_in(nd.ast, vid, 'local', regs))
        if any(nd.id in reach for nd in retn):
            return False, '%s reaches its return without being stored in %s' % (e.get('n'), '/'.join(sorted(regs)))
    return True, ''


def registering_outparam(facts, usr, idx, regs):
    """the callee stores the reference parameter in the registry after every assignment to it"""
    a = facts.ast(usr)
    if a is None or a.get('body') is None or idx >= len(a['params']):
        return False, 'no body'
    pid = a['params'][idx].get('id', idx)
    cfg = CFG(a)
    asg = [nd for nd in cfg.nodes if nd.ast is not None and any(y.get('k') == 'Bin' and y.get('op') == '=' and (strip_casts(y['lhs']) or {}).get('k') == 'Ref' and
                                                                strip_casts(y['lhs']).get('id') == pid and strip_casts(y['lhs']).get('d') == 'param' and
                                                                strip_casts(y['rhs']).get('cv') != 0 for y in walk(nd.ast))]
    if not asg:
        return False, 'never assigns its parameter'
    reach = cfg.reachable_avoiding(asg, lambda nd: nd.ast is not None and _stores_in(nd.ast, pid, 'param', regs))
    if cfg.exit.id in reach:
        return False, 'a path from the assignment of %s to the exit does not store it in %s' % (a['params'][idx].get('n'), '/'.join(sorted(regs)))
    return True, ''


def run_rule(res, facts, tier):
    r = res.rule('C19-R12', 'destroyers that look their argument up in a member container first (destroyDocument x2, destroyParsedSource, destroyStylesheet: found structurally) '
                 'only free what is registered: every construction of a guard that destroys through one of them is on a pointer that came from a function storing its result in '
                 'that container on every path, from an out-parameter the callee stores after every assignment, or was stored by the function itself before the guard', floor=7)
    D = find_destroyers(facts)
    if len(D) < 4:
        raise AnalysisBroken('C19-R12: only %d registry-checked destroyers recognised (4 confirmed by hand): %s' % (len(D), sorted(short(v[0].get('fq') or '') for v in D.values())))
    D.update(find_wrappers(facts, D))
    G = find_guards(facts, D)
    if len(G) < 3:
        raise AnalysisBroken('C19-R12: only %d guards over registry-checked destroyers recognised: %s' % (len(G), sorted(G)))
    by_meth = {}
    for k, (a, regs) in D.items():
        by_meth.setdefault((a.get('fq') or '').split('::')[-1], []).append((a, regs))
    sites = 0
    for k in facts.astidx:
        if not _lib(facts, k):
            continue
        a = facts.ast(k)
        if a is None or a.get('body') is None:
            continue
        ctors = [y for y in walk(a['body']) if y.get('k') == 'Ctor' and y.get('cls') in G and len(y.get('args', [])) >= 2]
        if not ctors:
            continue
        cfg = CFG(a)
        for c in ctors:
            meth, pidx = G[c['cls']]
            owner = strip_casts(c['args'][0])
            oty = (owner.get('ty') or '').replace('const', '').replace('&', '').strip()
            cands = [(d, regs) for d, regs in by_meth.get(meth, []) if d.get('cls') == oty]
            ptr = strip_casts(c['args'][pidx]) if pidx < len(c['args']) else None
            fn = short(a.get('fq') or '')
            site = '%s: %s on %s' % (fn, c['cls'].split('::')[-1], pp(ptr)[:40] if ptr else '?')
            sites += 1
            if not cands:
                # the owner is held by its base class: every overrider is possible
                cands = by_meth.get(meth, [])
                own_this = False
            own_this = owner.get('k') == 'Un' and (owner.get('e') or {}).get('k') == 'This' or owner.get('k') == 'This'
            if ptr is None or ptr.get('k') != 'Ref' or ptr.get('d') != 'local':
                r.ok(site, 'the pointer is not a local of the function: not decided here')
                continue
            vid = ptr['id']
            regs = set().union(*[rg for _, rg in cands]) if cands else set()
            gnode = [nd for nd in cfg.nodes if nd.ast is not None and any(y is c for y in walk(nd.ast))]
            # (1) initialiser / assignment from a registering creator, (2) out-parameter of a registering call, (3) own store before the guard
            origin = None
            why = []
            for st in walk(a['body']):
                init = None
                if st.get('k') == 'Decl':
                    for v in st.get('vars', []):
                        if v.get('id') == vid and v.get('init') is not None:
                            init = strip_casts(v['init'])
                elif st.get('k') == 'Bin' and st.get('op') == '=' and (strip_casts(st['lhs']) or {}).get('id') == vid and strip_casts(st['lhs']).get('d') == 'local':
                    init = strip_casts(st['rhs'])
                if init is not None and init.get('k') in ('MCall', 'Call') and init.get('usr'):
                    ok, w = registering_creator(facts, init['usr'], regs)
                    if ok:
                        origin = 'returned by %s, which stores it in %s on every path' % (short(init.get('fn') or ''), '/'.join(sorted(regs)))
                    else:
                        why.append('%s: %s' % (short(init.get('fn') or ''), w))
                if st.get('k') in ('MCall', 'Call') or st.get('k') == 'Decl':
                    for y in calls(st):
                        for i, ar in enumerate(y.get('args', [])):
                            ar = strip_casts(ar)
                            if ar.get('k') == 'Ref' and ar.get('id') == vid and ar.get('d') == 'local' and y.get('usr') and y is not c and y.get('k') != 'Ctor':
                                ok, w = registering_outparam(facts, y['usr'], i, regs)
                                if ok:
                                    origin = origin or 'set by %s through its reference parameter and stored in %s after every assignment' % (short(y.get('fn') or ''), '/'.join(sorted(regs)))
                                elif 'never assigns' not in w and 'no body' not in w:
                                    why.append('%s: %s' % (short(y.get('fn') or ''), w))
            if origin is None and own_this and gnode:
                decl = [nd for nd in cfg.nodes if nd.ast is not None and nd.ast.get('k') == 'Decl' and any(v.get('id') == vid for v in nd.ast.get('vars', []))]
                reach = cfg.reachable_avoiding(decl, lambda nd: nd.ast is not None and _stores_in(nd.ast, vid, 'local', regs))
                if decl and not any(g.id in reach for g in gnode):
                    origin = 'stored in %s by the function itself before the guard' % '/'.join(sorted(regs))
            if origin:
                r.ok(site, origin)
            else:
                r.violation('%s: guard on an object that is not registered' % fn,
                            '%s destroys through %s, which frees only what it finds in %s; %s does not come from a function that registers it%s: when the guard fires the object '
                            'is not found and never goes back to the manager' % (c['cls'].split('::')[-1], meth, '/'.join(sorted(regs)), ptr.get('n'),
                                                                                 (' (' + '; '.join(why[:2]) + ')') if why else ''), common.file_line(a, c))
    for k, (a, regs) in sorted(D.items(), key=lambda kv: kv[1][0].get('fq') or ''):
        r.ok('destroyer %s' % short(a.get('fq') or ''), 'frees its argument only when found in %s' % '/'.join(sorted(regs)))
    if sites < 3:
        raise AnalysisBroken('C19-R12: only %d guard constructions found (3 confirmed by hand)' % sites)
    return r
