"""C08-R10 / C04-R19 — the stream hands every code unit to the transcoder before it returns.

XalanOutputStream::transcode(buffer, length, destination) calls the transcoder in a loop: a call may stop early (the destination is full; a multi-unit character does not
fit into what is left).  Whatever the reason, the function may leave the loop only when the units consumed so far add up to the length it was given - or by throwing.  An
exit under any other condition drops the rest of the buffer silently: the text written depends on where the 512 / 8192-unit windows of the stream fall, i.e. on the
encoding, on indentation, on the output being a file (C08), and characters are missing from a well-formed document (C04).  Found by role: the transcoder call, its
'source units eaten' out-argument, the local that accumulates it, the loop that contains the call, every statement that ends the loop."""
from ..build import AnalysisBroken
from ..mast import walk, calls, callee, strip_casts, pp, CFG
from ..facts import short
from . import common


def run_rule(res, facts, tier, rid='C08-R10'):
    r = res.rule(rid, 'XalanOutputStream::transcode leaves its loop over transcoder calls only when the code units consumed add up to the length given (or by throwing): every '
                 'statement that ends the loop is dominated by "total consumed == length"', floor=1)
    cands = [a for a in facts.asts('XalanOutputStream::transcode', must=False) if a.get('body') is not None and len(a['params']) == 3]
    if len(cands) != 1:
        raise AnalysisBroken('XalanOutputStream::transcode(buffer, length, destination): %d bodies' % len(cands))
    a = cands[0]
    length_id = a['params'][1].get('id')
    tc = [c for c in calls(a['body']) if c.get('k') == 'MCall' and c.get('n') == 'transcode' and len(c.get('args', [])) >= 6]
    if len(tc) != 1:
        raise AnalysisBroken('%s: %d calls of the transcoder with six arguments' % (rid, len(tc)))
    eaten = strip_casts(tc[0]['args'][4])
    if not isinstance(eaten, dict) or eaten.get('k') != 'Ref':
        raise AnalysisBroken('%s: the "source units eaten" argument is %s' % (rid, pp(tc[0]['args'][4])[:40]))
    totals = []
    for x in walk(a['body']):
        if x.get('k') == 'Bin' and x.get('op') == '+=':
            rh = strip_casts(x['rhs'])
            lh = strip_casts(x['lhs'])
            if isinstance(rh, dict) and rh.get('k') == 'Ref' and rh.get('id') == eaten.get('id') and isinstance(lh, dict) and lh.get('k') == 'Ref':
                totals.append(lh)
    if not totals:
        raise AnalysisBroken('%s: no local accumulates the units the transcoder consumed' % rid)
    loops = [x for x in walk(a['body']) if x.get('k') in ('Do', 'While', 'For') and any(y is tc[0] for y in walk(x))]
    if not loops:
        raise AnalysisBroken('%s: the transcoder call is not in a loop any more' % rid)
    loop = loops[-1]
    cond_ids = {y.get('id') for y in walk(loop.get('cond') or {}) if y.get('k') == 'Ref' and y.get('d') == 'local'}
    cfg = CFG(a)
    must = common.must_conds(cfg)

    def consumed_all(node):
        for at, br in must.get(node.id, []):
            core, eff = common.norm_atom(at, br)
            if core is not None and core.get('k') == 'Bin' and core.get('op') in ('==', '!=') and (eff == (core['op'] == '==')):
                ids = set()
                for side in (core['lhs'], core['rhs']):
                    s = strip_casts(side)
                    if isinstance(s, dict) and s.get('k') == 'Ref':
                        ids.add((s.get('d'), s.get('id')))
                if any(ids == {(t.get('d'), t.get('id')), ('param', length_id)} for t in totals):
                    return True
            if core is not None and core.get('k') == 'Bin' and core.get('op') in ('>=', '<') and (eff == (core['op'] == '>=')):
                l, rr = strip_casts(core['lhs']), strip_casts(core['rhs'])
                if isinstance(l, dict) and isinstance(rr, dict) and any(l.get('id') == t.get('id') and l.get('d') == t.get('d') for t in totals) and rr.get('d') == 'param' and rr.get('id') == length_id:
                    return True
        return False
    exits = []
    for nd in cfg.nodes:
        if nd.ast is None or not any(y is nd.ast or True for y in [0]):
            continue
        inside = any(y is nd.ast for y in walk(loop.get('body') or {})) or any(z is y for y in walk(loop.get('body') or {}) for z in [nd.ast])
        if not inside:
            continue
        st = nd.ast
        if st.get('k') in ('Break', 'Return'):
            exits.append((nd, st.get('k').lower()))
        for y in walk(st):
            if y.get('k') == 'Bin' and y.get('op') == '=':
                t = strip_casts(y['lhs'])
                if isinstance(t, dict) and t.get('k') == 'Ref' and t.get('d') == 'local' and t.get('id') in cond_ids and y is st:
                    exits.append((nd, pp(y)[:30]))
    if not exits:
        raise AnalysisBroken('%s: no statement that ends the loop was recognised' % rid)
    for nd, what in exits:
        site = 'XalanOutputStream::transcode: the loop ends through %s' % what
        if consumed_all(nd):
            r.ok(site, 'only where %s == %s' % ('/'.join(t.get('n') for t in totals), a['params'][1].get('n')))
        else:
            r.violation('XalanOutputStream::transcode: the loop can end before the buffer is consumed',
                        '%s (line %s) is not dominated by %s == %s: when the transcoder stops early - a character of three bytes does not fit into the two that are left - the rest of '
                        'the buffer is dropped without an error' % (what, nd.ast.get('l'), '/'.join(t.get('n') for t in totals), a['params'][1].get('n')), common.file_line(a, nd.ast))
    return r


def run_c04_rule(res, facts, tier):
    return run_rule(res, facts, tier, 'C04-R19')
