"""C04-R6 — CDATA sectioning: what writeCDATA puts out parses back to the text it was given.

FormatterToXMLUnicode::writeCDATA -> writeCDATAChars -> <writer>::writeCDATAChar are interpreted, for each writer family, on every string of
up to 4 code units over { a  ]  >  LF  CR  U+20AC (not representable in the "other encoding" writer) }.  The output is abstracted to
OPEN / CLOSE (the two delimiters), CH(c) (a code unit written as is), REF(c) (a numeric character reference) and NL.  Required:
  - delimiters alternate, code units appear only inside a section, references only outside, and the output ends outside a section;
  - no ']]>' is formed by the code units inside one section;
  - decoding (CH as itself, REF as its character, NL as LF) gives back the input — a literal CR inside a section does not: a parser
    turns it into LF."""
import itertools
from ..build import AnalysisBroken
from ..mast import walk, calls, callee, strip_casts, Machine, Unsupported, pp
from ..facts import short, NS
from . import common
from .c04 import predicates, serializer_instantiations, writer_family

ALPHABET = {'a': 0x61, ']': 0x5D, '>': 0x3E, 'LF': 0x0A, 'CR': 0x0D, 'EURO': 0x20AC}


class CMachine(Machine):
    def __init__(self, ctx, env, owner):
        super().__init__(env, call_hook=self.hook)
        self.ctx, self.owner = ctx, owner
        self.fuel = 3000

    def ev(self, e):
        k = e['k']
        if k == 'Index':
            b, i = self.ev(e['b']), self.ev(e['i'])
            if isinstance(b, tuple) and b and b[0] == 'chars':
                off = b[2] + i
                return b[1][off] if 0 <= off < len(b[1]) else self.oob(off)
            raise Unsupported('index of %s' % pp(e['b']))
        if k == 'Member':
            o = strip_casts(e.get('obj'))
            if isinstance(o, dict) and o.get('k') == 'Member' and o.get('m') == 'm_constants':
                nm = e['m']
                if 'cdataOpenString' in nm:
                    return 'OPEN' if not nm.endswith('Length') else 9
                if 'cdataCloseString' in nm:
                    return 'CLOSE' if not nm.endswith('Length') else 3
                return nm
        if k == 'Bin' and e['op'] == '+':
            l = self.ev(e['lhs'])
            if isinstance(l, tuple) and l and l[0] == 'chars':
                return ('chars', l[1], l[2] + self.ev(e['rhs']))
        return super().ev(e)

    def oob(self, off):
        self.ctx['events'].append(('OOB', off))
        return 0

    def assign(self, t, v):
        if t.get('k') == 'Ref' and t.get('d') in ('local', 'param') and t.get('id') in self.ctx.get('refs', {}).get(id(self), {}):
            pass
        super().assign(t, v)

    def hook(self, m, c):
        ctx = self.ctx
        k = c['k']
        n = c.get('n') or callee(c).split('::')[-1]
        ev = ctx['events']
        if k == 'Ctor' and len(c.get('args', [])) == 1:
            return self.ev(c['args'][0])
        if k == 'OpCall':
            if c['op'] == '()' and c['args']:
                t = strip_casts(c['args'][0])
                if isinstance(t, dict) and t.get('k') == 'Member' and t.get('m') == 'm_predicate':
                    return int(self.ev(c['args'][1]) < 0x100)
            return NotImplemented
        o = strip_casts(c.get('obj')) if k == 'MCall' else None
        on_member = isinstance(o, dict) and o.get('k') == 'Member'
        if k == 'MCall' and on_member and o['m'] == 'm_charPredicate':
            v = self.ev(c['args'][0])
            return int(ctx['preds'][n][v]) if v < 0x300 else 0
        is_writer_call = (k == 'MCall' and on_member and o['m'] == 'm_writer') or (self.owner == 'writer' and k == 'MCall' and (o is None or o.get('k') == 'This'))
        if n in ('isUTF16HighSurrogate', 'isUTF16LowSurrogate'):
            return 0
        if n.startswith('throwInvalid'):
            ev.append(('ERROR',))
            raise _Stop()
        if n == 'writeNumericCharacterReference':
            ev.append(('REF', self.ev(c['args'][0])))
            return 0
        if n == 'outputNewline':
            ev.append(('NL',))
            return 0
        if is_writer_call and n == 'writeCDATAChar':
            a = ctx['writer_fn']
            sub = CMachine(ctx, {}, 'writer')
            vals = [self.ev(x) for x in c['args'][:3]]
            for p, v in zip(a['params'][:3], vals):
                sub.env[p['id']] = v
            # the fourth parameter is bool& outsideCDATA: share the caller's variable
            tgt = strip_casts(c['args'][3])
            if len(a['params']) > 3:
                sub.env[a['params'][3]['id']] = self.ev(tgt)
            r = sub.call(a['body'])
            if len(a['params']) > 3 and a['params'][3].get('n'):
                self.assign(tgt, sub.env[a['params'][3]['id']])
            return r
        if is_writer_call and n in ('write', 'writeSafe'):
            a0 = self.ev(c['args'][0])
            if a0 in ('OPEN', 'CLOSE'):
                ev.append((a0,))
            elif isinstance(a0, tuple) and a0 and a0[0] == 'chars':
                # write(chars, start, length): one character at 'start' (UTF-8 writer); returns the index of its last unit
                st = self.ev(c['args'][1]) if len(c['args']) > 1 else 0
                ev.append(('CH', a0[1][a0[2] + st]))
                return st
            elif isinstance(a0, int):
                ev.append(('CH', a0))
            else:
                raise Unsupported('write(%s)' % (a0,))
            return 0
        if n in ('getMemoryManager', 'writeParentTagEnd', 'setPreserve', 'indent', 'setPrevText'):
            return 0
        if k == 'MCall' and (o is None or o.get('k') == 'This') and self.owner == 'ser':
            a = ctx['methods'].get(n)
            if a is not None:
                sub = CMachine(ctx, {}, 'ser')
                refs = []
                for p, x in zip(a['params'], c['args']):
                    sub.env[p['id']] = self.ev(x)
                    if (p.get('ty') or '').rstrip().endswith('&') and 'const' not in (p.get('ty') or ''):
                        refs.append((p['id'], strip_casts(x)))
                r = sub.call(a['body'])
                for pid, tgt in refs:
                    self.assign(tgt, sub.env[pid])
                return r
        return NotImplemented


class _Stop(Exception):
    pass


def decode(events):
    """(problem or None, decoded text)"""
    inside = False
    text = []
    run = []
    for e in events:
        t = e[0]
        if t == 'OOB':
            return 'reads code unit %d beyond the text' % e[1], None
        if t == 'OPEN':
            if inside:
                return 'a section is opened inside a section', None
            inside = True; run = []
        elif t == 'CLOSE':
            if not inside:
                return "']]>' is written outside a section", None
            inside = False
        elif t == 'CH':
            if not inside:
                return 'the code unit U+%04X is written as is outside a section (unescaped content)' % e[1], None
            run.append(e[1])
            if run[-3:] == [0x5D, 0x5D, 0x3E]:
                return "']]>' appears inside a section", None
            text.append(0x0A if e[1] == 0x0D else e[1])
        elif t == 'REF':
            if inside:
                return 'a character reference is written inside a section (it would be taken literally)', None
            text.append(e[1])
        elif t == 'NL':
            run.append(0x0A)
            text.append(0x0A)
    if inside:
        return 'the output ends inside a section (no closing delimiter)', None
    return None, text


def run(res, facts, tier):
    r = res.rule('C04-R6', "CDATA sectioning derived from the code: writeCDATA / writeCDATAChars / <writer>::writeCDATAChar interpreted on every string of up to 4 code units over "
                 "{a ] > LF CR U+20AC}; delimiters alternate, the output ends outside a section, no ']]>' inside one, and the output decodes to the input", floor=3000)
    maxlen = 4
    strings = []
    for n in range(1, maxlen + 1):
        strings += list(itertools.product(sorted(ALPHABET), repeat=n))
    done = set()
    for cls, ta in sorted(serializer_instantiations(facts)):
        fam = writer_family(ta[0])
        ver = '1_1' if ta[4].endswith('1_1') else '1_0'
        if (fam, ver) in done or not ta[3].startswith('XalanDummyIndentWriter'):
            continue
        done.add((fam, ver))
        if ver == '1_1' and tier != 'thorough':
            continue        # the version only selects isCharRefForbidden, which no symbol of the alphabet satisfies
        methods = {}
        for nm in ('writeCDATA', 'writeCDATAChars'):
            a = facts.asts(cls + '::' + nm, must=False)
            if not a:
                raise AnalysisBroken('%s::%s has no body' % (short(cls)[:50], nm))
            methods[nm] = a[0]
        wcls = None
        for kname, kk in facts.K.items():
            if kname.replace(NS, '') == ta[0]:
                wcls = kname
        wf = facts.asts((wcls or (NS + ta[0])) + '::writeCDATAChar', must=False)
        if not wf:
            raise AnalysisBroken('%s::writeCDATAChar has no body' % ta[0][:50])
        preds, _ = predicates(facts, 'CharFunctor' + ver)
        probs = {}
        for s in strings:
            if fam != 'OTHER' and 'EURO' in s and len(s) > 3:
                continue
            units = [ALPHABET[x] for x in s]
            ctx = {'events': [], 'preds': preds, 'methods': methods, 'writer_fn': wf[0]}
            a = methods['writeCDATA']
            m = CMachine(ctx, {a['params'][0]['id']: ('chars', units, 0), a['params'][1]['id']: len(units)}, 'ser')
            try:
                m.call(a['body'])
            except _Stop:
                continue
            except Unsupported as u:
                raise AnalysisBroken('writeCDATA (%s) outside the interpreted subset on %s: %s' % (fam, s, u))
            prob, text = decode(ctx['events'])
            if prob is None and text != [0x0A if False else u for u in units]:
                got = ''.join('\\n' if t == 0x0A else ('\\r' if t == 0x0D else chr(t)) for t in text)
                if 0x0D in units and [0x0A if u == 0x0D else u for u in units] == text:
                    prob = 'a CR is written as is inside a section: a parser reads it back as LF'
                else:
                    prob = 'the output decodes to %r, not to the text given' % got
            label = ' '.join(s)
            if prob is None:
                r.ok('%s %s writer: cdata(%s)' % (ver, fam, label))
            else:
                r.instances += 1
                probs.setdefault(prob, (label, ctx['events']))
        for prob, (label, evs) in sorted(probs.items()):
            r.instances -= 1
            kind = 'CR' if 'CR is written' in prob else ('unterminated' if 'ends inside' in prob else ('close-outside' if "outside a section" in prob and "']]>'" in prob else prob[:30]))
            r.violation('XML %s %s writer: CDATA section, %s' % (ver.replace('_', '.'), fam, kind), '%s; smallest input: cdata(%s) -> %s' % (
                prob, label, ' '.join(e[0] if len(e) == 1 else '%s(U+%04X)' % e for e in evs)), common.file_line(methods['writeCDATAChars']))
    return r
