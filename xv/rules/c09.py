"""C09 — pattern matching agrees with expression evaluation: step kinds the pattern compiler produces are handled by
both pattern consumers; one NodeTester implementation decides node tests (DESIGN.md §3)."""
from ..build import AnalysisBroken
from ..mast import walk, calls, callee, strip_casts
from ..facts import short
from . import common, xpathops

# pattern step heads by emitting function (frozen from reading; IdKeyPattern only ever sees id( / key( , which compile to eOP_FUNCTION)
PATTERN_EMITTERS = {'LocationPathPattern', 'AbbreviatedNodeTestStep'}
IDKEY_HEAD = 'XPathExpression::eOP_FUNCTION'


def run(res, facts, tier):
    P = xpathops.Producers(facts)
    heads = {}
    for code, sites in P.emitted_in(PATTERN_EMITTERS).items():
        if xpathops.family(code) == 'STEP':
            heads[code] = sorted({short(facts.name[k]).split('::')[-1] for k, l, n in sites})
    # IdKeyPattern -> FunctionCall -> eOP_FUNCTION
    if not facts.fn('XPathProcessorImpl::IdKeyPattern'):
        raise AnalysisBroken('IdKeyPattern vanished')
    if IDKEY_HEAD in P.by_code:
        heads[IDKEY_HEAD] = ['IdKeyPattern->FunctionCall']
    if len(heads) < 6:
        raise AnalysisBroken('only %d pattern step heads found (floor 6): %s' % (len(heads), sorted(heads)))
    n_emit, dangling = xpathops.dslash_obligation(facts)
    cannot_be_last = set(xpathops.DSLASH) if not dangling else set()

    r1 = res.rule('C09-R1', 'every step kind the pattern compiler can produce has a case in XPath::stepPattern, and every kind that can be the last '
                  "step of an alternative has a case in XPath::getTargetData's step switch (which has no default)", floor=12)
    for a, conss in xpathops.opcode_switches(facts, 'XPath::stepPattern'):
        cons = conss[0]
        for code, em in sorted(heads.items()):
            site = '%s in stepPattern' % code.split('::')[-1]
            if code in cons.labels:
                r1.ok(site)
            elif cons.default is not None and cons.default_is_error() is False:
                r1.ok(site, 'non-error default')
            else:
                r1.violation(site, 'step kind emitted by %s has no case in stepPattern' % em, common.file_line(a))
    for a, conss in xpathops.opcode_switches(facts, 'XPath::getTargetData'):
        outer = None
        for c in conss:
            if any(xpathops.family(l) == 'STEP' for l in c.labels):
                outer = c
        if outer is None:
            raise AnalysisBroken('getTargetData: step switch not found')
        for code, em in sorted(heads.items()):
            site = '%s in getTargetData' % code.split('::')[-1]
            if code in outer.labels:
                r1.ok(site)
            elif outer.default is not None:
                r1.ok(site, 'default')
            elif code in cannot_be_last:
                r1.ok(site, "cannot be the last step: every emission in LocationPathPattern is followed by RelativePathPattern() or error() (C03-R7 holds, %d emissions)" % n_emit)
            else:
                r1.violation(site, 'step kind emitted by %s can be the last step of an alternative%s but the switch has neither a case nor a default: targetLocalName stays null' %
                             (em, ' (a pattern may end in "//": C03-R7 fails)' if code in xpathops.DSLASH else ''), common.file_line(a))

    r2 = res.rule('C09-R2', 'pattern steps and every axis function obtain node-test verdicts from the one NodeTester class: each node an axis function '
                  'adds is dominated by a NodeTester verdict (or by "the step has no node test")', floor=13)
    from ..mast import CFG, pp
    users = [k for k in facts.astidx if facts.F.get(k, {}).get('cls') == 'xalanc_1_12::XPath' and facts.F[k]['name'].split('::')[-1].startswith('find')]
    if len(users) < 13:
        raise AnalysisBroken('only %d XPath::find* axis functions (floor 13)' % len(users))

    def is_tester_call(x):
        return x['k'] == 'OpCall' and x['op'] == '()' and 'NodeTester' in short(x.get('cls') or '')
    for k in sorted(users, key=lambda k: facts.name[k]):
        nm = facts.name[k].split('::')[-1]
        if nm in ('findNodesOnUnknownAxis', 'findNodeSet', 'findRoot'):
            continue   # the error routine; the filter-expression head (evaluates an expression, no node test); '/' has no node test
        a = facts.ast(k)
        verdict_locals = set()
        for x in walk(a['body']):
            if x['k'] == 'Decl':
                for v in x['vars']:
                    if v.get('init') is not None and any(is_tester_call(y) for y in walk(v['init'])):
                        verdict_locals.add(v['id'])
            elif x['k'] == 'Bin' and x['op'] == '=':
                t = strip_casts(x['lhs'])
                if t.get('k') == 'Ref' and any(is_tester_call(y) for y in walk(x['rhs'])):
                    verdict_locals.add(t.get('id'))
        cfg = CFG(a)
        must = common.must_conds(cfg)
        adds = common.find_call_nodes(cfg, 'addNode') + common.find_call_nodes(cfg, 'addNodeInDocOrder')
        if not adds:
            r2.violation('XPath::%s' % nm, 'axis function adds no node', common.file_line(a))
        for node, call in adds:
            ok = False
            why = None
            for atom, br in must.get(node.id, []):
                core, eff = common.norm_atom(atom, br)
                if any(is_tester_call(y) for y in walk(atom)) or any(y['k'] == 'Ref' and y.get('id') in verdict_locals for y in walk(atom)):
                    ok = True; why = 'NodeTester verdict'
                txt = pp(atom)
                if 'argLen' in txt and (('== 0' in txt and br) or ('> 0' in txt and not br) or ('!= 0' in txt and not br)):
                    ok = True; why = 'step without node test (argLen == 0)'
            site = 'XPath::%s addNode@%s' % (nm, pp(call['args'][0]) if call['args'] else '')
            if ok:
                r2.ok(site, why)
            else:
                r2.violation(site, 'node added without a dominating NodeTester verdict', common.file_line(a, call))
