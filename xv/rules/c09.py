"""C09 — pattern matching agrees with expression evaluation: step kinds the pattern compiler produces are handled by
both pattern consumers; one NodeTester implementation decides node tests (DESIGN.md §3)."""
import re
from ..build import AnalysisBroken
from ..mast import walk, calls, callee, strip_casts, CFG, pp
from ..facts import short
from . import common, xpathops

# pattern step heads by emitting function (frozen from reading; IdKeyPattern only ever sees id( / key( , which compile to eOP_FUNCTION)
PATTERN_EMITTERS = {'LocationPathPattern', 'AbbreviatedNodeTestStep'}
IDKEY_HEAD = 'XPathExpression::eOP_FUNCTION'


def run(res, facts, tier):
    P = xpathops.Producers(facts)
    heads = {}
    for code, sites in P.emitted_in(PATTERN_EMITTERS).items():
        if xpathops.family(code) == 'STEP':
            heads[code] = sorted({short(facts.name[k]).split('::')[-1] for k, l, n in sites})
    # IdKeyPattern -> FunctionCall -> eOP_FUNCTION
    if not facts.fn('XPathProcessorImpl::IdKeyPattern'):
        raise AnalysisBroken('IdKeyPattern vanished')
    if IDKEY_HEAD in P.by_code:
        heads[IDKEY_HEAD] = ['IdKeyPattern->FunctionCall']
    if len(heads) < 6:
        raise AnalysisBroken('only %d pattern step heads found (floor 6): %s' % (len(heads), sorted(heads)))
    n_emit, dangling = xpathops.dslash_obligation(facts)
    cannot_be_last = set(xpathops.DSLASH) if not dangling else set()

    r1 = res.rule('C09-R1', 'every step kind the pattern compiler can produce has a case in XPath::stepPattern, and every kind that can be the last '
                  "step of an alternative has a case in XPath::getTargetData's step switch (which has no default)", floor=12)
    for a, conss in xpathops.opcode_switches(facts, 'XPath::stepPattern'):
        cons = conss[0]
        for code, em in sorted(heads.items()):
            site = '%s in stepPattern' % code.split('::')[-1]
            if code in cons.labels:
                r1.ok(site)
            elif cons.default is not None and cons.default_is_error() is False:
                r1.ok(site, 'non-error default')
            else:
                r1.violation(site, 'step kind emitted by %s has no case in stepPattern' % em, common.file_line(a))
    for a, conss in xpathops.opcode_switches(facts, 'XPath::getTargetData'):
        outer = None
        for c in conss:
            if any(xpathops.family(l) == 'STEP' for l in c.labels):
                outer = c
        if outer is None:
            raise AnalysisBroken('getTargetData: step switch not found')
        for code, em in sorted(heads.items()):
            site = '%s in getTargetData' % code.split('::')[-1]
            if code in outer.labels:
                r1.ok(site)
            elif outer.default is not None:
                r1.ok(site, 'default')
            elif code in cannot_be_last:
                r1.ok(site, "cannot be the last step: every emission in LocationPathPattern is followed by RelativePathPattern() or error() (C03-R7 holds, %d emissions)" % n_emit)
            else:
                r1.violation(site, 'step kind emitted by %s can be the last step of an alternative%s but the switch has neither a case nor a default: targetLocalName stays null' %
                             (em, ' (a pattern may end in "//": C03-R7 fails)' if code in xpathops.DSLASH else ''), common.file_line(a))

    r2 = res.rule('C09-R2', 'pattern steps and every axis function obtain node-test verdicts from the one NodeTester class: each node an axis function '
                  'adds is dominated by a NodeTester verdict (or by "the step has no node test")', floor=13)
    from ..mast import CFG, pp
    users = [k for k in facts.astidx if facts.F.get(k, {}).get('cls') == 'xalanc_1_12::XPath' and facts.F[k]['name'].split('::')[-1].startswith('find')]
    if len(users) < 13:
        raise AnalysisBroken('only %d XPath::find* axis functions (floor 13)' % len(users))

    def is_tester_call(x):
        return x['k'] == 'OpCall' and x['op'] == '()' and 'NodeTester' in short(x.get('cls') or '')
    for k in sorted(users, key=lambda k: facts.name[k]):
        nm = facts.name[k].split('::')[-1]
        if nm in ('findNodesOnUnknownAxis', 'findNodeSet', 'findRoot'):
            continue   # the error routine; the filter-expression head (evaluates an expression, no node test); '/' has no node test
        a = facts.ast(k)
        verdict_locals = set()
        for x in walk(a['body']):
            if x['k'] == 'Decl':
                for v in x['vars']:
                    if v.get('init') is not None and any(is_tester_call(y) for y in walk(v['init'])):
                        verdict_locals.add(v['id'])
            elif x['k'] == 'Bin' and x['op'] == '=':
                t = strip_casts(x['lhs'])
                if t.get('k') == 'Ref' and any(is_tester_call(y) for y in walk(x['rhs'])):
                    verdict_locals.add(t.get('id'))
        cfg = CFG(a)
        must = common.must_conds(cfg)
        adds = common.find_call_nodes(cfg, 'addNode') + common.find_call_nodes(cfg, 'addNodeInDocOrder')
        if not adds:
            r2.violation('XPath::%s' % nm, 'axis function adds no node', common.file_line(a))
        for node, call in adds:
            ok = False
            why = None
            for atom, br in must.get(node.id, []):
                core, eff = common.norm_atom(atom, br)
                if any(is_tester_call(y) for y in walk(atom)) or any(y['k'] == 'Ref' and y.get('id') in verdict_locals for y in walk(atom)):
                    ok = True; why = 'NodeTester verdict'
                txt = pp(atom)
                if 'argLen' in txt and (('== 0' in txt and br) or ('> 0' in txt and not br) or ('!= 0' in txt and not br)):
                    ok = True; why = 'step without node test (argLen == 0)'
            site = 'XPath::%s addNode@%s' % (nm, pp(call['args'][0]) if call['args'] else '')
            if ok:
                r2.ok(site, why)
            else:
                r2.violation(site, 'node added without a dominating NodeTester verdict', common.file_line(a, call))

    r3_ancestor_search(res, facts)


def natural_loops(cfg):
    """{loop-head node id: set of node ids in the loop} for the structured CFG (back edges end in a LoopHead join)"""
    preds = cfg.preds()
    loops = {}
    for h in cfg.nodes:
        if h.ast is None or h.ast.get('k') != 'LoopHead':
            continue
        fwd = cfg.reachable_avoiding([h], lambda m: False)
        body = {h.id}
        work = [p for p in preds.get(h.id, []) if p.id in fwd and p.id != h.id and h.id in cfg.reachable_avoiding([p], lambda m: False)]
        # predecessors of the head that the head itself reaches are the back-edge sources
        work = [p for p in work if p.id in cfg.reachable_avoiding([h], lambda m: False)]
        while work:
            n = work.pop()
            if n.id in body:
                continue
            body.add(n.id)
            work.extend(p for p in preds.get(n.id, []) if p.id in fwd)
        loops[h.id] = body
    return loops


def _step_vars(a):
    """the variables of stepPattern by what they are, not by what they are called: the node parameter, the score that is returned, boolean flags"""
    import re as _re
    ctx = {p['id'] for p in a['params'] if _re.search(r'XalanNode\s*\*', p.get('ty') or '')}
    score = set()
    for x in walk(a['body']):
        if x.get('k') == 'Return' and x.get('e') is not None:
            e = strip_casts(x['e'])
            if e is not None and e.get('k') == 'Ref' and e.get('d') == 'local':
                score.add(e.get('id'))
        if x.get('k') == 'Decl':
            for v in x.get('vars', []):
                if 'eMatchScore' in (v.get('ty') or ''):
                    score.add(v['id'])
    return ctx, score


def _is_var(e, ids):
    e = strip_casts(e)
    return e is not None and e.get('k') == 'Ref' and e.get('id') in ids


def _is_null(e):
    e = strip_casts(e)
    return e is not None and (e.get('cv') == 0 or e.get('k') == 'Nullptr' or pp(e) == '0')


def r3_ancestor_search(res, facts):
    """'a[p]//b': SOME ancestor must pass node test and predicates, so the walk up the ancestors may stop with a positive score only
    at an ancestor whose predicates have been evaluated inside the loop; a predicate check after the loop cannot resume the walk."""
    from ..mast import CFG, pp
    r3 = res.rule('C09-R3', "stepPattern, steps followed by '//' (eMATCH_ANY_ANCESTOR, eMATCH_ANY_ANCESTOR_WITH_PREDICATE): the loop that climbs the ancestors "
                  'leaves with a positive score only on paths that evaluated doStepPredicate for that ancestor in the same iteration; every other exit is '
                  '"no more ancestors" or a failed verdict; the post-switch predicate evaluation is switched off for these cases', floor=3)
    a = facts.asts('XPath::stepPattern')[0]
    ctx_ids, score_ids = _step_vars(a)
    cfg = CFG(a)
    loops = natural_loops(cfg)
    # nodes belonging to the eMATCH_ANY_ANCESTOR case group: reachable from its CaseLabel up to the switch exit
    labels = [n for n in cfg.nodes if n.ast is not None and n.ast.get('k') == 'CaseLabel']
    sw = [n for n in cfg.nodes if n.ast is not None and n.ast.get('k') == 'SwitchCond']
    if not labels or not sw:
        raise AnalysisBroken('stepPattern: no step-kind switch found')
    target = None
    for n in labels:
        names = {strip_casts(l).get('n') for l in n.ast.get('labels', []) if l is not None}
        if 'eMATCH_ANY_ANCESTOR' in names:
            target = n
            if 'eMATCH_ANY_ANCESTOR_WITH_PREDICATE' not in names:
                r3.violation('stepPattern: case labels', 'eMATCH_ANY_ANCESTOR and eMATCH_ANY_ANCESTOR_WITH_PREDICATE are no longer handled by the same case', common.file_line(a, n.ast))
    if target is None:
        raise AnalysisBroken('stepPattern: no case for eMATCH_ANY_ANCESTOR')
    other_labels = {n.id for n in labels if n is not target}
    # the switch exit: first node reachable from every case label
    reach = [cfg.reachable_avoiding([n], lambda m: False) for n in labels]
    common_nodes = set.intersection(*[set(x) for x in reach])
    region = {i for i in cfg.reachable_avoiding([target], lambda m: m.id in common_nodes or m.id in other_labels) if i not in common_nodes}

    def is_pred(n):
        return n.ast is not None and any((c.get('n') or '') == 'doStepPredicate' for c in calls(n.ast))

    def is_climb(n):
        return n.ast is not None and n.kind == 'stmt' and n.ast.get('k') == 'Bin' and n.ast['op'] == '=' and _is_var(n.ast['lhs'], ctx_ids) and any((c.get('n') or '') in ('getParentOfNode', 'getParentNode') for c in calls(n.ast['rhs']))

    def is_verdict(n):
        return n.ast is not None and any(c['k'] == 'OpCall' and c['op'] == '()' and 'NodeTester' in short(c.get('cls') or '') for c in calls(n.ast))
    found = 0
    for h, body in loops.items():
        if h not in region:
            continue
        if not any(is_climb(cfg.nodes[i]) for i in body) or not any(is_verdict(cfg.nodes[i]) for i in body):
            continue
        found += 1
        head = cfg.nodes[h]
        nopred = cfg.reachable_avoiding([head], lambda m: is_pred(m) or m.id not in body)
        for i in sorted(body):
            u = cfg.nodes[i]
            for v in u.succ:
                if v.id in body:
                    continue
                # an exit edge u -> v
                if u.kind == 'cond':
                    core, eff = common.norm_atom(u.ast, u.cond_true is v)
                    txt = pp(core)
                else:
                    core, eff, txt = None, None, pp(u.ast)
                site = 'stepPattern any-ancestor loop: exit after %s%s' % (txt[:50], '' if eff is None else (' [%s]' % ('true' if eff else 'false')))
                fail_exit = False
                if core is not None and core.get('k') == 'Bin' and core['op'] in ('==', '!='):
                    l, rr = core['lhs'], core['rhs']
                    is_eq = (core['op'] == '==') == eff
                    if is_eq and ((_is_var(l, ctx_ids) and _is_null(rr)) or (_is_var(rr, ctx_ids) and _is_null(l))):
                        fail_exit = 'no more ancestors'
                    elif is_eq and ((_is_var(l, score_ids) and pp(strip_casts(rr)).endswith('eMatchScoreNone')) or (_is_var(rr, score_ids) and pp(strip_casts(l)).endswith('eMatchScoreNone'))):
                        fail_exit = 'failed verdict'
                if fail_exit:
                    r3.ok(site, fail_exit)
                elif i in nopred:
                    r3.violation(site, "the walk up the ancestors stops here with a positive node-test score although the step's predicates have not been evaluated for this ancestor "
                                 "in this iteration: 'a[p]//b' would look only at the nearest 'a' ancestor", common.file_line(a, u.ast))
                else:
                    r3.ok(site, 'predicates evaluated in this iteration')
    if found == 0:
        r3.violation('stepPattern any-ancestor case', 'no loop that climbs the ancestors and applies the node test', common.file_line(a, target.ast))
    # fDoPredicates protocol: the case switches the common predicate evaluation off, and that evaluation is guarded by the flag
    flag_off = [n for n in cfg.nodes if n.id in region and n.ast is not None and n.kind == 'stmt' and n.ast.get('k') == 'Bin' and n.ast['op'] == '=' and
                (strip_casts(n.ast['lhs']) or {}).get('k') == 'Ref' and (strip_casts(n.ast['lhs']) or {}).get('d') == 'local' and 'bool' in ((strip_casts(n.ast['lhs']) or {}).get('ty') or 'bool')
                and strip_casts(n.ast['rhs']).get('cv') == 0]
    flag_ids = {strip_casts(n.ast['lhs']).get('id') for n in flag_off}
    post = [n for n in cfg.nodes if is_pred(n) and n.id in common_nodes]
    must = common.must_conds(cfg)
    if post:
        guarded = all(any(_is_var(common.norm_atom(at, br)[0], flag_ids) and common.norm_atom(at, br)[1] for at, br in must.get(n.id, [])) for n in post)
        if flag_off and guarded:
            r3.ok('stepPattern: common predicate evaluation is under fDoPredicates, which the any-ancestor case clears')
        elif not flag_off and not guarded:
            r3.ok('stepPattern: predicates evaluated again after the switch (idempotent)')
        else:
            r3.violation('stepPattern: fDoPredicates protocol', 'flag cleared by the case: %s; common evaluation guarded by the flag: %s' % (bool(flag_off), guarded), common.file_line(a))
    return r3


def r4_positional_marking(res, facts):
    """doStepPredicate re-runs a step from the parent (handleFoundIndex) only for predicates compiled as eOP_PREDICATE_WITH_POSITION;
    a predicate that calls position() or last() but is not marked is evaluated against whatever node list is current when the
    pattern is matched (the apply-templates list, the key builder's list), so pattern and expression disagree."""
    from ..mast import CFG, pp
    r = res.rule('C09-R4', 'every compile function that emits a call of position() or last() (eOP_FUNCTION_POSITION, eOP_FUNCTION_LAST, or the generic call of those names) marks the '
                 'enclosing predicate positional (m_positionPredicateStack.back() = true) on every path that does not report an error; PredicateExpr turns the mark into '
                 'eOP_PREDICATE_WITH_POSITION, which is what makes pattern matching re-run the step from the parent', floor=4)
    emitters = []
    for k in facts.astidx:
        f = facts.F.get(k)
        if not f or f.get('cls') != 'xalanc_1_12::XPathProcessorImpl':
            continue
        a = facts.ast(k)
        if a is None:
            continue
        ops = set()
        for c in calls(a['body']):
            if (c.get('n') or '') in ('appendOpCode', 'replaceOpCode', 'insertOpCode'):
                for x in c.get('args', []):
                    nm = strip_casts(x).get('n') if isinstance(strip_casts(x), dict) else None
                    if nm in ('eOP_FUNCTION_POSITION', 'eOP_FUNCTION_LAST'):
                        ops.add(nm)
        if ops:
            emitters.append((a, sorted(ops)))

    def is_mark(n):
        if n.ast is None or n.kind != 'stmt':
            return False
        for x in walk(n.ast):
            if x.get('k') in ('Bin', 'OpCall') and x.get('op') == '=':
                lhs = x['lhs'] if x['k'] == 'Bin' else x['args'][0]
                rhs = x['rhs'] if x['k'] == 'Bin' else x['args'][1]
                if 'm_positionPredicateStack.back()' in pp(lhs) and strip_casts(rhs).get('cv') == 1:
                    return True
        return False

    def is_err(n):
        return n.ast is not None and any((c.get('n') or '') == 'error' for c in calls(n.ast))
    if len(emitters) < 2:
        raise AnalysisBroken('only %d functions emit eOP_FUNCTION_POSITION / eOP_FUNCTION_LAST' % len(emitters))
    for a, ops in emitters:
        cfg = CFG(a)
        site = '%s emits %s' % (short(a['name']), '/'.join(o[1:] for o in ops))
        seen = set()
        work = [cfg.entry]
        escaped = False
        while work:
            n = work.pop()
            if n.id in seen:
                continue
            seen.add(n.id)
            if n is cfg.exit:
                escaped = True
                break
            if is_mark(n) or is_err(n):
                continue
            if n.kind == 'cond' and n.ast is not None and 'm_positionPredicateStack.empty()' in pp(n.ast):
                core, eff = common.norm_atom(n.ast, True)
                # follow only the branch on which the stack is NOT empty: with an empty stack there is no predicate to mark
                nonempty = n.cond_false if eff else n.cond_true
                if nonempty is not None:
                    work.append(nonempty)
                continue
            work.extend(n.succ)
        if escaped:
            r.violation(site, 'a path compiles the call without marking the enclosing predicate positional: in a match pattern the predicate is then evaluated against the node list '
                        'that happens to be current, not against the siblings the step selects', common.file_line(a))
        else:
            r.ok(site, 'marks the predicate on every non-error path')
    # the generic function-call path marks by name
    gen = [a for a in [facts.ast(k) for k in facts.astidx if facts.F.get(k, {}).get('cls') == 'xalanc_1_12::XPathProcessorImpl'] if a is not None and short(a['name']).endswith('::FunctionCall')]
    for a in gen:
        cfg = CFG(a)
        must = common.must_conds(cfg)
        marks = [n for n in cfg.nodes if is_mark(n)]
        names = set()
        for n in marks:
            txt = ' '.join(pp(at) for at, br in must.get(n.id, []) if br)
            for nm in ('s_positionString', 's_lastString'):
                if nm in txt:
                    names.add(nm)
        # the two names are alternatives of one ||: they do not show up as must-conditions; look at the condition text that guards the mark
        for x in walk(a['body']):
            if x.get('k') == 'If' and any(is_mark_ast(y) for y in walk(x['then'])):
                t = pp(x['cond'])
                for nm in ('s_positionString', 's_lastString'):
                    if nm in t:
                        names.add(nm)
        if names == {'s_positionString', 's_lastString'}:
            r.ok('FunctionCall (generic call): marks for position and last')
        else:
            r.violation('FunctionCall (generic call)', 'the generic call path marks the predicate for %s only' % (sorted(names) or 'neither name'), common.file_line(a))
    # PredicateExpr converts the mark
    for a in facts.asts('XPathProcessorImpl::PredicateExpr'):
        txt = ' '.join(pp(c) for c in calls(a['body']))
        if 'replaceOpCode' in txt and 'eOP_PREDICATE_WITH_POSITION' in txt and any('m_positionPredicateStack.back()' in pp(x.get('cond')) for x in walk(a['body']) if x.get('k') == 'If'):
            r.ok('PredicateExpr: a marked predicate becomes eOP_PREDICATE_WITH_POSITION')
        else:
            r.violation('PredicateExpr', 'the positional mark is no longer turned into eOP_PREDICATE_WITH_POSITION', common.file_line(a))
    return r


def is_mark_ast(x):
    from ..mast import pp
    if x.get('k') in ('Bin', 'OpCall') and x.get('op') == '=':
        lhs = x['lhs'] if x['k'] == 'Bin' else x['args'][0]
        return 'm_positionPredicateStack.back()' in pp(lhs)
    return False


_run_c09_prev = run


def run(res, facts, tier):
    _run_c09_prev(res, facts, tier)
    r4_positional_marking(res, facts)


def r5_backtracking(res, facts):
    """'x/a//b': b matches if SOME ancestor a' of b passes 'a' and the steps to the left of 'a' match at a'.  stepPattern evaluates the steps right
    to left by returning to its caller, so when the ancestor loop of 'a' breaks at the first ancestor that passes node test and predicates, the
    steps to the left are tried for that ancestor only.  And the root step compensates by climbing itself when its right neighbour is followed by '//'."""
    from ..mast import CFG, pp
    r = res.rule('C09-R5', "stepPattern, '//' inside a path: the ancestor chosen for a step followed by '//' must depend on whether the steps to its left match there (no commitment to the "
                 "first ancestor that passes the step's own test), and the root step must accept only the document node as the parent of its right neighbour", floor=2)
    a = facts.asts('XPath::stepPattern')[0]
    ctx_ids, score_ids = _step_vars(a)
    cfg = CFG(a)
    loops = natural_loops(cfg)
    labels = [n for n in cfg.nodes if n.ast is not None and n.ast.get('k') == 'CaseLabel']
    reach = [set(cfg.reachable_avoiding([n], lambda m: False)) for n in labels]
    common_nodes = set.intersection(*reach) if reach else set()

    def region_of(name):
        tgt = [n for n in labels if name in {strip_casts(l).get('n') for l in n.ast.get('labels', []) if l is not None}]
        if not tgt:
            raise AnalysisBroken('stepPattern: no case for %s' % name)
        others = {n.id for n in labels if n is not tgt[0]}
        return {i for i in cfg.reachable_avoiding([tgt[0]], lambda m: m.id in common_nodes or m.id in others) if i not in common_nodes}, tgt[0]

    def climbs(body):
        return any(cfg.nodes[i].ast is not None and cfg.nodes[i].kind == 'stmt' and cfg.nodes[i].ast.get('k') == 'Bin' and cfg.nodes[i].ast.get('op') == '=' and
                   _is_var(cfg.nodes[i].ast['lhs'], ctx_ids) and 'getParentOfNode' in pp(cfg.nodes[i].ast) for i in body)
    # recursion structure: the call for the steps to the right comes before the switch, so the steps to the left are the callers
    sw = [n for n in cfg.nodes if n.ast is not None and n.ast.get('k') == 'SwitchCond']
    rec = [n for n in cfg.nodes if n.ast is not None and n.kind == 'stmt' and any((c.get('n') or '') == 'stepPattern' for c in calls(n.ast))]
    right_first = bool(sw) and bool(rec) and all(sw[0].id in cfg.reachable_avoiding([n], lambda m: False) for n in rec)
    region, lab = region_of('eMATCH_ANY_ANCESTOR')
    for h, body in loops.items():
        if h in region and climbs(body):
            inner_calls = {c.get('n') for i in body if cfg.nodes[i].ast is not None for c in calls(cfg.nodes[i].ast)}
            site = "stepPattern any-ancestor loop: commits to the first ancestor that passes the step's own test"
            if right_first and 'stepPattern' not in inner_calls and 'locationPathPattern' not in inner_calls:
                r.violation(site, "the loop leaves at the first ancestor passing node test and predicates; the steps to the left are matched afterwards, by the callers, for that ancestor only, "
                            "so '/x/a//b' does not match b in <x><a><q><a><b/></a></q></a></x> although the expression selects it", common.file_line(a, cfg.nodes[h].ast))
            else:
                r.ok(site, 'the left remainder is consulted inside the loop')
    region, lab = region_of('eFROM_ROOT')
    found = False
    for h, body in loops.items():
        if h in region and climbs(body):
            found = True
            r.violation("stepPattern eFROM_ROOT: climbs to the root when the step to its right is followed by '//'",
                        "the '//' after the right neighbour says nothing about how that neighbour relates to the root, yet the root step walks up from its parent until it finds the "
                        "document: '/a//b' matches b in <x><a><y><b/></y></a></x> although the expression selects nothing", common.file_line(a, cfg.nodes[h].ast))
    if not found:
        r.ok('stepPattern eFROM_ROOT: accepts the document node only')
    return r


_run_c09_prev2 = run


def run(res, facts, tier):
    _run_c09_prev2(res, facts, tier)
    r5_backtracking(res, facts)


# ----------------------------------------------------------------------------------------------- R6: a number-valued predicate is a position test
def r6_numeric_predicates(res, facts):
    """XPath 1.0 2.4: a predicate whose value is a number is true iff the number equals the context position.  The expression side (XPath::predicates) and the
    pattern side (XPath::doStepPredicate) both evaluate a predicate with XPath::predicate(); each must split on the run-time type of the result before converting
    it to a boolean - otherwise item[count(x)] selects by position and matches by non-zero-ness."""
    r = res.rule('C09-R6', 'every function that evaluates a predicate with XPath::predicate() tests the type of the result for number and treats that case as a position test; the '
                 'conversion boolean() is applied only where the number case was excluded, or in the same condition as the position comparison', floor=2)
    pk = [k for k, v in facts.F.items() if v['name'] == 'xalanc_1_12::XPath::predicate']
    if not pk:
        raise AnalysisBroken('XPath::predicate not found')
    sites = sorted({c['from'] for c in facts.calls if c['to'] in pk})
    n = 0
    for k in sites:
        a = facts.ast(k)
        if a is None or a.get('body') is None:
            continue
        n += 1
        site = short(facts.sig(k))
        cfg = CFG(a)
        mc = common.must_conds(cfg)

        def is_type_test(e):
            e = strip_casts(e)
            if e is None or e.get('k') != 'Bin' or e['op'] not in ('==', '!='):
                return None
            t = pp(e)
            if 'eTypeNumber' in t and 'getType()' in t:
                return e['op'] == '=='
            return None
        type_tests = [x for x in walk(a['body']) if is_type_test(x) is not None]
        bools = [(nd, c) for nd, c in common.find_call_nodes(cfg, 'boolean') if c.get('k') == 'MCall' and 'XObject' in (c.get('cls') or '')]
        if not bools:
            r.violation(site, 'the result of predicate() is never converted with XObject::boolean(): the predicate is not applied as XPath 1.0 2.4 defines', common.file_line(a)); continue
        if not type_tests:
            r.violation(site, 'the result of predicate() is converted to a boolean without a test for the type number: a number-valued predicate is applied as "non-zero" '
                        'instead of "equals the position" (XPath 1.0 2.4)', common.file_line(a, bools[0][1])); continue
        bad = None
        for nd, c in bools:
            excluded = False
            for atom, br in mc.get(nd.id, []):
                core, eff = common.norm_atom(atom, br)
                tt = is_type_test(core)
                if tt is not None and (tt != eff):
                    excluded = True       # "type == number" is false here
            if excluded:
                continue
            # same condition as a position comparison of the number
            holder = None
            for x in walk(a['body']):
                if x.get('k') == 'If' and any(y is c for y in walk(x['cond'])):
                    holder = x['cond']
            if holder is not None and any(is_type_test(y) for y in walk(holder)) and any((y.get('n') or '') == 'num' for y in calls(holder)):
                continue
            bad = c
            break
        if bad is not None:
            r.violation(site, 'boolean() is applied to a predicate result on a path where the type number was not excluded: a number-valued predicate is applied as "non-zero" '
                        'instead of "equals the position" (XPath 1.0 2.4)', common.file_line(a, bad))
        else:
            r.ok(site, 'number -> position test, otherwise boolean()')
    if n < 2:
        raise AnalysisBroken('only %d function(s) call XPath::predicate (the expression side and the pattern side expected)' % n)
    return r


_run_c09_prev5 = run


def run(res, facts, tier):
    _run_c09_prev5(res, facts, tier)
    r6_numeric_predicates(res, facts)


# ----------------------------------------------------------------------------------------------- R7: the attribute step
def r7_attribute_step(res, facts):
    """NodeTester::initialize picks the attribute name tests only for the step type eFROM_ATTRIBUTES (and the namespace tests only for eFROM_NAMESPACE); with any other
    step type a name test is an element test.  So every tester built for an attribute step - in findAttributes, for whichever step kinds XPath::step sends there, and
    in stepPattern's eMATCH_ATTRIBUTE case - must be built with eFROM_ATTRIBUTES, and the pattern side must apply it to attribute nodes only (node() accepts any kind)."""
    r = res.rule('C09-R7', 'attribute steps: the step types that reach the node tester of findAttributes / findNamespace from XPath::step are exactly the ones for which '
                 'NodeTester::initialize selects the attribute / namespace tests; stepPattern applies the node test of an eMATCH_ATTRIBUTE step only to attribute nodes and of '
                 'the child steps only to non-attribute nodes', floor=5)
    # which step types make initialize() choose which family
    init = [a for a in facts.asts('XPath::NodeTester::initialize', must=False) + facts.asts('XPath::NodeTester::NodeTester', must=False) if a.get('body') is not None]
    fam = {}
    for a in init:
        for x in walk(a['body']):
            if x.get('k') == 'If':
                c = strip_casts(x['cond'])
                if c.get('k') == 'Bin' and c['op'] == '==' and 'stepType' in pp(c):
                    en = [y.get('n') for y in walk(c) if y.get('k') == 'Ref' and y.get('d') == 'enum']
                    tests = {y.get('n') or '' for y in walk(x['then']) if y.get('k') == 'Ref' and (y.get('n') or '').startswith('test')} | \
                            {m.group(0) for m in re.finditer(r'test(Attribute|Namespace|Element)\w*', pp(x['then']))}
                    txt = str(x['then'])
                    if en and 'testAttribute' in txt:
                        fam['attribute'] = en[0]
                    elif en and 'testNamespace' in txt:
                        fam['namespace'] = en[0]
    if 'attribute' not in fam:
        raise AnalysisBroken('NodeTester: the branch that selects the attribute tests by step type was not found')
    steps = [a for a in facts.asts('XPath::step', must=False) if a.get('body') is not None and len(a['params']) >= 4]
    if not steps:
        raise AnalysisBroken('XPath::step has no body')
    from ..mast import switch_cases
    n_sites = 0
    for a in steps:
        for sw in walk(a['body']):
            if sw.get('k') != 'Switch':
                continue
            groups = switch_cases(sw)
            carry = []
            for g in groups:
                labels = carry + [strip_casts(l).get('n') for l in g['labels'] if l is not None]
                ends = bool(g['stmts']) and g['stmts'][-1].get('k') in ('Break', 'Return')
                for c in (c for st in g['stmts'] for c in calls(st)):
                    n = c.get('n') or ''
                    want = {'findAttributes': 'attribute', 'findNamespace': 'namespace'}.get(n)
                    if want is None or want not in fam or len(c.get('args', [])) < 4:
                        continue
                    n_sites += 1
                    arg = strip_casts(c['args'][3])
                    if arg.get('k') == 'Ref' and arg.get('d') == 'enum':
                        vals = [arg['n']]
                    else:
                        vals = labels
                    site = 'XPath::step -> %s (step kinds %s)' % (n, ', '.join(labels))
                    bad = [v for v in vals if v != fam[want]]
                    if bad:
                        r.violation(site, 'the node tester of %s is built with step type %s; NodeTester::initialize selects the %s name tests only for %s, so a name test there is '
                                    'an element test and never accepts an %s node (a pattern such as @*[1], which searches from the parent, matches nothing)'
                                    % (n, ', '.join(bad), want, fam[want], want), common.file_line(a, c))
                    else:
                        r.ok(site, 'tester built with ' + fam[want])
                carry = [] if ends else labels
    if n_sites < 2:
        raise AnalysisBroken('XPath::step: %d calls of findAttributes / findNamespace found' % n_sites)
    # pattern side: kind guards
    sp = [a for a in facts.asts('XPath::stepPattern', must=False) if a.get('body') is not None]
    if not sp:
        raise AnalysisBroken('XPath::stepPattern has no body')
    for a in sp:
        cfg = CFG(a)
        mc = common.must_conds(cfg)
        seen = set()
        for n in cfg.nodes:
            if n.ast is None:
                continue
            for c in calls(n.ast):
                if c.get('k') != 'Ctor' or not (c.get('cls') or '').endswith('NodeTester') or len(c.get('args', [])) < 5:
                    continue
                st = strip_casts(c['args'][4])
                kind = st.get('n') if st.get('k') == 'Ref' and st.get('d') == 'enum' else None
                conds = []
                for atom, br in mc.get(n.id, []):
                    core, eff = common.norm_atom(atom, br)
                    t = pp(core)
                    if 'ATTRIBUTE_NODE' in t and core.get('k') == 'Bin' and core['op'] in ('==', '!='):
                        conds.append((core['op'] == '==') == eff)      # True: "is an attribute" holds
                if kind == 'eFROM_ATTRIBUTES':
                    site = 'stepPattern: attribute step'
                    if site in seen:
                        continue
                    seen.add(site)
                    if True in conds:
                        r.ok(site, 'node test applied to attribute nodes only')
                    else:
                        r.violation(site, 'the node test of an attribute step is applied to a node of any kind: node() accepts elements, text and comments, so match="@node()" '
                                    'matches them', common.file_line(a, c))
                elif kind in ('eMATCH_IMMEDIATE_ANCESTOR',) or kind is None and 'stepType' in pp(c['args'][4]):
                    # child steps: the tester built from the case's own step type
                    labels_txt = kind or 'the // step kinds'
                    site = 'stepPattern: child step (%s)' % labels_txt
                    if site in seen:
                        continue
                    # the FROM_ROOT case also builds a tester from stepType: it climbs to the root and needs no kind guard
                    if kind is None and False not in conds:
                        continue
                    seen.add(site)
                    if False in conds:
                        r.ok(site, 'node test applied to non-attribute nodes only')
                    else:
                        r.violation(site, 'the node test of a child step is applied to attribute nodes too', common.file_line(a, c))
    # namespace declarations are not attributes: excluded on the expression side (findAttributes) and on the pattern side alike
    def ns_excluded(a, cfg, mc, node):
        for atom, br in mc.get(node.id, []):
            core, eff = common.norm_atom(atom, br)
            if core is not None and core.get('k') in ('Call', 'MCall') and (core.get('n') or '') == 'isNamespaceDeclaration' and eff is False:
                return True
        return False
    for fa in [x for x in facts.asts('XPath::findAttributes', must=False) if x.get('body') is not None]:
        cfg = CFG(fa)
        mc = common.must_conds(cfg)
        adds = common.find_call_nodes(cfg, 'addNode')
        if not adds:
            raise AnalysisBroken('findAttributes adds no node')
        bad = [c for n, c in adds if not ns_excluded(fa, cfg, mc, n)]
        if bad:
            r.violation('findAttributes: namespace declarations', 'an attribute is delivered on the attribute axis without isNamespaceDeclaration() == false having been established: '
                        '@node() delivers xmlns declarations (the name tests reject them, node() does not)', common.file_line(fa, bad[0]))
        else:
            r.ok('findAttributes: namespace declarations', 'excluded before the node test')
    for a in sp:
        cfg = CFG(a)
        mc = common.must_conds(cfg)
        for n in cfg.nodes:
            if n.ast is None:
                continue
            for c in calls(n.ast):
                if c.get('k') == 'Ctor' and (c.get('cls') or '').endswith('NodeTester') and len(c.get('args', [])) >= 5 and strip_casts(c['args'][4]).get('n') == 'eFROM_ATTRIBUTES':
                    if ns_excluded(a, cfg, mc, n):
                        r.ok('stepPattern: namespace declarations', 'excluded before the node test')
                    else:
                        r.violation('stepPattern: namespace declarations', 'an attribute step of a pattern can match a namespace declaration (node() accepts it); the expression side '
                                    'excludes them', common.file_line(a, c))
    return r


_run_c09_prev6 = run


def run(res, facts, tier):
    _run_c09_prev6(res, facts, tier)
    r7_attribute_step(res, facts)


_run_c09_prev7 = run


def run(res, facts, tier):
    _run_c09_prev7(res, facts, tier)
    from . import c02_parse
    c02_parse.run_pattern_rule(res, facts, tier)


_run_c09_prev8 = run


def run(res, facts, tier):
    _run_c09_prev8(res, facts, tier)
    from . import c09_match
    c09_match.run_rule(res, facts, tier)


_run_c09_prev9 = run


def run(res, facts, tier):
    _run_c09_prev9(res, facts, tier)
    from . import c10_lookup
    c10_lookup.run_c09_rule(res, facts, tier)
