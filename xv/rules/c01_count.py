"""C01-R12 — xsl:number: which nodes are counted (XSLT 1.0 7.7), by interpretation.

ElemNumber::getCountString (the entry of the instruction), getMatchingAncestors, getTargetNode, findAncestor, findPrecedingOrAncestorOrSelf, getPreviousNode,
getCountMatchPattern, and CountersTable::countNode with Counter::getPreviouslyCounted - the counting with its cache of already counted nodes - are interpreted on small
trees for level = single / multiple / any, with a count pattern, without one (the default: nodes of the same kind and name as the current node), and with a from pattern.
Patterns are model objects (a name test answers by the node's kind and name: the matcher is C09's business), the list the numbers are handed to formatNumberList in is
recorded (formatting is C01-R9's), appendBtoFList is modelled (reverse append).
One CountersTable is kept across all the queries of a run, as in a transformation, and the nodes are visited in document order, in reverse order and in a shuffled order:
the numbers must be those of XSLT 1.0 7.7 whatever has been counted before.
Reference: level=single - the first ancestor-or-self that matches count gets 1 + the number of its preceding siblings that match; level=multiple - that for every matching
ancestor-or-self, outermost first; level=any - the number of matching nodes that are the node itself, precede it or are its ancestors.  With from: single / multiple look no
higher than the nearest ancestor that matches from; any counts only nodes after the nearest node that matches from among the preceding nodes and ancestors.  A current
node that itself matches from is left out (the Recommendation is silent, processors differ), as are from patterns that overlap the count pattern."""
import itertools, random
from ..build import AnalysisBroken
from ..mast import Unsupported, callee, strip_casts, pp
from ..facts import NS
from ..omach import OMachine, Obj, Vec, It, Fault
from . import common


class N:
    identity = True

    def __init__(self, kind, name, parent=None):
        self.kind, self.name, self.parent = kind, name, parent
        self.children = []
        self.order = None
        if parent is not None:
            parent.children.append(self)

    def path(self):
        if self.parent is None:
            return '/'
        if self.kind == 'attr':
            return self.parent.path().rstrip('/') + '/@' + self.name
        sib = [x for x in self.parent.children if x.kind == self.kind and x.name == self.name]
        label = self.name if self.kind == 'elem' else {'text': 'text()', 'comment': 'comment()', 'pi': 'processing-instruction(%s)' % self.name, 'attr': '@' + self.name}[self.kind]
        return self.parent.path().rstrip('/') + '/%s[%d]' % (label, sib.index(self) + 1)

    def __repr__(self):
        return self.path()


def build(shape):
    """shape: nested lists of names; 't' = text node"""
    doc = N('doc', '')

    def go(parent, spec):
        for s in spec:
            if isinstance(s, str) and s.startswith('@'):
                nd = N('attr', s[1:], None)
                nd.parent = parent             # the owner element; attributes are not children
                nd.stripped = False
                parent.attrs = getattr(parent, 'attrs', []) + [nd]
            elif isinstance(s, str) and s.startswith('?'):
                nd = N('pi', s[1:], parent)
                nd.stripped = False
            elif isinstance(s, str) and s == '!':
                nd = N('comment', '', parent)
                nd.stripped = False
            elif isinstance(s, str):
                nd = N('text' if s in ('t', 'w') else 'elem', '' if s in ('t', 'w') else s, parent)
                nd.stripped = s == 'w'      # a white-space text node that xsl:strip-space removes: still in the DOM (Xalan does not unlink it), but no pattern matches it
            else:
                e = N('elem', s[0], parent)
                go(e, s[1:])
    go(doc, shape)
    nodes = []

    def walk(n):
        nodes.append(n)
        for a in getattr(n, 'attrs', []):
            nodes.append(a)
        for c in n.children:
            walk(c)
    walk(doc)
    for i, n in enumerate(nodes):
        n.order = i
    return doc, nodes


class NList:
    identity = True

    def __init__(self):
        self.items = []


class CWorld:
    construct_objects = False

    def __init__(self, facts):
        self.facts = facts
        self.depth = 0
        self.calls = 0
        self.max_calls = 20000
        self.T = {k: facts.enumconst.get(NS + 'XalanNode::' + k) for k in ('ELEMENT_NODE', 'TEXT_NODE', 'DOCUMENT_NODE', 'COMMENT_NODE', 'PROCESSING_INSTRUCTION_NODE', 'ATTRIBUTE_NODE')}
        self.NONE = facts.enumconst.get(NS + 'XPath::eMatchScoreNone')
        self.HIT = facts.enumconst.get(NS + 'XPath::eMatchScoreQName')
        if None in self.T.values() or self.NONE is None or self.HIT is None:
            raise AnalysisBroken('node type / match score constants not found')
        self.current = None
        self.ctable = None
        self.lists = []

    def tables(self, q):
        t = self.facts.table(q, must=False)
        return None if t is None else self.facts.resolve(t['val'])

    def glob(self, name):
        n = name.split('::')[-1]
        t = self.facts.table(name, must=False) or self.facts.table(NS + name, must=False)
        if t is not None and 'char16_t' in (t.get('type') or ''):
            out = ''
            for c in self.facts.resolve(t['val']):
                c = c.get('val', c.get('v')) if isinstance(c, dict) else c
                if not isinstance(c, int) or c == 0:
                    break
                out += chr(c)
            return out
        return ('GLOBAL', n)

    def allow(self, body, c):
        f = body['file']
        nm = (body.get('fq') or '').split('::')[-1]
        if f.endswith(('XSLT/ElemNumber.cpp', 'XSLT/ElemNumber.hpp')):
            return not body.get('cls') or nm in ('getCountString', 'getMatchingAncestors', 'getTargetNode', 'findAncestor', 'findPrecedingOrAncestorOrSelf', 'getPreviousNode', 'getCountMatchPattern', 'getID')
        if f.endswith(('XSLT/CountersTable.cpp', 'XSLT/CountersTable.hpp')):
            return nm in ('countNode', 'getPreviouslyCounted')
        return False

    def destructor(self, o):
        return None

    @staticmethod
    def matches(pat, nd):
        kind, name = pat[1], pat[2]
        if kind == 'elem':
            return nd.kind == 'elem' and (name == '*' or nd.name == name)
        if kind == 'text':
            return nd.kind == 'text' and not getattr(nd, 'stripped', False)
        if kind == 'doc':
            return nd.kind == 'doc'
        if kind == 'attr':
            return nd.kind == 'attr' and nd.name == name
        if kind == 'comment':
            return nd.kind == 'comment'
        if kind == 'pi':
            return nd.kind == 'pi' and (name == '' or nd.name == name)
        return False

    def hook(self, m, c):
        k = c['k']
        n = c.get('n') or callee(c).split('::')[-1]
        cls = c.get('cls') or ''
        if k == 'Ctor':
            if 'XPathGuard' in cls:
                return Obj('xpguard', {'x': 0})
            if 'BorrowReturnMutableNodeRefList' in cls or 'GetCachedNodeList' in cls:
                return NList()
            if 'GetCachedString' in cls:
                return Obj('strguard', {'str': Obj('mstr', {'s': ''})})
            if 'ElementPrefixResolverProxy' in cls or 'XalanSimplePrefixResolver' in cls:
                return 'RESOLVER'
            if cls.split('<')[0].endswith('XalanVector'):
                return Vec([])
            return NotImplemented
        if k == 'MCall':
            tgt = m.target_obj(c)
            a = c.get('args', [])
            if isinstance(tgt, Obj) and tgt.cls == 'xpguard':
                if n == 'reset':
                    tgt.fields['x'] = m.ev(a[0]); return 0
                if n == 'get':
                    return tgt.fields['x']
                if n == 'release':
                    v = tgt.fields['x']; tgt.fields['x'] = 0; return v
            if isinstance(tgt, Obj) and tgt.cls == 'strguard' and n == 'get':
                return tgt.fields['str']
            if isinstance(tgt, Obj) and tgt.cls == 'mstr':
                def sv(x):
                    x = m.ev(x)
                    return x.fields['s'] if isinstance(x, Obj) and x.cls == 'mstr' else x
                if n == 'append' and len(a) == 1:
                    tgt.fields['s'] += sv(a[0]); return tgt
                if n == 'append' and len(a) == 2:
                    x, y = sv(a[0]), sv(a[1])
                    tgt.fields['s'] += (chr(y) * int(x)) if isinstance(x, int) and isinstance(y, int) else str(x)[:int(y)]
                    return tgt
                if n == 'assign' and len(a) == 1:
                    tgt.fields['s'] = sv(a[0]); return tgt
                if n in ('length', 'size'):
                    return len(tgt.fields['s'])
                raise Unsupported('string method ' + n)
            if isinstance(tgt, tuple) and tgt and tgt[0] == 'PAT' and n == 'getMatchScore':
                nd = m.ev(a[0])
                return self.HIT if isinstance(nd, N) and self.matches(tgt, nd) else self.NONE
            if isinstance(tgt, NList):
                if n in ('get',):
                    return tgt
                if n == 'getLength':
                    return len(tgt.items)
                if n == 'item':
                    i = int(m.ev(a[0]))
                    if not (0 <= i < len(tgt.items)):
                        raise Fault('item(%d) of a list of %d' % (i, len(tgt.items)))
                    return tgt.items[i]
                if n == 'addNode':
                    tgt.items.append(m.ev(a[0])); return 0
            if isinstance(tgt, N):
                if n == 'getNodeType':
                    return self.T[{'elem': 'ELEMENT_NODE', 'text': 'TEXT_NODE', 'doc': 'DOCUMENT_NODE', 'comment': 'COMMENT_NODE', 'pi': 'PROCESSING_INSTRUCTION_NODE', 'attr': 'ATTRIBUTE_NODE'}[tgt.kind]]
                if n == 'getParentNode':
                    return tgt.parent or 0
                if n == 'getOwnerElement':
                    return tgt.parent or 0
                if tgt.kind == 'attr' and n in ('getPreviousSibling', 'getNextSibling', 'getFirstChild', 'getLastChild'):
                    return 0
                if n == 'getPreviousSibling':
                    if tgt.parent is None:
                        return 0
                    i = tgt.parent.children.index(tgt)
                    return tgt.parent.children[i - 1] if i > 0 else 0
                if n == 'getLastChild':
                    return tgt.children[-1] if tgt.children else 0
                if n == 'getFirstChild':
                    return tgt.children[0] if tgt.children else 0
                if n == 'getNextSibling':
                    if tgt.parent is None:
                        return 0
                    i = tgt.parent.children.index(tgt)
                    return tgt.parent.children[i + 1] if i + 1 < len(tgt.parent.children) else 0
                if n == 'getNamespaceURI':
                    return ''
                if n in ('getNodeName', 'getLocalName'):
                    return tgt.name
                raise Unsupported('node method ' + n)
            if tgt == 'ECTX':
                if n == 'getCurrentNode':
                    return self.current
                if n == 'getCountersTable':
                    return self.ctable
                if n == 'isNodeAfter':
                    x, y = m.ev(a[0]), m.ev(a[1])
                    return int(x.order > y.order)          # isNodeAfter(node1, node2): node1 comes after node2
                if n == 'createMatchPattern':
                    s2 = m.ev(a[0])
                    if isinstance(s2, tuple) and s2 and s2[0] == 'GLOBAL':
                        s2 = {'s_textString': 'text()', 's_commentString': 'comment()', 's_slashString': '/'}.get(s2[1], s2[1])
                    if isinstance(s2, Obj) and s2.cls == 'mstr':
                        s2 = s2.fields['s']
                    if isinstance(s2, str) and len(s2) > 1 and s2[0] == '@' and s2[1:].isalnum():
                        return ('PAT', 'attr', s2[1:])
                    if isinstance(s2, str) and s2 and not (s2[0].isalnum() or s2[0] in '/_*'):
                        raise Fault('the pattern parser rejects %r' % s2)
                    if isinstance(s2, str) and s2.startswith('comment'):
                        return ('PAT', 'comment', '')
                    if isinstance(s2, str) and s2.startswith('processing-instruction('):
                        inner = s2[len('processing-instruction('):].rstrip(')')
                        if inner == '':
                            return ('PAT', 'pi', '')
                        if len(inner) >= 2 and inner[0] == inner[-1] and inner[0] in '\'"':
                            return ('PAT', 'pi', inner[1:-1])
                        raise Fault('the pattern parser rejects %r: the argument of processing-instruction() has to be a literal' % s2)
                    if s2 == '/':
                        return ('PAT', 'doc', '')
                    if s2.startswith('text'):
                        return ('PAT', 'text', '')
                    if s2.replace('_', 'a').isalnum():
                        return ('PAT', 'elem', s2)
                    raise Unsupported('match pattern %r created for the default count' % s2)
                if n == 'getMemoryManager':
                    return 'MM'
                raise Unsupported('execution context method ' + n)
            if isinstance(tgt, Obj) and tgt.cls.endswith('ElemNumber') and n == 'formatNumberList':
                lst, ln = m.ev(a[1]), int(m.ev(a[2]))
                if isinstance(lst, Vec):
                    vals = lst.items[:ln]
                elif isinstance(lst, It):
                    vals = lst.vec.items[lst.i:lst.i + ln]
                else:
                    vals = [lst]
                self.lists.append(list(vals))
                return 0
            if isinstance(tgt, Vec) and n == 'resize' and 'Counter' in cls and len(a) == 1:
                sz = int(m.ev(a[0]))
                while len(tgt.items) < sz:
                    tgt.items.append(Obj(NS + 'Counter', {'m_countNodesStartCount': 0, 'm_countNodes': Vec([]), 'm_fromNode': 0, 'm_numberElem': 0}))
                del tgt.items[sz:]
                return 0
            if isinstance(tgt, str) and n in ('length', 'empty'):
                return len(tgt) if n == 'length' else int(not tgt)
        if k == 'Call':
            a = c.get('args', [])
            if n == 'getParentOfNode':
                nd = m.ev(a[0])
                return nd.parent or 0
            if n == 'appendBtoFList' and len(a) == 2:
                fl, bl = m.ev(a[0]), m.ev(a[1])
                fl.items.extend(reversed(bl.items))
                return 0
        if k == 'OpCall' and c.get('op') == '=' and len(c['args']) == 2:
            t0 = m.ev(c['args'][0])
            if isinstance(t0, Obj) and t0.cls == 'mstr':
                v = m.ev(c['args'][1])
                t0.fields['s'] = v.fields['s'] if isinstance(v, Obj) and v.cls == 'mstr' else v
                return t0
        if k == 'OpCall' and c.get('op') in ('*', '->') and len(c['args']) == 1:
            v = m.ev(c['args'][0])
            if isinstance(v, (NList, tuple)) or v == 'ECTX':
                return v
        return NotImplemented


# ------------------------------------------------------------------------------------------------------------------ XSLT 1.0 7.7
def preceding_or_ancestor(nd, nodes):
    """nodes before nd in document order (its ancestors included), nearest first"""
    return [x for x in reversed(nodes[:nd.order])]


def ancestors_or_self(nd):
    out = []
    while nd is not None:
        out.append(nd); nd = nd.parent
    return out


def ref_numbers(level, count, frm, nd, nodes):
    m = CWorld.matches
    if count is None:
        count = ('PAT', nd.kind, nd.name)
    if level == 'any':
        # "only nodes after the first node before the current node that match the from pattern are considered"
        chain = [nd] + [x for x in preceding_or_ancestor(nd, nodes) if x.kind != 'attr']        # 7.7: the union of the preceding and ancestor-or-self axes - no attributes
        n = 0
        for x in chain:
            if frm is not None and x is not nd and m(frm, x):
                break
            if m(count, x):
                n += 1
        return [n] if n else []
    chain = ancestors_or_self(nd)
    if frm is not None:
        # "the only ancestors that are searched are those that are descendants of the nearest ancestor that matches the from pattern"
        cut = next((i for i, x in enumerate(chain) if i > 0 and m(frm, x)), None)
        if cut is not None:
            chain = chain[:cut]
    hits = [x for x in chain if m(count, x)]
    if level == 'single':
        hits = hits[:1]
    out = []
    for x in reversed(hits):
        sib = x.parent.children if x.parent is not None and x.kind != 'attr' else [x]        # an attribute has no siblings (XPath 1.0 5.3)
        out.append(1 + sum(1 for y in sib[:sib.index(x)] if m(count, y)))
    return out


SHAPES = [
    [['a', ['b'], ['c'], ['b', ['b'], ['c', ['b']]], 't', ['b']]],
    [['a', ['a', ['a'], ['b']], ['b', ['a']], ['a']]],
    [['r', ['s', ['b'], ['b']], ['s', ['b'], 't', ['b'], ['b']]]],
    [['r', '?p', '!', ['b'], '?q', '?p', '!', 't', ['s', '?p', '!']]],
    [['r', '@k', '@j', ['b', '@k'], ['b'], ['s', '@k', ['b', '@j']]]],
]


SHAPES_WS = [
    [['a', 'w', ['b'], 'w', 't', ['b'], 'w', 't', ['c', 'w', 't', ['b'], 't'], 'w']],
    [['r', 't', 'w', ['s', 'w'], 'w', 't', 'w', 't']],
]


def run_c13_rule(res, facts, tier):
    return run_rule(res, facts, tier, rid='C13-R8', shapes=SHAPES_WS)


def run_rule(res, facts, tier, rid='C01-R12', shapes=None):
    if rid == 'C13-R8':
        r = res.rule('C13-R8', 'xsl:number does not count what xsl:strip-space removed: the counting code of C01-R12 interpreted on trees that contain stripped white-space text nodes '
                     '(present in the DOM, matched by no pattern: NodeTester consults the strip decision, C13-R2 / R6), numbering text nodes and elements without a count attribute '
                     'and with count="text()": the numbers are those of the tree without the stripped nodes', floor=150)
        return _run(res, facts, tier, r, shapes, [None, ('PAT', 'text', ''), ('PAT', 'elem', 'b')], [None, ('PAT', 'elem', 'c')])
    r = res.rule('C01-R12', 'xsl:number, which nodes are counted: getCountString with getMatchingAncestors / getTargetNode / getPreviousNode and CountersTable::countNode with its cache of '
                 'counted nodes interpreted for level single / multiple / any, with and without count and from patterns, every node of three small trees visited in document, '
                 'reverse and shuffled order with one counters table: the numbers handed to the formatter are those of XSLT 1.0 7.7, whatever was counted before', floor=800)
    return _run(res, facts, tier, r, SHAPES, [None, ('PAT', 'elem', 'b'), ('PAT', 'elem', '*'), ('PAT', 'elem', 'a')], [None, ('PAT', 'elem', 's'), ('PAT', 'elem', 'a'), ('PAT', 'elem', 'c')])


def _run(res, facts, tier, r, SHAPES, counts, froms):
    w = CWorld(facts)
    cands = [a for a in facts.asts('ElemNumber::getCountString', must=False) if a.get('body') is not None and len(a['params']) == 2]
    if len(cands) != 1:
        raise AnalysisBroken('ElemNumber::getCountString(context, result): %d bodies' % len(cands))
    fn = cands[0]
    LV = {k2: facts.enumconst.get(NS + 'ElemNumber::' + v) for k2, v in (('single', 'eSingle'), ('multiple', 'eMultiple'), ('any', 'eAny'))}
    if None in LV.values():
        raise AnalysisBroken('ElemNumber level constants not found')
    kfields = {f['n'] for f in (facts.K.get(NS + 'ElemNumber') or {}).get('fields', [])}
    deep = tier == 'thorough'
    rng = random.Random(7)
    reported = {}

    def show(p):
        return 'none' if p is None else (p[2] if p[1] == 'elem' else p[1] + '()')
    for si, shape in enumerate(SHAPES):
        doc, nodes = build(shape)
        for level, count, frm in itertools.product(('single', 'multiple', 'any'), counts, froms):
            if frm is not None and count is None and not deep:
                continue
            if frm is not None and count is not None and (count[2] == '*' or count[2] == frm[2]):
                continue            # a node that matches both: counted or not is the same open question
            orders = [list(nodes[1:]), list(reversed(nodes[1:]))]
            sh = list(nodes[1:]); rng.shuffle(sh); orders.append(sh)
            for oi, order in enumerate(orders):
                elem = Obj(NS + 'ElemNumber', {'m_countMatchPattern': count or 0, 'm_fromMatchPattern': frm or 0, 'm_valueExpr': 0, 'm_level': LV[level], 'm_format_avt': 0, 'm_id': 0})
                for f in kfields:
                    elem.fields.setdefault(f, 0)
                w.ctable = Obj(NS + 'CountersTable', {'m_countersVector': Vec([Vec([])]), 'm_newFound': Vec([])})
                for nd in order:
                    if getattr(nd, 'stripped', False):
                        continue        # a stripped node is never the current node
                    if frm is not None and CWorld.matches(frm, nd):
                        continue        # the current node itself matches from: the Recommendation does not say, and processors differ
                    w.current = nd
                    w.lists = []
                    w.calls = 0
                    site = 'level=%s count=%s from=%s' % (level, show(count), show(frm))
                    desc = 'tree %d, node %s, after counting for %s' % (si + 1, nd, [str(x) for x in order[:order.index(nd)]][-3:] or 'nothing')
                    try:
                        m = OMachine(w, {}, elem)
                        m.fuel = 60000
                        m.run_body(fn, ['ECTX', 'RESULT'], elem)
                        got = w.lists[0] if w.lists else []
                    except Fault as f:
                        got = 'FAULT: %s' % f
                    except Unsupported as u:
                        raise AnalysisBroken('xsl:number counting outside the interpreted subset (%s; %s): %s' % (site, desc, u))
                    want = ref_numbers(level, count, frm, nd, nodes)
                    if got == want:
                        r.instances += 1
                        continue
                    # the deviation the code itself documents ("replicate the behavior in XT ... we think this is a bug"): with level=single a from pattern does not cut
                    # the search for the counted ancestor
                    if level == 'single' and frm is not None and got == ref_numbers(level, count, None, nd, nodes):
                        key = 'single-from'
                        reported[key] = reported.get(key, 0) + 1
                        if reported[key] == 1:
                            r.violation('xsl:number level=single: the from pattern does not limit the search for the counted ancestor',
                                        'e.g. %s, %s: the numbers are %s, XSLT 1.0 7.7 requires %s (getMatchingAncestors says so itself: "replicate the same behavior in XT")' %
                                        (site, desc, got, want), common.file_line(fn))
                        else:
                            r.instances += 1
                        continue
                    key = site
                    reported[key] = reported.get(key, 0) + 1
                    if reported[key] == 1:
                        r.violation('xsl:number ' + site, '%s: the numbers are %s, XSLT 1.0 7.7 requires %s' % (desc, got, want), common.file_line(fn))
                    else:
                        r.instances += 1
    return r
