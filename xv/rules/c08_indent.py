"""C08-R4 — indentation never lands next to character data.

"indent may insert new whitespace-only text nodes between tags; it never alters an existing text node": white space written by the
indent helper that is adjacent to character data (text, CDATA, unescaped text) becomes part of that text node when the result is
parsed.  For every indenting FormatterToXMLUnicode instantiation the event handlers that touch the indent helper or the element
stack (startElement, endElement, writeCharacters, writeCDATA, charactersRaw, comment, writeProcessingInstruction, writeParentTagEnd,
and the XalanIndentWriter / element-stack members they call) are interpreted on every well-nested event sequence of bounded length;
everything else they call is checked not to reach the indent helper and is treated as "emits output of the caller's kind".  The
output is abstracted to a token string over M (markup), T (character data), W (indent white space); a W next to a T is a violation,
reported with the event sequence."""
import itertools
from ..build import AnalysisBroken
from ..mast import walk, calls, callee, strip_casts, Machine, Unsupported, pp
from ..facts import short, NS
from . import common
from .c04 import serializer_instantiations, writer_family

STATE_MEMBERS = {'m_indentHandler', 'm_elemStack', 'm_nextIsRaw', 'm_preserves', 'm_ispreserve', 'm_isprevtext', 'm_startNewLine'}
TEXT_FNS = {'writeCharacters', 'writeCDATA', 'charactersRaw'}


def mentions_state(ast, members=None):
    members = members or STATE_MEMBERS
    """a member of the indent / element-stack state is used (other than to ask a container for its memory manager)"""
    harmless = set()
    for x in walk(ast):
        if x.get('k') == 'MCall' and x.get('n') == 'getMemoryManager':
            o = strip_casts(x.get('obj'))
            if isinstance(o, dict) and o.get('k') == 'Member':
                harmless.add(id(o))
    return any(x.get('k') == 'Member' and x.get('m') in members and id(x) not in harmless for x in walk(ast))


class Obj:
    def __init__(self, cls, fields=None):
        self.cls = cls
        self.fields = dict(fields or {})


class World:
    def __init__(self, facts, cls):
        self.facts, self.cls = facts, cls
        self.tokens = []
        self.kind = ['M']
        self.touch_memo = {}
        self.opaque_seen = set()
        self.state_members = STATE_MEMBERS
        self.text_fns = TEXT_FNS
        self.markup_fns = ('writeParentTagEnd', 'startElement', 'endElement', 'comment', 'writeProcessingInstruction', 'endDocument')

    def method(self, cls, name):
        a = self.facts.asts(cls + '::' + name, must=False)
        return a[0] if a else None

    def touches(self, a, depth=0):
        """does the function (transitively, through calls on this) mention the indent / element-stack state"""
        key = a.get('usr') or (a['file'], a['line'])
        if key in self.touch_memo:
            return self.touch_memo[key]
        self.touch_memo[key] = False
        r = mentions_state(a['body'], self.state_members)
        if not r and depth < 6:
            for c in calls(a['body']):
                if c.get('k') in ('MCall', 'Call') and c.get('fn'):
                    o = strip_casts(c.get('obj')) if c.get('k') == 'MCall' else None
                    if o is None or o.get('k') == 'This':
                        for b in (self.facts.asts(c['fn'], must=False) or [])[:1]:
                            if self.touches(b, depth + 1):
                                r = True
                        nm = c.get('n') or callee(c).split('::')[-1]
                        b = self.method(self.cls, nm)
                        if b is not None and self.touches(b, depth + 1):
                            r = True
        self.touch_memo[key] = r
        return r


class ObjMachine(Machine):
    def __init__(self, world, obj, env=None, fname='?'):
        super().__init__(env or {}, call_hook=self.hook)
        self.world, self.obj, self.fname = world, obj, fname
        self.fuel = 4000

    # --- state access
    def ev(self, e):
        k = e['k']
        if k == 'Member':
            o = strip_casts(e.get('obj'))
            if o is None or o.get('k') == 'This':
                if 'cv' in e:
                    return e['cv']
                return self.obj.fields.get(e['m'], 0)
        if k == 'This':
            return self.obj
        if k == 'While' or k == 'For':
            raise Unsupported('loop as expression')
        return super().ev(e)

    def assign(self, t, v):
        if t.get('k') == 'Member' and (strip_casts(t.get('obj')) is None or strip_casts(t['obj']).get('k') == 'This'):
            self.obj.fields[t['m']] = v
            return
        if t.get('k') == 'MCall' and t.get('n') == 'back':
            lst = self.ev(t['obj'])
            if isinstance(lst, list) and lst:
                lst[-1] = v
                return
        super().assign(t, v)

    def exec(self, s):
        # loops that do not touch the indent / element-stack state only produce output of the current kind
        if s['k'] in ('While', 'For', 'Do'):
            if not mentions_state(s, self.world.state_members) and not any(self.callee_touches(c) for c in calls(s)):
                self.emit()
                return
        super().exec(s)

    def callee_touches(self, c):
        if c.get('k') not in ('MCall', 'Call'):
            return False
        o = strip_casts(c.get('obj')) if c.get('k') == 'MCall' else None
        if o is not None and o.get('k') != 'This':
            return o.get('k') == 'Member' and o.get('m') in self.world.state_members
        nm = c.get('n') or callee(c).split('::')[-1]
        b = self.world.method(self.obj.cls, nm) or ((self.world.facts.asts(c['fn'], must=False) or [None])[0] if c.get('fn') else None)
        return b is not None and self.world.touches(b)

    def emit(self):
        w = self.world
        k = w.kind[-1]
        if not w.tokens or w.tokens[-1] != k or k == 'W':
            w.tokens.append(k)

    def run_method(self, obj, a, args, name):
        env = {p['id']: (args[i] if i < len(args) else 0) for i, p in enumerate(a['params'])}
        m = type(self)(self.world, obj, env, name)
        m.fuel = self.fuel
        w = self.world
        pushed = False
        if name in w.text_fns:
            w.kind.append('T'); pushed = True
        elif obj is self.obj and name in w.markup_fns:
            w.kind.append('M'); pushed = True
        try:
            return m.call(a['body'])
        finally:
            if pushed:
                w.kind.pop()

    def hook(self, m, c):
        k = c['k']
        w = self.world
        n = c.get('n') or callee(c).split('::')[-1]
        if k == 'Ctor':
            if len(c.get('args', [])) == 1:
                return self.ev(c['args'][0])
            return 0
        if k == 'OpCall':
            if c['op'] == '()' and c['args']:
                t = strip_casts(c['args'][0])
                if isinstance(t, dict) and t.get('k') == 'Member' and t.get('m') in ('m_newLineWriter', 'm_whiteSpaceWriter'):
                    w.tokens.append('W')
                    return 0
            if c['op'] == '[]':
                return 0
            return NotImplemented
        if k == 'MCall':
            o = strip_casts(c.get('obj'))
            if o is None or o.get('k') == 'This':
                return self.call_on(self.obj, c, n)
            if o.get('k') == 'Member' and (strip_casts(o.get('obj')) is None or strip_casts(o['obj']).get('k') == 'This'):
                val = self.obj.fields.get(o['m'])
                if isinstance(val, Obj):
                    return self.call_on(val, c, n)
                if isinstance(val, list):
                    if n == 'push_back':
                        val.append(self.ev(c['args'][0])); return 0
                    if n == 'back':
                        if not val:
                            raise Unsupported('back() of an empty stack in %s' % self.fname)
                        return val[-1]
                    if n == 'pop_back':
                        if not val:
                            raise Unsupported('pop_back() of an empty stack in %s' % self.fname)
                        val.pop(); return 0
                    if n == 'empty':
                        return int(not val)
                    if n == 'size':
                        return len(val)
                if o['m'] == 'm_writer':
                    self.emit()
                    return 0
                # any other member object (predicates, constants, strings): no influence on the abstraction
                return 0
            # calls on parameters / locals (attribute lists, strings)
            return 0
        if k == 'Call':
            if c.get('fn') and (strip_t_cls(c['fn']) == strip_t_cls(self.obj.cls + '::' + n) or self.world.method(self.obj.cls, n) is not None):
                return self.call_on(self.obj, c, n)
            return 0
        return NotImplemented

    def safe_ev(self, x):
        try:
            return self.ev(x)
        except (Unsupported, TypeError, KeyError, IndexError):
            return 0

    def call_on(self, obj, c, n):
        w = self.world
        a = None
        if c.get('qual') and c.get('fn'):
            # an explicitly qualified call of a base-class member (Base::startElement(..)) binds statically
            cand = w.facts.asts(c['fn'], must=False)
            a = cand[0] if cand else None
        if a is None:
            a = w.method(obj.cls, n)
        if a is None and c.get('fn'):
            cand = w.facts.asts(c['fn'], must=False)
            a = cand[0] if cand else None
        if a is None:
            # pure virtual in the base / no body: treat as output of the current kind
            self.emit()
            return 0
        if obj is self.obj and not w.touches(a):
            # does not reach the indent helper / element stack: interpret it if possible (it may write nothing, e.g. the
            # DOCTYPE for any element but the first), otherwise count it as output of the current kind
            snap = list(w.tokens)
            try:
                return self.run_method(obj, a, [self.safe_ev(x) for x in c.get('args', [])], n)
            except (Unsupported, TypeError, KeyError, IndexError):
                w.tokens[:] = snap
                w.opaque_seen.add(n)
                self.emit()
                return 0
        return self.run_method(obj, a, [self.safe_ev(x) for x in c.get('args', [])], n)


def is_opaque_arg(x):
    t = (strip_casts(x) or {}).get('ty') or ''
    return False


def strip_t_cls(n):
    out = ''; d = 0
    for ch in n:
        if ch == '<':
            d += 1
        elif ch == '>':
            d -= 1
        elif d == 0:
            out += ch
    return out.replace(NS, '')


EVENTS = {
    'S': ('startElement', 'M'),
    'E': ('endElement', 'M'),
    'T': ('writeCharacters', 'T'),
    'D': ('writeCDATA', 'T'),
    'R': ('charactersRaw', 'T'),
    'C': ('comment', 'M'),
    'P': ('writeProcessingInstruction', 'M'),
}
NAMES = {'S': '<e>', 'E': '</e>', 'T': 'text', 'D': 'CDATA', 'R': 'raw-text', 'C': 'comment', 'P': 'PI'}


def sequences(maxlen, maxdepth):
    """well-nested event strings: a root element containing up to maxlen events"""
    out = []

    def go(seq, depth):
        if len(seq) > maxlen:
            return
        if depth == 0 and seq:
            out.append(seq)
            return
        for e in 'STDRCPE':
            if e == 'S':
                if depth < maxdepth:
                    go(seq + 'S', depth + 1)
            elif e == 'E':
                if depth > 0:
                    go(seq + 'E', depth - 1)
            else:
                if depth > 0:
                    go(seq + e, depth)
    go('S', 1)
    return [s for s in out if len(s) <= maxlen]


def run(res, facts, tier):
    r = res.rule('C08-R4', 'indenting serializers (FormatterToXMLUnicode<.., XalanIndentWriter, ..>): the event handlers interpreted over every well-nested sequence of '
                 'start / end / text / CDATA / unescaped text / comment / PI events up to a bound; white space written by the indent helper is never adjacent to character data '
                 '(it would become part of that text node)', floor=1000)
    insts = [(n, ta) for n, ta in serializer_instantiations(facts) if ta[3].startswith('XalanIndentWriter')]
    if len(insts) < 6:
        raise AnalysisBroken('only %d indenting FormatterToXMLUnicode instantiations' % len(insts))
    seqs = sequences(7 if tier == 'thorough' else 6, 3)
    fams = {}
    for n, ta in insts:
        fams.setdefault(writer_family(ta[0]), (n, ta))      # one instantiation per writer family; C04-R4 / C08-R1 tie the others to these
    analysed = 0
    for fam, (cls, ta) in sorted(fams.items()):
        ih_cls = None
        for kname, kk in facts.K.items():
            if kk.get('tmpl') == 'xalanc_1_12::XalanIndentWriter' and kname.replace(NS, '') == ta[3]:
                ih_cls = kname
        if ih_cls is None:
            cands = [kname for kname, kk in facts.K.items() if kk.get('tmpl') == 'xalanc_1_12::XalanIndentWriter' and writer_family(kk['targs'][0].replace(NS, '').split('<', 1)[-1]) == fam]
            ih_cls = cands[0] if cands else None
        if ih_cls is None:
            raise AnalysisBroken('no XalanIndentWriter instantiation found for %s' % cls)
        world = World(facts, cls)
        for need in ('startElement', 'endElement', 'writeCharacters', 'writeCDATA', 'charactersRaw', 'comment', 'writeProcessingInstruction', 'writeParentTagEnd'):
            if world.method(cls, need) is None:
                raise AnalysisBroken('%s::%s has no body in the parsed program' % (short(cls), need))
        bad = {}
        for seq in seqs:
            ih = Obj(ih_cls, {'m_indent': 2, 'm_currentIndent': 0, 'm_startNewLine': 0, 'm_ispreserve': 0, 'm_isprevtext': 0, 'm_preserves': []})
            ser = Obj(cls, {'m_indentHandler': ih, 'm_elemStack': [], 'm_nextIsRaw': 0, 'm_needToOutputDoctypeDecl': 0, 'm_spaceBeforeClose': 0})
            world.tokens = []
            world.kind = ['M']
            marks = []
            try:
                for ev in seq:
                    name, kind = EVENTS[ev]
                    a = world.method(cls, name)
                    m = ObjMachine(world, ser, {}, name)
                    start = len(world.tokens)
                    m.run_method(ser, a, ['x', 1] if kind == 'T' else ['x', 'y'], name)
                    marks.append((ev, start))
            except Unsupported as u:
                raise AnalysisBroken('%s handlers outside the interpreted subset on %s: %s' % (short(cls)[:60], seq, u))
            toks = world.tokens
            analysed += 1
            hit = None
            for i in range(len(toks) - 1):
                if {toks[i], toks[i + 1]} == {'W', 'T'}:
                    hit = i
                    break
            if hit is None:
                r.ok('%s %s' % (fam, seq), ''.join(toks))
            else:
                # attribute to the event during which the adjacency was completed
                evi = max(j for j, (e, st) in enumerate(marks) if st <= hit + 1)
                pair = (seq[evi - 1] if evi else '', seq[evi]) if toks[hit + 1] == 'W' or True else None
                key = (NAMES.get(seq[evi - 1], '') if evi else 'start', NAMES[seq[evi]])
                if key not in bad:
                    bad[key] = (seq, ''.join(toks))
                r.instances += 1
        for (prev, cur), (seq, toks) in sorted(bad.items()):
            r.instances -= 1
            r.violation('%s serializer, indenting: %s followed by %s' % (fam, prev, cur),
                        'indent white space is written next to character data (events %s -> output %s; M markup, T character data, W indentation): the white space becomes part of the text node'
                        % (' '.join(NAMES[e] for e in seq), toks), common.file_line(world.method(cls, EVENTS[[k for k, v in NAMES.items() if v == cur][0]][0])))
        r.note('%s: opaque (do not reach the indent helper or the element stack): %s' % (fam, sorted(world.opaque_seen)))
    res.assume('C08-R4 abstracts output to markup / character data / indentation; entityReference (never produced by a transformation) and document-level white space are outside the rule')
    return r
