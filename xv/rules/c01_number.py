"""C01-R9 — xsl:number: number to string conversion (XSLT 1.0 7.7.1) by interpretation.

ElemNumber::formatNumberList with its NumberFormatStringTokenizer (countTokens, nextToken), getFormattedNumber, int2alphaCount (with s_alphaCountTable) and toRoman (with
s_romanConvertTable) are interpreted from the parsed program on lists of one to four numbers and format strings made of the tokens 1, 01, 001, a, A, i, I and punctuation.
Strings are mutable vectors of code units (what XalanDOMString is); the decimal formatter behind format token "1" is a model (plain decimal digits, no grouping: the
grouping attributes are absent), as is the evaluation of the format attribute value template (it yields the format string).
The string produced must be the one XSLT 1.0 7.7.1 defines: the format string is split into alphanumeric format tokens and separators; a leading / trailing
non-alphanumeric token is prefix / suffix; the n-th number takes the n-th format token (the last one when there are no more) and is preceded by the separator that
precedes that token ('.' when the format has none, the last separator when there are no more); "1" -> decimal, "01" / "001" -> zero-padded to that width, "A" / "a" ->
A..Z, AA, AB ..., "I" / "i" -> roman numerals.  int2alphaCount and toRoman are also run on their own over 1..1500 / 0..4000 and the carry boundaries (26, 27, 52, 53,
702, 703, 18278, 18279)."""
import itertools
from ..build import AnalysisBroken
from ..mast import Unsupported, callee, strip_casts, pp
from ..facts import NS
from ..omach import OMachine, Obj, Vec, It, Fault
from . import common


class Str(Vec):
    """XalanDOMString: a mutable vector of UTF-16 code units"""
    def __init__(self, s=''):
        super().__init__([ord(c) for c in s] if isinstance(s, str) else list(s), 'str')

    def text(self):
        return ''.join(chr(x) if isinstance(x, int) else '?' for x in self.items)

    def __repr__(self):
        return 'Str(%r)' % self.text()


class Reject(Exception):
    pass


def units(v):
    """code units of whatever C++ lets one append to a string"""
    if isinstance(v, Str):
        return list(v.items)
    if isinstance(v, str):
        return [ord(c) for c in v]
    if isinstance(v, int):
        return [v]
    if isinstance(v, (list, tuple)):
        out = []
        for x in v:
            if not isinstance(x, int) or x == 0:
                break
            out.append(x)
        return out
    if isinstance(v, It):
        out = []
        for x in v.vec.items[v.i:]:
            if not isinstance(x, int) or x == 0:
                break
            out.append(x)
        return out
    raise Unsupported('characters of %r' % (v,))


class NWorld:
    construct_objects = True

    def __init__(self, facts):
        self.facts = facts
        self.depth = 0
        self.calls = 0
        self.max_calls = 8000
        self._tables = {}
        self.format = ''
        flds = (facts.K.get(NS + 'DecimalToRoman') or {}).get('fields', [])
        self.roman_fields = [f['n'] for f in flds]
        if len(self.roman_fields) != 4:
            raise AnalysisBroken('DecimalToRoman: %d fields (4 expected)' % len(self.roman_fields))

    def tables(self, q):
        if q not in self._tables:
            t = self.facts.table(q, must=False)
            self._tables[q] = None if t is None else self.facts.resolve(t['val'])
        return self._tables[q]

    def glob(self, name):
        t = self.tables(name)
        if t is None:
            t = self.tables(NS + name) if not name.startswith(NS) else None
        if t is not None:
            return t
        return ('GLOBAL', name.split('::')[-1])

    def allow(self, body, c):
        return body['file'].endswith(('XSLT/ElemNumber.cpp', 'XSLT/ElemNumber.hpp'))

    def destructor(self, o):
        return None

    def member(self, m, tgt, e):
        if isinstance(tgt, (list, tuple)) and e['m'] in self.roman_fields and len(tgt) == len(self.roman_fields):
            return tgt[self.roman_fields.index(e['m'])]
        return NotImplemented

    def hook(self, m, c):
        k = c['k']
        n = c.get('n') or callee(c).split('::')[-1]
        cls = c.get('cls') or ''
        if k == 'Ctor':
            if 'GetCachedString' in cls:
                return Obj('guard', {'s': Str()})
            if 'XalanNumberFormatAutoPtr' in cls or 'XalanMemMgrAutoPtr' in cls:
                return 'FMT'
            if cls.split('<')[0].endswith('XalanVector'):
                return Vec([])
            if cls.endswith('XalanDOMString'):
                a = [m.ev(x) for x in c.get('args', [])]
                return Str(units(a[0])) if a and not isinstance(a[0], str) or (a and isinstance(a[0], str) and a[0] != 'MM') else Str()
            return NotImplemented
        if k == 'MCall':
            tgt = m.target_obj(c)
            a = c.get('args', [])
            if isinstance(tgt, Obj) and tgt.cls == 'guard' and n == 'get':
                return tgt.fields['s']
            if tgt == 'ECTX':
                if n == 'getMemoryManager':
                    return 'MM'
                raise Unsupported('execution context method ' + n)
            if isinstance(tgt, Obj) and tgt.cls == 'avt' and n == 'evaluate':
                out = m.ev(a[0])
                out.items[:] = [ord(ch) for ch in self.format]
                return 0
            if tgt == 'FMT' and n == 'format':
                v, out = m.ev(a[0]), m.ev(a[1])
                out.items[:] = [ord(ch) for ch in str(int(v))]
                return out
            if n == 'getNumberFormatter':
                return 'FMT'
            if n == 'error' and cls.endswith(('ElemNumber', 'ElemTemplateElement')):
                raise Reject('error')
            if n == 'evaluateLetterValueAVT':
                raise Unsupported('letter-value is outside this rule')
            if isinstance(tgt, Str):
                if n in ('length', 'size'):
                    return len(tgt.items)
                if n == 'empty':
                    return int(not tgt.items)
                if n == 'clear':
                    tgt.items[:] = []; return 0
                if n == 'reserve':
                    return 0
                if n in ('c_str', 'data', 'begin'):
                    return It(tgt, 0)
                if n == 'end':
                    return It(tgt, len(tgt.items))
                if n == 'assign':
                    v = [m.ev(x) for x in a]
                    if len(v) == 2 and isinstance(v[0], int) and isinstance(v[1], int):
                        tgt.items[:] = [v[1]] * v[0]          # assign(count, char)
                    elif len(v) == 2:
                        tgt.items[:] = (units(v[0]) if not isinstance(v[0], It) else list(v[0].vec.items[v[0].i:v[0].i + int(v[1])]))[:int(v[1])]
                        if any(not isinstance(x, int) for x in tgt.items):
                            raise Fault('assign() copies %r: elements of the buffer that were never written' % (tgt.items,))
                    elif len(v) == 1:
                        tgt.items[:] = units(v[0])
                    else:
                        raise Unsupported('string assign/%d' % len(v))
                    return tgt
                if n == 'append':
                    v = [m.ev(x) for x in a]
                    if len(v) == 2 and isinstance(v[0], int) and isinstance(v[1], int):
                        tgt.items.extend([v[1]] * v[0])
                    else:
                        tgt.items.extend(units(v[0]))
                    return tgt
                if n == 'insert':
                    v = [m.ev(x) for x in a]
                    if len(v) == 2 and isinstance(v[0], int):
                        if not (0 <= v[0] <= len(tgt.items)):
                            raise Fault('insert at %d of a string of %d' % (v[0], len(tgt.items)))
                        tgt.items[v[0]:v[0]] = units(v[1])
                        return tgt
                    raise Unsupported('string insert %r' % (v,))
                if n == 'push_back':
                    tgt.items.append(m.ev(a[0])); return 0
                if n == 'back':
                    if not tgt.items:
                        raise Fault('back() of an empty string')
                    return tgt.items[-1]
                raise Unsupported('string method ' + n)
            if isinstance(tgt, Vec) and n == 'resize' and 'XalanDOMString' in cls and len(a) == 1:
                sz = int(m.ev(a[0]))
                while len(tgt.items) < sz:
                    tgt.items.append(Str())
                del tgt.items[sz:]
                return 0
        if k == 'OpCall':
            op = c['op']
            a = c['args']
            if op in ('*', '->') and len(a) == 1:
                v = m.ev(a[0])
                if v == 'FMT':
                    return 'FMT'
                return NotImplemented if isinstance(v, It) else v
            if op == '[]' and len(a) == 2:
                v = m.ev(a[0])
                if isinstance(v, Str):
                    i = int(m.ev(a[1]))
                    if i == len(v.items):
                        return 0            # the terminating null
                    if not (0 <= i < len(v.items)):
                        raise Fault('character %d of a string of %d' % (i, len(v.items)))
                    return v.items[i]
                return m.deref(It(v, int(m.ev(a[1])))) if isinstance(v, Vec) else NotImplemented
            if op == '+=' and len(a) == 2:
                t = m.ev(a[0])
                if isinstance(t, Str):
                    t.items.extend(units(m.ev(a[1])))
                    return t
            if op == '=' and len(a) == 2:
                t = m.ev_arg(a[0])
                if isinstance(t, Str):
                    t.items[:] = units(m.ev(a[1]))
                    return t
        if k == 'Call':
            a = c.get('args', [])
            if n == 'isXMLLetterOrDigit':
                ch = m.ev(a[0])
                if not isinstance(ch, int) or ch > 127:
                    raise Unsupported('isXMLLetterOrDigit(%r): only ASCII formats are modelled' % (ch,))
                return int(chr(ch).isalnum())
            if n == 'substring' and len(a) == 4:
                src, dst, st, en = (m.ev(x) for x in a)
                if not (0 <= st <= en <= len(src.items)):
                    raise Fault('substring(%d, %d) of a string of %d' % (st, en, len(src.items)))
                dst.items[:] = src.items[int(st):int(en)]
                return dst
            if n == 'toLowerCaseASCII' and len(a) == 1:
                s = m.ev(a[0])
                s.items[:] = [x + 32 if 65 <= x <= 90 else x for x in s.items]
                return s
            if n == 'memset' and len(a) == 3:
                buf, val, cnt = m.ev(a[0]), m.ev(a[1]), m.ev(a[2])
                if isinstance(buf, Vec):
                    per = 2
                    k2 = int(cnt) // per
                    if k2 > len(buf.items):
                        raise Fault('memset of %d elements over a buffer of %d' % (k2, len(buf.items)))
                    for i in range(k2):
                        buf.items[i] = int(val)
                    return buf
            if n == 'equals' and len(a) == 2:
                x, y = m.ev(a[0]), m.ev(a[1])
                return int(units(x) == units(y))
            if n == 'NumberToHexDOMString':
                return Str('?')
        return NotImplemented


# ------------------------------------------------------------------------------------------------------------------ XSLT 1.0 7.7.1
def ref_alpha(n):
    out = ''
    while n > 0:
        n, r = divmod(n - 1, 26)
        out = chr(65 + r) + out
    return out


def ref_roman(n):
    if n == 0:
        return '0'
    if n > 3999:
        return '#error'
    out = ''
    for v, s in ((1000, 'M'), (900, 'CM'), (500, 'D'), (400, 'CD'), (100, 'C'), (90, 'XC'), (50, 'L'), (40, 'XL'), (10, 'X'), (9, 'IX'), (5, 'V'), (4, 'IV'), (1, 'I')):
        while n >= v:
            out += s; n -= v
    return out


def ref_one(tok, n):
    t = tok[-1]
    if t == 'A':
        return ref_alpha(n)
    if t == 'a':
        return ref_alpha(n).lower()
    if t == 'I':
        return ref_roman(n)
    if t == 'i':
        return ref_roman(n).lower()
    return str(n).rjust(len(tok), '0')


def ref_format(fmt, nums):
    if fmt == '':
        fmt = '1'
    toks = []
    for ch in fmt:
        if toks and toks[-1][0].isalnum() == ch.isalnum():
            toks[-1] += ch
        else:
            toks.append(ch)
    prefix = suffix = ''
    if toks and not toks[0][0].isalnum():
        prefix = toks.pop(0)
    if toks and not toks[-1][0].isalnum():
        suffix = toks.pop()
    fts = [t for t in toks if t[0].isalnum()]
    seps = [t for t in toks if not t[0].isalnum()]
    out = prefix
    ft, sep = '1', '.'
    for i, n in enumerate(nums):
        if i < len(fts):
            ft = fts[i]
        if i > 0:
            if i - 1 < len(seps):
                sep = seps[i - 1]
            out += sep
        out += ref_one(ft, n)
    return out + suffix


FORMATS = ['1', '', '01', '001', 'a', 'A', 'i', 'I', '1.', '1.1', '1.a', '(1)', '1-1', 'A.1.i', '[1] ', '1. ', ' 1', '#1#a#', 'a)', '1.1.', '(a)-(i)', '1.01.001', 'I-a', '1:A:i:1', '1,', '-1']
LISTS = [[1], [2, 3], [4, 5, 6], [27, 28], [3999], [10, 26, 52, 703], [9, 99, 100, 1], [14], [40, 90, 400], [702], [18278, 2]]


def run_rule(res, facts, tier):
    r = res.rule('C01-R9', 'xsl:number, number to string: formatNumberList with its format tokenizer, getFormattedNumber, int2alphaCount and toRoman interpreted on lists of one to '
                 'four numbers x format strings over the tokens 1, 01, 001, a, A, i, I and punctuation, and the two letter conversions on their own over 1..1500 / 0..4000 and '
                 'the carry boundaries: the string is the one XSLT 1.0 7.7.1 defines (prefix, suffix, n-th token and separator, last ones repeated, zero padding)', floor=2500)
    w = NWorld(facts)

    def one(name, nparams=None):
        c = [a for a in facts.asts(name, must=False) if a.get('body') is not None and (nparams is None or len(a['params']) == nparams)]
        if len(c) != 1:
            raise AnalysisBroken('%s: %d bodies' % (name, len(c)))
        return c[0]
    fnl = one('ElemNumber::formatNumberList')
    i2a = one('ElemNumber::int2alphaCount')
    rom = one('ElemNumber::toRoman')
    table = w.tables(NS + 'ElemNumber::s_alphaCountTable')
    tsize = w.tables(NS + 'ElemNumber::s_alphaCountTableSize')
    if table is None or tsize is None:
        raise AnalysisBroken('ElemNumber::s_alphaCountTable / s_alphaCountTableSize not found')
    reported = {}

    def report(kind, site, what, loc):
        reported[kind] = reported.get(kind, 0) + 1
        if reported[kind] <= 2:
            r.violation(site, what, loc)
        else:
            r.instances += 1

    def run(fn, args, this, site):
        w.calls = 0
        try:
            m = OMachine(w, {}, this)
            m.fuel = 60000
            m.run_body(fn, args, this)
            return None
        except Fault as f:
            return 'FAULT: %s' % f
        except Reject:
            return 'ERROR'
        except Unsupported as u:
            raise AnalysisBroken('%s outside the interpreted subset on %s: %s' % (fn.get('fq', '?').split('::')[-1], site, u))
    # the two letter conversions on their own
    deep = tier == 'thorough'
    vals = list(range(1, 3000 if deep else 1500)) + [18277, 18278, 18279, 18280, 475254, 475255]
    for v in vals:
        out = Str()
        err = run(i2a, [v, table, int(tsize if not isinstance(tsize, list) else tsize[0]), out], None, 'int2alphaCount(%d)' % v)
        got = err or out.text()
        if got == ref_alpha(v):
            r.instances += 1
        else:
            report('alpha', 'format token A, number %d' % v, 'int2alphaCount yields %r, XSLT 1.0 7.7.1 requires %r' % (got, ref_alpha(v)), common.file_line(i2a))
    for v in range(0, 4002):
        out = Str('junk')
        err = run(rom, [v, 1, out], None, 'toRoman(%d)' % v)
        got = err or out.text()
        if got == ref_roman(v):
            r.instances += 1
        else:
            report('roman', 'format token I, number %d' % v, 'toRoman yields %r, required %r' % (got, ref_roman(v)), common.file_line(rom))
    # whole lists
    this = Obj(NS + 'ElemNumber', {'m_format_avt': Obj('avt', {})})
    fmts = FORMATS if deep else FORMATS
    for fmt in fmts:
        for lst in LISTS:
            w.format = fmt
            out = Str()
            site = 'format="%s", numbers %s' % (fmt, lst)
            err = run(fnl, ['ECTX', Vec(list(lst)), len(lst), out], this, site)
            got = err or out.text()
            want = ref_format(fmt, lst)
            if got == want:
                r.instances += 1
            else:
                report('list', 'xsl:number ' + site, 'formatNumberList yields %r, XSLT 1.0 7.7.1 requires %r' % (got, want), common.file_line(fnl))
    return r


PUNCT_FORMATS = ['.', '--', ' ', ':', '*', '-' * 40, '.-', '()', '. ']


def run_c03_rule(res, facts, tier):
    """C03-R16: a format made of punctuation only (one non-alphanumeric token that is first and last at once) is where the token walk of formatNumberList has no
    alphanumeric token to stop at.  The function is interpreted on such formats: it must not read outside its token vector or its buffers (the vector model faults on any
    index or iterator outside its bounds), and what it builds is the numbers in the default format with the token before and / or after them (7.7.1 leaves open which when the
    token is both the first and the last one)."""
    r = res.rule('C03-R16', 'xsl:number with a format of punctuation only: formatNumberList interpreted on one-token non-alphanumeric formats (also 40 characters long) x lists of one '
                 'to four numbers: no read outside the token vector or the buffers, and the result is the numbers in the default format with the token as prefix and / or suffix', floor=40)
    w = NWorld(facts)
    c = [a for a in facts.asts('ElemNumber::formatNumberList', must=False) if a.get('body') is not None]
    if len(c) != 1:
        raise AnalysisBroken('ElemNumber::formatNumberList: %d bodies' % len(c))
    fnl = c[0]
    this = Obj(NS + 'ElemNumber', {'m_format_avt': Obj('avt', {})})
    for fmt in PUNCT_FORMATS:
        for lst in LISTS[:6]:
            w.format = fmt
            w.calls = 0
            out = Str()
            site = 'format="%s", numbers %s' % (fmt if len(fmt) < 10 else fmt[:3] + '... (%d characters)' % len(fmt), lst)
            try:
                m = OMachine(w, {}, this)
                m.fuel = 60000
                m.run_body(fnl, ['ECTX', Vec(list(lst)), len(lst), out], this)
                got = out.text()
            except Fault as f:
                r.violation('xsl:number, format of punctuation only: read outside a vector', '%s: %s' % (site, f), common.file_line(fnl)); continue
            except Reject:
                r.ok(site, 'an error is reported'); continue
            except Unsupported as u:
                raise AnalysisBroken('formatNumberList outside the interpreted subset on %s: %s' % (site, u))
            body = '.'.join(str(x) for x in lst)
            if got in (fmt + body, body + fmt, fmt + body + fmt, body):
                r.ok(site, got if len(got) < 40 else got[:20] + '...')
            else:
                r.violation('xsl:number, format of punctuation only: result', '%s: formatNumberList yields %r; expected the numbers %r with the token before and / or after' % (site, got, body),
                            common.file_line(fnl))
    return r
