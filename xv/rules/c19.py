"""C19 — pluggable memory manager: allocation in no-throw contexts, allocate-construct-release pairing, same manager on
both sides, no global heap for managed objects, initialisation rollback (DESIGN.md §3)."""
import collections, json, os, re
from ..build import AnalysisBroken, VERIF
from ..mast import walk, calls, callee, strip_casts, pp, CFG
from ..facts import short, NS
from . import common
from .c03 import fn_candidates, cfg_node_of


def strip_targs(n):
    out = ''; d = 0
    for ch in n:
        if ch == '<':
            d += 1
        elif ch == '>':
            d -= 1
        elif d == 0:
            out += ch
    return out


# ----------------------------------------------------------------------------------------------- R1
def swallowed(c):
    """is the call site inside a try block with a catch(...) that does not rethrow"""
    for hs in c.get('h', []):
        for h in hs:
            if h == '...':
                return True
    return False


# call edges on which allocation cannot happen although the callee may allocate elsewhere (path-insensitive false paths), one reason each
FALSE_EDGES_FILE = os.path.join(VERIF, 'spec', 'c19_r1_false_paths.json')


def allocation_sites(facts):
    out = []
    newsites = {(n['from'], n['loc']) for n in facts.D['NEW'] if n['placement'] == 0}
    for c in facts.calls:
        tn = c.get('toName', '')
        if tn.endswith('MemoryManager::allocate') or tn == 'xercesc_3_2::XMemory::operator new':
            out.append(c)
        elif c['how'] == 'opnew' and (c['from'], c['loc']) in newsites:
            out.append(c)
    if len(out) < 200:
        raise AnalysisBroken('only %d allocation call sites found (floor 200)' % len(out))
    return out


def r1_noexcept(res, facts):
    r = res.rule('C19-R1', 'no destructor of the library reaches MemoryManager::allocate / operator new outside a swallowing catch(...): '
                 'an allocation failure there ends in std::terminate.  Reported per (destructor, allocating callee) pair; allocation reached only through other destructors is reported at those', floor=1000)
    cg = facts.cg
    false_edges = {}
    if os.path.exists(FALSE_EDGES_FILE):
        for e in json.load(open(FALSE_EDGES_FILE))['edges']:
            false_edges[(e['from'], e['to'])] = e['reason']

    def fname(k):
        return strip_targs(short(facts.name.get(k, '?')))
    alloc = allocation_sites(facts)
    radj = collections.defaultdict(list)
    used_false = collections.Counter()
    for fr, to, c in cg.edges:
        key = (fname(fr), fname(to))
        if key in false_edges:
            used_false[key] += 1
            continue
        radj[to].append((fr, c))
    isd = lambda k: facts.F.get(k, {}).get('kind') == 'dtor'
    # A: non-destructor functions that can reach an allocation without a swallowing handler and without going through a destructor
    # (what a destructor reaches only through the destructors of its members/elements is reported at those destructors)
    A = set(); why = {}; work = []
    for c in alloc:
        if not swallowed(c) and c['from'] not in A and not isd(c['from']):
            A.add(c['from']); why[c['from']] = ('alloc', c['loc']); work.append(c['from'])
    while work:
        g = work.pop()
        for fr, c in radj.get(g, ()):
            if fr in A or swallowed(c) or isd(fr):
                continue
            A.add(fr); why[fr] = ('call', g, c['loc']); work.append(fr)
    dtors = [k for k, v in facts.F.items() if v.get('kind') == 'dtor' and v.get('repo') and facts.lib_path(v['loc'])]
    if len(dtors) < 1000:
        raise AnalysisBroken('only %d destructors found (floor 1000)' % len(dtors))
    dset = set(dtors)
    pairs = collections.OrderedDict()
    dirty = set()
    for fr, to, c in cg.edges:
        if fr in dset and to in A and not swallowed(c):
            if (fname(fr), fname(to)) in false_edges:
                continue
            key = (fname(fr), fname(to))
            dirty.add(fr)
            if key in pairs:
                pairs[key]['n'] += 1
                continue
            chain = [fname(fr)]
            x = to
            for _ in range(25):
                ww = why[x]
                chain.append(fname(x))
                if ww[0] == 'alloc':
                    chain.append('allocates at ' + ww[1].replace('/repo/', ''))
                    break
                x = ww[1]
            pairs[key] = {'n': 1, 'chain': chain, 'loc': c['loc'].replace('/repo/', '')}
    for c in alloc:
        if c['from'] in dset and not swallowed(c):
            key = (fname(c['from']), 'direct allocation')
            dirty.add(c['from'])
            pairs.setdefault(key, {'n': 0, 'chain': [fname(c['from']), 'allocates at ' + c['loc'].replace('/repo/', '')], 'loc': c['loc'].replace('/repo/', '')})['n'] += 1
    clean = len(dtors) - len(dirty)
    for (d, first), info in sorted(pairs.items()):
        r.violation('%s -> %s' % (d, first), 'destructor calls a function that can allocate, with no swallowing handler on the way (%d instantiations): an allocation failure here ends in std::terminate' % info['n'],
                    info['loc'], chain=info['chain'])
    r.instances += clean
    r.note('%d destructors, %d cannot reach an allocation; %d allocation call sites; false-path edges used: %s' %
           (len(dtors), clean, len(alloc), ['%s -> %s x%d' % (a, b, n) for (a, b), n in used_false.items()]))
    for (a, b), why_ in false_edges.items():
        res.assume('C19-R1 edge %s -> %s not followed: %s' % (a, b, why_))
    return r


# ----------------------------------------------------------------------------------------------- R2
STORAGE_HELD_BY_CALLER = {
    'ConstructWithNoMemoryManager::construct': 'container element trait: the container owns the raw storage and destroys what it constructed',
    'ConstructWithMemoryManager::construct': 'container element trait: the container owns the raw storage and destroys what it constructed',
    'ReusableArenaBlock::destroyObject': 'writes the free-list link into a block slot the arena owns',
    'ReusableArenaBlock::ReusableArenaBlock': 'writes free-list links into the freshly allocated block',
    'XalanList::constructNode': 'constructs link fields inside a node XalanList::allocate just returned; freed by the list on failure',
}
XERCES_PLACEMENT = re.compile(r'^&?the(Memory)?Manager$')


def r2_pairing(res, facts):
    r = res.rule('C19-R2', 'every placement new constructs into storage whose release is guaranteed if the constructor throws: an allocation guard released after the '
                 'constructor, an arena block (commit protocol, C03-R6), Xerces\' manager-aware operator new, or a container trait', floor=100)
    seen = set()
    for a in fn_candidates(facts, '"k":"New"'):
        if common.is_fixture(a) or not facts.lib_path(a['file']):
            continue
        nm = strip_targs(short(a['name']))
        news = [x for x in walk(a['body']) if x['k'] == 'New' and x.get('place')]
        if not news:
            continue
        cfg = None
        for x in news:
            p = strip_casts(x['place'][0])
            key = (nm, pp(p))
            if key in seen:
                continue
            seen.add(key)
            site = '%s: new(%s) %s' % (nm, pp(p), short(x['ty'])[:60])
            loc = common.file_line(a, x)
            if x.get('opnew', '').endswith('XMemory::operator new') or (x.get('opnew') == 'operator new' and XERCES_PLACEMENT.match(pp(p)) and 'MemoryManager' in (p.get('ty') or strip_casts(p.get('e') or {}).get('ty', '') or '')):
                r.ok(site, 'manager-aware operator new (the runtime releases the storage if the constructor throws)')
                continue
            if p.get('k') == 'MCall' and p.get('n') == 'get':
                g = strip_casts(p['obj'])
                gid = g.get('id') if g and g.get('k') == 'Ref' else None
                if gid is None:
                    r.violation(site, 'placement address comes from get() of something that is not a local guard', loc); continue
                if cfg is None:
                    cfg = CFG(a)
                nnew = cfg_node_of(cfg, x)

                def releases(n, gid=gid):
                    if n.ast is None:
                        return False
                    for c in calls(n.ast):
                        if c.get('n') in ('release', 'releasePtr') and strip_casts(c.get('obj') or {}).get('id') == gid:
                            return True
                    return False
                reach = cfg.reachable_avoiding([nnew], releases)
                if cfg.exit.id in reach:
                    r.violation(site, 'a normal path leaves the function without releasing the guard: the object just constructed is deallocated behind the caller\'s back', loc)
                else:
                    r.ok(site, 'guard released after construction on every normal path')
                continue
            if p.get('k') == 'Ref' and p.get('d') == 'local':
                init = None
                for y in walk(a['body']):
                    if y['k'] == 'Decl':
                        for v in y['vars']:
                            if v['id'] == p['id']:
                                init = v.get('init')
                if init is not None and any(c.get('n') == 'allocateBlock' for c in calls(init)):
                    r.ok(site, 'arena block (commit protocol checked by C03-R6)')
                    continue
                if 'MemoryManager' in (p.get('ty') or ''):
                    r.ok(site, 'manager-aware operator new')
                    continue
            if nm in STORAGE_HELD_BY_CALLER:
                r.ok(site, STORAGE_HELD_BY_CALLER[nm])
                continue
            r.violation(site, 'placement new into storage that no guard, arena or container owns at this point', loc)
    return r


# ----------------------------------------------------------------------------------------------- R3
def manager_expr(e):
    e = strip_casts(e)
    if e is None:
        return None
    return pp(e)


def r3_same_manager(res, facts):
    r = res.rule('C19-R3', 'storage goes back to the manager it came from: within a class allocate and deallocate use the same manager expression; '
                 'a function that both creates and guards/destroys an object passes the same manager to both', floor=10)
    # per class: receiver expressions of allocate / deallocate
    per_class = collections.defaultdict(lambda: {'allocate': set(), 'deallocate': set(), 'locs': []})
    for a in fn_candidates(facts, '"n":"allocate"'):
        pass
    cands = {}
    for needle in ('"n":"allocate"', '"n":"deallocate"'):
        for a in fn_candidates(facts, needle):
            cands[a['usr']] = a
    for a in cands.values():
        if common.is_fixture(a) or not a.get('cls'):
            continue
        if any('MemoryManager' in p['ty'] for p in a['params']):
            continue   # static create(manager, ...) helpers and constructors receive the manager; members use the stored one
        cls = strip_targs(short(a['cls']))
        for c in calls(a['body']):
            if c['k'] == 'MCall' and c.get('n') in ('allocate', 'deallocate') and 'MemoryManager' in (c.get('cls') or ''):
                per_class[cls][c['n']].add(manager_expr(c['obj']))
                per_class[cls]['locs'].append(common.file_line(a, c))
    for cls, d in sorted(per_class.items()):
        if not d['allocate'] or not d['deallocate']:
            continue
        al = {x.replace('*', '').replace('this->', '') for x in d['allocate']}
        de = {x.replace('*', '').replace('this->', '') for x in d['deallocate']}
        site = 'class %s' % cls
        if al == de or (len(al) == 1 and al <= de) or (len(de) == 1 and de <= al):
            r.ok(site, 'allocate and deallocate through %s' % sorted(al))
        else:
            r.violation(site, 'allocates through %s but deallocates through %s' % (sorted(al), sorted(de)), d['locs'][0])
    # function level: create/construct with manager M and guard/destroy with manager M'
    CREATE = {'XalanConstruct', 'XalanCopyConstruct', 'create', 'clone'}
    DESTROY = {'XalanDestroy', 'XalanMemMgrAutoPtr', 'XalanAllocationGuard', 'XalanMemMgrAutoPtrArray'}
    cands = {}
    for needle in ('XalanAllocationGuard', 'XalanMemMgrAutoPtr<', '"n":"XalanDestroy"'):
        for a in fn_candidates(facts, needle):
            cands[a['usr']] = a
    n = 0
    for a in cands.values():
        if common.is_fixture(a):
            continue
        mgr_create = set(); mgr_guard = set()
        for c in calls(a['body']):
            nm = c.get('n') or (short(c.get('cls', '')).split('<')[0] if c['k'] == 'Ctor' else '')
            if c['k'] == 'MCall' and nm == 'allocate' and 'MemoryManager' in (c.get('cls') or ''):
                mgr_create.add(pp(strip_casts(c['obj'])))
                continue
            args = c.get('args', [])
            if not args:
                continue
            m0 = strip_casts(args[0])
            if m0 is None or 'MemoryManager' not in (m0.get('ty') or ''):
                continue
            if c['k'] in ('Call', 'MCall') and nm in CREATE:
                mgr_create.add(pp(m0))
            if (c['k'] == 'Ctor' and nm in DESTROY) or (c['k'] == 'Call' and nm == 'XalanDestroy'):
                mgr_guard.add(pp(m0))
        if mgr_create and mgr_guard:
            n += 1
            site = strip_targs(short(a['name']))
            if mgr_create == mgr_guard or len(mgr_create | mgr_guard) == 1:
                r.ok(site, 'manager %s on both sides' % sorted(mgr_create))
            elif mgr_guard <= mgr_create or mgr_create <= mgr_guard:
                r.ok(site, 'managers %s / %s' % (sorted(mgr_create), sorted(mgr_guard)))
            else:
                r.violation(site, 'object created with manager %s but guarded/destroyed with %s' % (sorted(mgr_create), sorted(mgr_guard)), common.file_line(a))
    return r


# ----------------------------------------------------------------------------------------------- R4
NEW_OK = {
    ('ICUFormatNumberFunctor::createDecimalFormat', 'icu_72::DecimalFormatSymbols'): 'ICU object, ICU\'s UMemory::operator new; ownership passes to ICU (adoptDecimalFormatSymbols)',
    ('ICUXalanNumberFormatProxy::ICUXalanNumberFormatProxy', 'icu_72::DecimalFormat'): 'ICU object allocated with ICU\'s own operator new, deleted in the destructor',
    ('ICUXalanNumberFormatProxy::setGroupingSeparator', 'icu_72::DecimalFormatSymbols'): 'ICU object handed to adoptDecimalFormatSymbols',
    ('XalanXPathAPIInitialize', 'xalanc_1_12::XalanSourceTreeInit'): 'C API: no memory manager in the interface; paired with delete in XalanXPathAPITerminate',
    ('XalanCreateXPathEvaluator', 'xalanc_1_12::XPathEvaluator'): 'C API: paired with delete in XalanDestroyXPathEvaluator',
    ('transcodeString', 'unsigned char'): 'C API scratch buffer held by XalanArrayAutoPtr',
    ('transcodeString', 'char16_t'): 'C API scratch buffer held by XalanArrayAutoPtr',
}
DELETE_OK = {
    'XalanAutoPtr::~XalanAutoPtr': 'generic owner of objects created with plain new (ICU / Xerces objects)',
    'XalanAutoPtr::reset': 'generic owner of objects created with plain new',
    'XalanArrayAutoPtr::~XalanArrayAutoPtr': 'owner of new[] scratch buffers of the C API',
    'XalanArrayAutoPtr::reset': 'owner of new[] buffers (instantiated by API clients)',
    'CollationCacheStruct::CollatorDeleteFunctor::operator()': 'ICU Collator created by ICU',
    'ICUBridgeCollationCompareFunctorImpl::~ICUBridgeCollationCompareFunctorImpl': 'ICU Collator created by ICU',
    'ICUXalanNumberFormatProxy::~ICUXalanNumberFormatProxy': 'ICU DecimalFormat created with ICU\'s operator new',
    'XalanToXercesTranscoderWrapper::~XalanToXercesTranscoderWrapper': 'Xerces transcoder (XMemory operator delete)',
    'XalanXPathAPITerminate': 'C API pair of XalanXPathAPIInitialize',
    'XalanDestroyXPathEvaluator': 'C API pair of XalanCreateXPathEvaluator',
    'XalanSourceTreeParserLiaison::~XalanSourceTreeParserLiaison': 'Xerces reader created with new (manager) through XMemory',
    'XalanFreeData': 'C API: documented release function for XalanTransformToData output',
    'XalanTransformer::terminate': 'XSLTInputSource derives from Xerces InputSource (XMemory): created with new (manager), XMemory::operator delete returns it to that manager',
    'XercesParserLiaison::~XercesParserLiaison': 'Xerces parser created with new (manager) through XMemory',
    'XercesParserLiaison::reset': 'Xerces DOMDocument, owned by Xerces (XMemory)',
    'XResultTreeFrag::dereferenced': 'an XResultTreeFrag not owned by the execution context was created by its user with plain new (the allocator-owned ones are returned to it)',
}


def r4_global_heap(res, facts):
    r = res.rule('C19-R4', 'non-placement new and delete in library code are confined to objects that are not managed by the pluggable manager (ICU / Xerces / C API), each site reviewed', floor=25)
    for n in facts.D['NEW']:
        if n['placement'] != 0 or n['from'] not in facts.F or not facts.lib_path(n['loc']):
            continue
        fn = strip_targs(short(facts.name[n['from']]))
        site = 'new %s in %s' % (short(n['type']), fn)
        if (fn, n['type']) in NEW_OK:
            r.ok(site, NEW_OK[(fn, n['type'])])
        else:
            r.violation(site, 'object allocated with global operator new: it bypasses the pluggable memory manager', n['loc'].replace('/repo/', ''))
    for d in facts.D['DEL']:
        if not facts.lib_path(d['loc']):
            continue
        fn = strip_targs(short(facts.name.get(d['from'], '?')))
        site = 'delete %s in %s' % (short(d['type']).replace('const ', ''), fn)
        if fn in DELETE_OK:
            r.ok(site, DELETE_OK[fn])
        else:
            r.violation(site, 'delete expression on an object of the library: objects created through the memory manager must be released with XalanDestroy / deallocate', d['loc'].replace('/repo/', ''))
    return r


# ----------------------------------------------------------------------------------------------- R5
def r5_rollback(res, facts):
    r = res.rule('C19-R5', 'XalanTransformer::initialize rolls back on failure: what it has created is destroyed when a later step throws', floor=2)
    a = facts.asts('XalanTransformer::initialize')[0]
    body = a['body']
    tries = [x for x in walk(body) if x['k'] == 'Try']
    site = 'XalanTransformer::initialize'
    # everything created is either held by a guard (auto ptr / EnsureFunctionsInstallation with release()) or created inside a try whose handler destroys it
    creates = [c for c in calls(body) if c.get('n') in ('create',) or (c['k'] == 'New')]
    guards = []
    for x in walk(body):
        if x['k'] == 'Decl':
            for v in x['vars']:
                if any(g in v['ty'] for g in ('XalanMemMgrAutoPtr', 'XalanAutoPtr', 'EnsureFunctionsInstallation', 'XalanAllocationGuard')):
                    guards.append(v)
    releases = [c for c in calls(body) if c.get('n') in ('release', 'releasePtr')]
    if not guards:
        r.violation(site, 'no guard objects: a failure after the first creation leaks / leaves the library half-initialised', common.file_line(a))
        return r
    cfg = CFG(a)
    # each release() must come after the last statement that can throw: i.e. no call node reachable after a release except other releases / assignments
    rel_nodes = [cfg_node_of(cfg, c) for c in releases]
    ok = True
    for rn in rel_nodes:
        if rn is None:
            continue
        after = cfg.reachable_avoiding([rn], lambda n: False)
        for nid in after:
            n = cfg.nodes[nid]
            if n.ast is None or n.kind != 'stmt':
                continue
            for c in calls(n.ast):
                nm = c.get('n') or ''
                if nm in ('release', 'releasePtr', 'get', 'operator->', 'operator*') or c['k'] == 'OpCall':
                    continue
                if c['k'] == 'Ctor' and 'Ptr' in c.get('cls', ''):
                    continue
                ok = False
                r.violation(site + ' release order', 'a guard is released before %s, which can still throw: the object it protected would leak' % pp(c)[:60], common.file_line(a, c))
    for g in guards:
        r.ok('%s guard %s' % (site, g['n']), short(g['ty'])[:60])
    if ok:
        r.ok(site + ': every release() follows the last throwing step')
    # EnsureFunctionsInstallation destructor uninstalls unless released
    d = facts.asts('XalanTransformer::EnsureFunctionsInstallation::~EnsureFunctionsInstallation')[0]
    un = [c for c in calls(d['body']) if 'uninstallGlobal' in (c.get('n') or '')]
    cfgd = CFG(d)
    must = common.must_conds(cfgd)
    good = bool(un)
    for c in un:
        n = cfg_node_of(cfgd, c)
        conds = must.get(n.id, []) if n else []
        if not any('m_release' in pp(atom) for atom, br in conds):
            good = False
    if good:
        r.ok('~EnsureFunctionsInstallation uninstalls %d function sets unless released' % len(un))
    else:
        r.violation('~EnsureFunctionsInstallation', 'does not uninstall the function tables under !m_release', common.file_line(d))
    return r


def run(res, facts, tier):
    r1_noexcept(res, facts)
    r2_pairing(res, facts)
    r3_same_manager(res, facts)
    r4_global_heap(res, facts)
    r5_rollback(res, facts)
    from . import c19_own
    own = c19_own.run_rules(res, facts, tier)
    c19_own.r8_handover(res, facts, own)
    c19_own.r9_destruct_only(res, facts)
    c19_own.r13_slot_stores(res, facts)
    c19_own.r14_move_within(res, facts)


# ----------------------------------------------------------------------------------------------- R10: a constructed object reaches an owner on every path
R10_REVIEWED = {}


def r10_construct_to_owner(res, facts):
    """XalanConstruct(manager, p, ...) allocates from the manager and constructs into the local pointer p.  From there to every normal exit of the function the pointer
    itself must go somewhere: into a call (push_back, an owner's setter, a guard's constructor), into a member or another variable, back to the caller, or through the
    destroying helpers.  A path that only looks at the object (p->...) and returns drops the only reference: the storage never goes back to the manager."""
    r = res.rule('C19-R10', 'every object made by XalanConstruct into a local pointer is, on every path to a normal exit of the function, handed on (argument of a call, stored, '
                 'returned) or destroyed; a path that returns after only dereferencing it leaks the object from the pluggable manager', floor=8)
    n = 0
    for k in facts.astidx:
        f = facts.F.get(k)
        if not f or '/src/xalanc/' not in f.get('loc', '') or '/Harness/' in f.get('loc', '') or '/Tests/' in f.get('loc', ''):
            continue
        a = facts.ast(k)
        if a is None or a.get('body') is None:
            continue
        sites = [c for c in calls(a['body']) if (c.get('n') or callee(c).split('::')[-1].split('<')[0]) == 'XalanConstruct' and len(c.get('args', [])) >= 2]
        if not sites:
            continue
        cfg = CFG(a)
        for c in sites:
            tgt = strip_casts(c['args'][1])
            if tgt.get('k') != 'Ref' or tgt.get('d') != 'local':
                continue
            vid = tgt['id']
            n += 1
            site = '%s: %s' % (short(facts.sig(k)), tgt['n'])
            start = [nd for nd in cfg.nodes if nd.ast is not None and any(x is c for x in walk(nd.ast))]
            if not start:
                continue
            top = strip_casts(start[0].ast)
            if top is not c:
                # the value of the call (the constructed pointer) is itself used: returned, assigned or passed on
                r.ok(site, 'the result of XalanConstruct is used directly')
                continue

            def consumes(nd):
                if nd.ast is None:
                    return False
                for x in walk(nd.ast):
                    kk = x.get('k')
                    if kk in ('Call', 'MCall', 'Ctor', 'OpCall'):
                        if x is c:
                            continue
                        for arg in x.get('args', []):
                            t = strip_casts(arg)
                            while t is not None and t.get('k') == 'Un' and t['op'] == '*':
                                t = strip_casts(t['e'])
                            if t is not None and t.get('k') == 'Ref' and t.get('id') == vid:
                                # p->f() passes nothing on; f(p) / f(*p) does
                                if kk == 'OpCall' and x.get('op') in ('->', '*') and len(x['args']) == 1:
                                    continue
                                return True
                    if kk == 'Bin' and x['op'] == '=':
                        t = strip_casts(x['rhs'])
                        if t is not None and t.get('k') == 'Ref' and t.get('id') == vid:
                            return True
                    if kk == 'Return' and x.get('e') is not None:
                        t = strip_casts(x['e'])
                        if t is not None and t.get('k') == 'Ref' and t.get('id') == vid:
                            return True
                    if kk == 'Decl':
                        for v in x.get('vars', []):
                            t = strip_casts(v['init']) if v.get('init') is not None else None
                            if t is not None and t.get('k') == 'Ref' and t.get('id') == vid:
                                return True
                return False
            seen = set()
            st = [s2 for s0 in start for s2 in s0.succ]
            leak = None
            while st:
                nd = st.pop()
                if nd.id in seen:
                    continue
                seen.add(nd.id)
                if consumes(nd):
                    continue
                if nd is cfg.exit:
                    leak = nd
                    break
                if nd.ast is not None and nd.ast.get('k') == 'Return':
                    leak = nd
                    break
                st.extend(nd.succ)
            if site in R10_REVIEWED:
                r.ok(site, 'reviewed: ' + R10_REVIEWED[site])
            elif leak is None:
                r.ok(site, 'handed on or destroyed on every path')
            else:
                r.violation(site, 'a path from the XalanConstruct call reaches %s without the pointer being handed to an owner, stored, returned or destroyed: the object stays '
                            'allocated from the manager for ever' % ('a return at line %s' % leak.ast.get('l') if leak.ast is not None else 'the end of the function'),
                            common.file_line(a, leak.ast if leak.ast is not None else c))
    if n < 8:
        raise AnalysisBroken('only %d XalanConstruct sites with a local pointer found' % n)
    return r


_run_c19_prev10 = run


def run(res, facts, tier):
    _run_c19_prev10(res, facts, tier)
    r10_construct_to_owner(res, facts)


# ----------------------------------------------------------------------------------------------- R11: an owned pointer member is not overwritten while it still owns something
_RELEASERS = re.compile(r'^(destroyTranscoder|XalanDestroy|destroy|deallocate|deleteObject|returnObject|returnXPath|returnFormatterToText|returnNodeSorter)$')


def r11_overwrite(res, facts):
    """A raw pointer member that the destructor of its class releases owns what it points to.  Assigning it in any other member function drops the old object unless, on every
    path to the assignment, the old object was released (the same releasing call, with the member as argument, or delete), the member is known to be null, or the function hands
    the old value to its caller (release())."""
    r = res.rule('C19-R11', 'owned pointer members (released by the destructor of their class): every assignment in another member function is reached only after the old object was '
                 'released, on paths where the member is null, or in a function that returns the old value', floor=5)
    bycls = collections.defaultdict(list)
    for k in facts.astidx:
        fn = facts.F.get(k)
        if not fn or not fn.get('cls') or '<' in fn['cls']:
            continue
        a = facts.ast(k)
        if a is None or a.get('body') is None or not facts.lib_path(a['file']):
            continue
        bycls[fn['cls']].append((k, fn, a))

    def this_member(e):
        e = strip_casts(e)
        if e is not None and e.get('k') == 'Member' and (strip_casts(e.get('obj')) or {'k': 'This'}).get('k') == 'This':
            return e['m']
        return None

    def releases(node_ast, fld=None):
        out = set()
        for x in walk(node_ast):
            if x.get('k') == 'Delete':
                m2 = this_member(x.get('e'))
                if m2:
                    out.add(m2)
            if x.get('k') in ('Call', 'MCall'):
                n = x.get('n') or callee(x).split('::')[-1]
                if _RELEASERS.match(n or ''):
                    for arg in x.get('args', []):
                        for y in walk(arg):
                            m2 = this_member(y) if y.get('k') == 'Member' else None
                            if m2:
                                out.add(m2)
        return out
    n_owned = 0
    for cls, lst in sorted(bycls.items()):
        ptrf = {fl['n'] for fl in (facts.K.get(cls) or {}).get('fields', []) if re.search(r'\*\s*(const)?\s*$', fl.get('ty') or '')}
        if not ptrf:
            continue
        owned = set()
        for k, fn, a in lst:
            if fn.get('kind') == 'dtor':
                owned |= releases(a['body']) & ptrf
        if not owned:
            continue
        n_owned += len(owned)
        for k, fn, a in lst:
            if fn.get('kind') in ('ctor', 'dtor'):
                continue
            asg = [x for x in walk(a['body']) if x.get('k') == 'Bin' and x.get('op') == '=' and this_member(x['lhs']) in owned]
            if not asg:
                continue
            cfg = CFG(a)
            # the function hands the old value over: it returns a local that was initialised from the member (or the member itself)
            hands_over = set()
            for x in walk(a['body']):
                if x.get('k') == 'Return' and x.get('e') is not None:
                    e = strip_casts(x['e'])
                    if this_member(e):
                        hands_over.add(this_member(e))
                    if e is not None and e.get('k') == 'Ref':
                        for y in walk(a['body']):
                            if y.get('k') == 'Decl':
                                for v in y.get('vars', []):
                                    if v['id'] == e.get('id') and v.get('init') is not None and this_member(v['init']):
                                        hands_over.add(this_member(v['init']))
            for x in asg:
                fld = this_member(x['lhs'])
                site = '%s: %s = %s' % (short(facts.name[k]), fld, pp(strip_casts(x['rhs']))[:40])
                if fld in hands_over:
                    r.ok(site, 'the old value is returned to the caller')
                    continue
                if short(facts.name[k]).split('::')[-1] == 'release' and ((strip_casts(x['rhs']) or {}).get('cv') == 0 or (strip_casts(x['rhs']) or {}).get('k') == 'Nullptr'):
                    r.ok(site, 'release(): the guard is disarmed, the caller keeps the pointer it obtained through get()')
                    continue
                target = next((nd for nd in cfg.nodes if nd.ast is not None and any(y is x for y in walk(nd.ast))), None)
                if target is None:
                    res.broken.append('C19-R11: cannot place %s in the control flow' % site); r.instances += 1; continue
                # search for a path entry -> target on which the member is neither released nor known to be null
                seen = set()
                todo = [cfg.entry]
                leak = False
                while todo:
                    nd = todo.pop()
                    if nd.id in seen:
                        continue
                    seen.add(nd.id)
                    if nd is target:
                        leak = True
                        break
                    if nd.ast is not None and fld in releases(nd.ast):
                        continue                    # released here: beyond this point the member owns nothing
                    if nd.ast is not None and nd.kind == 'stmt' and any(y.get('k') == 'Bin' and y.get('op') == '=' and this_member(y['lhs']) == fld and
                                                                        ((strip_casts(y['rhs']) or {}).get('cv') == 0 or (strip_casts(y['rhs']) or {}).get('k') == 'Nullptr') for y in walk(nd.ast)) and nd is not target:
                        pass
                    if nd.kind == 'cond' and nd.ast is not None:
                        core, eff = common.norm_atom(nd.ast, True)
                        null_branch = None
                        if core is not None and core.get('k') == 'Bin' and core['op'] in ('==', '!='):
                            for u, v in ((core['lhs'], core['rhs']), (core['rhs'], core['lhs'])):
                                if this_member(u) == fld and ((strip_casts(v) or {}).get('cv') == 0 or (strip_casts(v) or {}).get('k') == 'Nullptr'):
                                    null_branch = (core['op'] == '==') == eff          # truth value of the atom on which the member is null
                        elif core is not None and this_member(core) == fld:
                            null_branch = not eff
                        if null_branch is not None:
                            nxt = nd.cond_false if null_branch else nd.cond_true    # follow only the branch on which the member is NOT null
                            if nxt is not None:
                                todo.append(nxt)
                            continue
                    todo.extend(nd.succ)
                if leak:
                    r.violation(site, 'the member still owns an object on a path to this assignment (no release of %s and no test that it is null on that path): the old object is never '
                                'returned to its memory manager' % fld, common.file_line(a, x))
                else:
                    r.ok(site, 'released or null on every path')
    if n_owned < 8:
        raise AnalysisBroken('only %d owned pointer members found (floor 8)' % n_owned)
    return r


_run_c19_prev11 = run


def run(res, facts, tier):
    _run_c19_prev11(res, facts, tier)
    r11_overwrite(res, facts)
    from . import c19_registry
    c19_registry.run_rule(res, facts, tier)
