"""C02-R19 / C11-R8 — expressions, compiled and evaluated through every entry point, by interpretation.

Expressions over literals, location paths, the operators (or and = != < <= > >= + - * div mod unary-minus |), the functions with their own op codes (true, false, not,
boolean, number, count, position, last, floor, ceiling, round) and predicates that use them (a[@x], *[last()], *[position() = 2], ancestor::*[position() < 3] ...) are
compiled by the interpreted parser into a real op-code map and evaluated by the interpreted XPath::executeMore - the generic overload and the typed ones (bool&, double&) -
with the operator members (Or, And, equals ... plus ... neg, Union), the function members, XPath::predicates with the context node list stack, step and the axis functions.
Below that interpreter the XObject layer is modelled by its contract (type, the three conversions, the six comparisons of XPath 1.0 3.4, the factory), as are the node
lists and DoubleSupport's arithmetic (C02-R3, R4, R6, R12, C12-R5..R7 decide those).
  C02-R19: the generic result is the value XPath 1.0 defines (type and value), computed by a reference evaluator.
  C11-R8 : the boolean, the number, the string and the characters sent to a listener, asked for directly, equal boolean() / number() / string() of the generic result."""
import itertools, math
from ..build import AnalysisBroken
from ..mast import Unsupported, callee, strip_casts, pp
from ..facts import NS
from ..omach import OMachine, Obj, Vec, It, Fault, MemFn
from . import common
from .c09_match import PWorld, NList, Tok, Reject, tree
from .c12_order import TNode
from .c02_axes import spec_axis
from .c02_path import REVERSE, test_ok

nan = float('nan')


# ------------------------------------------------------------------------------------------------------------------ values and the reference semantics
class XO:
    identity = True

    def __init__(self, kind, v):
        self.kind, self.v = kind, v

    def __repr__(self):
        return '%s(%r)' % (self.kind, self.v)


def sval(n):
    if n.kind in ('attr', 'text'):
        return n.value
    return ''.join(sval(c) for c in n.children)


def str_to_num(s):
    t = s.strip(' \t\r\n')
    import re
    if re.match(r'^-?(\d+(\.\d*)?|\.\d+)$', t):
        return float(t)
    return nan


def num_to_str(x):
    if x != x:
        return 'NaN'
    if x in (float('inf'), float('-inf')):
        return 'Infinity' if x > 0 else '-Infinity'
    if x == int(x):
        return str(int(x)) if x != 0 else '0'
    return repr(x)


def to_num(o):
    if o.kind == 'number':
        return o.v
    if o.kind == 'boolean':
        return 1.0 if o.v else 0.0
    return str_to_num(to_str(o))


def to_str(o):
    if o.kind == 'string':
        return o.v
    if o.kind == 'number':
        return num_to_str(o.v)
    if o.kind == 'boolean':
        return 'true' if o.v else 'false'
    return sval(o.v[0]) if o.v else ''


def to_bool(o):
    if o.kind == 'boolean':
        return bool(o.v)
    if o.kind == 'number':
        return o.v == o.v and o.v != 0
    if o.kind == 'string':
        return o.v != ''
    return len(o.v) > 0


def cmp_atoms(op, a, b):
    return {'=': a == b, '!=': a != b, '<': a < b, '<=': a <= b, '>': a > b, '>=': a >= b}[op]


def compare(op, a, b):
    """XPath 1.0 3.4"""
    if a.kind == 'nodeset' and b.kind == 'nodeset':
        if op in ('=', '!='):
            return any(cmp_atoms(op, sval(x), sval(y)) for x in a.v for y in b.v)
        return any(cmp_atoms(op, str_to_num(sval(x)), str_to_num(sval(y))) for x in a.v for y in b.v)
    if a.kind == 'nodeset' or b.kind == 'nodeset':
        ns, other, flip = (a, b, False) if a.kind == 'nodeset' else (b, a, True)
        def one(x):
            if other.kind == 'boolean':
                l, r2 = to_bool(ns), other.v
                if op not in ('=', '!='):
                    l, r2 = float(l), float(r2)
            elif other.kind == 'number' or op not in ('=', '!='):
                l, r2 = str_to_num(sval(x)), to_num(other)
            else:
                l, r2 = sval(x), other.v
            return cmp_atoms(op, r2, l) if flip else cmp_atoms(op, l, r2)
        if other.kind == 'boolean':
            return one(None)
        return any(one(x) for x in ns.v)
    if op in ('=', '!='):
        if a.kind == 'boolean' or b.kind == 'boolean':
            return cmp_atoms(op, to_bool(a), to_bool(b))
        if a.kind == 'number' or b.kind == 'number':
            return cmp_atoms(op, to_num(a), to_num(b))
        return cmp_atoms(op, to_str(a), to_str(b))
    return cmp_atoms(op, to_num(a), to_num(b))


def ieee(op, a, b):
    inf = float('inf')
    if op == '+':
        return a + b
    if op == '-':
        return a - b
    if op == '*':
        return a * b
    if op == 'div':
        if b == 0:
            if a != a or a == 0:
                return nan
            neg = (math.copysign(1, a) < 0) != (math.copysign(1, b) < 0)
            return -inf if neg else inf
        return a / b
    if op == 'mod':
        if b == 0 or a != a or b != b or a in (inf, -inf):
            return nan
        if b in (inf, -inf):
            return a
        return math.fmod(a, b)
    raise KeyError(op)


# ------------------------------------------------------------------------------------------------------------------ expressions: (tokens, evaluator)
class E:
    """an expression: its tokens and a Python function (ctx, pos, size, env) -> XO"""
    def __init__(self, toks, fn):
        self.toks, self.fn = toks, fn


def lit_num(x):
    return E([num_to_str(x)], lambda c: XO('number', float(x)))


def lit_str(s):
    return E(["'%s'" % s], lambda c: XO('string', s))


def path_expr(toks, sel):
    return E(toks, lambda c: XO('nodeset', sorted(sel(c), key=lambda n: n.order)))


def binop(op, l, r):
    toks = l.toks + ({'!=': ['!', '='], '<=': ['<', '='], '>=': ['>', '=']}.get(op, [op])) + r.toks
    if op == 'or':
        return E(toks, lambda c: XO('boolean', to_bool(l.fn(c)) or to_bool(r.fn(c))))
    if op == 'and':
        return E(toks, lambda c: XO('boolean', to_bool(l.fn(c)) and to_bool(r.fn(c))))
    if op in ('=', '!=', '<', '<=', '>', '>='):
        return E(toks, lambda c: XO('boolean', compare(op, l.fn(c), r.fn(c))))
    if op == '|':
        return E(toks, lambda c: XO('nodeset', sorted({id(n): n for n in l.fn(c).v + r.fn(c).v}.values(), key=lambda n: n.order)))
    return E(toks, lambda c: XO('number', ieee(op, to_num(l.fn(c)), to_num(r.fn(c)))))


def fn1(name, arg, f):
    return E([name, '('] + arg.toks + [')'], lambda c: f(arg.fn(c)))


class Ctx:
    def __init__(self, node, pos, size, doc, allnodes):
        self.node, self.pos, self.size, self.doc, self.all = node, pos, size, doc, allnodes


def step_sel(axis, test, preds):
    """selection function of one step with predicates (each an E evaluated with position / size along the axis)"""
    def sel(c):
        cand = [x for x in spec_axis(axis, c.node, c.all) if test_ok(axis, test, x)]
        cand.sort(key=lambda x: x.order, reverse=axis in REVERSE)
        for p in preds:
            keep = []
            for i, x in enumerate(cand):
                v = p.fn(Ctx(x, i + 1, len(cand), c.doc, c.all))
                ok = (v.v == i + 1) if v.kind == 'number' else to_bool(v)
                if ok:
                    keep.append(x)
            cand = keep
        return cand
    return sel


def step_expr(axis_toks, axis, test_toks, test, preds):
    toks = axis_toks + test_toks
    for p in preds:
        toks = toks + ['['] + p.toks + [']']
    return path_expr(toks, step_sel(axis, test, preds))


POSITION = E(['position', '(', ')'], lambda c: XO('number', float(c.pos)))
LAST = E(['last', '(', ')'], lambda c: XO('number', float(c.size)))
TRUE = E(['true', '(', ')'], lambda c: XO('boolean', True))
FALSE = E(['false', '(', ')'], lambda c: XO('boolean', False))


def corpus(tier):
    deep = tier == 'thorough'
    A = step_expr([], 'child', ['a'], 'a', [])
    B = step_expr([], 'child', ['b'], 'b', [])
    AX = step_expr(['@'], 'attribute', ['x'], 'x', [])
    AY = step_expr(['@'], 'attribute', ['y'], 'y', [])
    NOTH = step_expr([], 'child', ['c'], 'c', [])
    TXT = step_expr([], 'child', ['text', '(', ')'], 'text', [])
    DOT = path_expr(['.'], lambda c: [c.node])
    atoms = [lit_num(0), lit_num(1), lit_num(2), lit_num(2.5), lit_str(''), lit_str('1'), lit_str('q'), TRUE, FALSE, A, B, AX, AY, NOTH, TXT, DOT]
    out = []
    out += atoms
    for op in ('or', 'and', '=', '!=', '<', '<=', '>', '>=', '+', '-', '*', 'div', 'mod'):
        pairs = list(itertools.product(atoms, atoms))
        for i, (l, r) in enumerate(pairs):
            if deep or (i * 7 + len(op)) % 5 == 0:
                out.append(binop(op, l, r))
    for l, r in itertools.product([A, B, AX, NOTH, DOT], repeat=2):
        out.append(binop('|', l, r))
    for a in atoms:
        out.append(E(['-'] + a.toks, (lambda a: lambda c: XO('number', -to_num(a.fn(c))))(a)))
        out.append(fn1('not', a, lambda v: XO('boolean', not to_bool(v))))
        out.append(fn1('boolean', a, lambda v: XO('boolean', to_bool(v))))
        out.append(fn1('number', a, lambda v: XO('number', to_num(v))))
    for a in (A, B, AX, NOTH, TXT, DOT):
        out.append(fn1('count', a, lambda v: XO('number', float(len(v.v)))))
    for a in (lit_num(2.5), lit_num(0), binop('-', lit_num(0), lit_num(2.5)), binop('div', lit_num(1), lit_num(0)), fn1('number', lit_str('q'), lambda v: XO('number', to_num(v)))):
        out.append(fn1('floor', a, lambda v: XO('number', to_num(v) if to_num(v) != to_num(v) or abs(to_num(v)) == float('inf') else float(math.floor(to_num(v))))))
        out.append(fn1('ceiling', a, lambda v: XO('number', to_num(v) if to_num(v) != to_num(v) or abs(to_num(v)) == float('inf') else float(math.ceil(to_num(v))))))
    # predicates
    preds = [POSITION, LAST, AX, NOTH, fn1('not', AX, lambda v: XO('boolean', not to_bool(v))), binop('=', POSITION, lit_num(2)), binop('<', POSITION, lit_num(3)),
             binop('=', POSITION, LAST), binop('!=', POSITION, LAST), binop('>', LAST, lit_num(1)), binop('=', AX, lit_str('1')), binop('-', LAST, lit_num(1)),
             binop('or', AX, binop('=', POSITION, lit_num(1)))]
    for (atoks, axis) in (([], 'child'), (['ancestor', '::'], 'ancestor'), (['preceding-sibling', '::'], 'preceding-sibling'), (['following-sibling', '::'], 'following-sibling'),
                          (['descendant', '::'], 'descendant'), (['preceding', '::'], 'preceding'), (['ancestor-or-self', '::'], 'ancestor-or-self')):
        for p in preds:
            out.append(step_expr(atoks, axis, ['*'], '*', [p]))
        for p1, p2 in itertools.product(preds[:6], [POSITION, LAST, binop('=', POSITION, lit_num(1))]):
            if deep or axis in ('child', 'ancestor'):
                out.append(step_expr(atoks, axis, ['*'], '*', [p1, p2]))
    out.append(fn1('count', step_expr([], 'child', ['*'], '*', [binop('=', POSITION, LAST)]), lambda v: XO('number', float(len(v.v)))))
    # the other functions with op codes of their own
    def rnd(x):
        return x if x != x or abs(x) == float('inf') else float(math.floor(x + 0.5))
    for a in (lit_num(2.5), lit_num(0), lit_num(1.5), binop('-', lit_num(0), lit_num(2.5)), binop('div', lit_num(1), lit_num(0)), lit_str('q'), AX, TRUE):
        out.append(fn1('round', a, lambda v: XO('number', rnd(to_num(v)))))
    for a in (lit_str(''), lit_str('q'), lit_num(2.5), TRUE, A, AX, AY, NOTH, TXT, DOT):
        out.append(fn1('string-length', a, lambda v: XO('number', float(len(to_str(v))))))
    for a in (A, B, AX, AY, NOTH, TXT, DOT, step_expr([], 'child', ['*'], '*', [])):
        out.append(fn1('sum', a, lambda v: XO('number', math.fsum(str_to_num(sval(x)) for x in v.v) if all(str_to_num(sval(x)) == str_to_num(sval(x)) for x in v.v) else nan)))
        out.append(fn1('name', a, lambda v: XO('string', qname(v.v[0]) if v.v else '')))
        out.append(fn1('local-name', a, lambda v: XO('string', qname(v.v[0]) if v.v else '')))
    out.append(E(['string-length', '(', ')'], lambda c: XO('number', float(len(sval(c.node))))))
    out.append(E(['number', '(', ')'], lambda c: XO('number', str_to_num(sval(c.node)))))
    out.append(E(['name', '(', ')'], lambda c: XO('string', qname(c.node))))
    out.append(E(['local-name', '(', ')'], lambda c: XO('string', qname(c.node))))
    # filter expressions: a parenthesised node-set with predicates (positions in document order)
    for l, r2 in ((A, B), (B, A), (AX, A)):
        u = binop('|', l, r2)
        for p in (lit_num(1), lit_num(2), LAST, binop('=', POSITION, LAST), AX, binop('>', POSITION, lit_num(1))):
            def sel(c, u=u, p=p):
                cand = u.fn(c).v
                keep = []
                for i, x in enumerate(cand):
                    v = p.fn(Ctx(x, i + 1, len(cand), c.doc, c.all))
                    if (v.v == i + 1) if v.kind == 'number' else to_bool(v):
                        keep.append(x)
                return keep
            out.append(path_expr(['('] + u.toks + [')', '['] + p.toks + [']'], sel))
    # paths inside predicates and predicates inside predicates
    INNER = step_expr([], 'child', ['*'], '*', [binop('=', POSITION, lit_num(2))])
    for p in (A, B, binop('or', A, B), binop('and', A, AX), fn1('count', B, lambda v: XO('number', float(len(v.v)))), INNER,
              binop('=', fn1('count', step_expr([], 'child', ['*'], '*', []), lambda v: XO('number', float(len(v.v)))), POSITION)):
        out.append(step_expr([], 'child', ['*'], '*', [p]))
        out.append(step_expr(['descendant', '::'], 'descendant', ['*'], '*', [p]))
    return out


def qname(n):
    return n.local if n.kind in ('elem', 'attr') else ''


# ------------------------------------------------------------------------------------------------------------------ the machine's world
class Guard(Obj):
    pass


class Sink(Obj):
    """a FormatterListener that receives characters (FormatterStringLengthCounter, or the listener handed to the FormatterListener entry point)"""
    def put(self, t):
        self.fields['text'] += t


class EWorld(PWorld):
    def __init__(self, facts):
        super().__init__(facts)
        self.cnl = []
        self.max_calls = 60000
        self.TYPES = {k: facts.enumconst.get(NS + 'XObject::' + v) for k, v in (('number', 'eTypeNumber'), ('string', 'eTypeString'), ('boolean', 'eTypeBoolean'), ('nodeset', 'eTypeNodeSet'))}
        if None in self.TYPES.values():
            raise AnalysisBroken('XObject type constants not found')

    def destructor(self, o):
        if isinstance(o, Guard):
            return lambda g: self.cnl.pop()
        return None

    def as_xo(self, v):
        if isinstance(v, XO):
            return v
        if isinstance(v, tuple) and v and v[0] == 'XOBJ':
            return XO('number', v[2])
        if isinstance(v, NList):
            return XO('nodeset', sorted(v.items, key=lambda n: n.order))
        return None

    def hook(self, m, c):
        k = c['k']
        n = c.get('n') or (callee(c).split('::')[-1] if c.get('fn') != '<memptr>' else '<memptr>')
        cls = c.get('cls') or ''
        fn = c.get('fn') or ''
        if k == 'Ctor':
            if 'ContextNodeListPushAndPop' in cls:
                lst = m.ev(c['args'][1])
                self.cnl.append(lst)
                return Guard('guard', {})
            if 'FormatterStringLengthCounter' in cls:
                return Sink('sink', {'text': ''})
            if 'XObjectPtr' in cls:
                a = c.get('args', [])
                if not a:
                    return None
                v = m.ev(a[0])
                return None if isinstance(v, int) and not isinstance(v, bool) and v == 0 else v
        if k == 'MCall' and fn == '<memptr>':
            b = m.ev(c['callee'])
            if isinstance(b, tuple) and b[0] == 'bound' and isinstance(b[1], Sink):
                chars, ln = m.ev(c['args'][0]), int(m.ev(c['args'][1]))
                if isinstance(chars, Tok):
                    chars = chars.s
                if not isinstance(chars, str) or ln > len(chars):
                    raise Fault('%d characters of %r handed to the listener' % (ln, chars))
                b[1].put(chars[:ln])
                return 0
            return NotImplemented
        if k == 'Call' and n == 'getNodeData' and 'DOMServices' in fn:
            a = [m.ev(x) for x in c['args'][:-1]]
            sinks = [x for x in a if isinstance(x, Sink)]
            if sinks and isinstance(a[0], TNode):
                sinks[0].put(sval(a[0]))
                return 0
            if len(c['args']) == 3 and isinstance(a[0], TNode):
                t2 = strip_casts(c['args'][2])
                m.assign(t2, (m.ev(t2) or '') + sval(a[0]))
                return 0
        if k == 'MCall':
            tgt = m.target_obj(c)
            if isinstance(tgt, str) and n == 'clear' and tgt not in ('ECTX', 'FACTORY'):
                m.assign(strip_casts(c['obj']), '')
                return 0
            if isinstance(tgt, str) and n in ('append', 'assign') and len(c.get('args', [])) == 1 and tgt not in ('ECTX', 'FACTORY'):
                v = m.ev(c['args'][0])
                if isinstance(v, Tok):
                    v = v.s
                if not isinstance(v, str):
                    raise Unsupported('%s(%r) on a string' % (n, v))
                m.assign(strip_casts(c['obj']), (tgt if n == 'append' else '') + v)
                return 0
            if isinstance(tgt, Sink) and n == 'getCount':
                return len(tgt.fields['text'])
            if tgt == 'ECTX':
                if n == 'getContextNodeListLength':
                    return len(self.items_of(self.cnl[-1])) if self.cnl else 0
                if n == 'getContextNodeListPosition':
                    nd = m.ev(c['args'][0])
                    items = self.items_of(self.cnl[-1]) if self.cnl else []
                    return items.index(nd) + 1 if nd in items else 0
                if n == 'getXObjectFactory':
                    return 'FACTORY'
                if n in ('getCurrentNode',):
                    return self.current
            if tgt == 'FACTORY':
                a = [m.ev(x) for x in c.get('args', [])]
                if n == 'createBoolean':
                    return XO('boolean', bool(a[0]))
                if n == 'createNumber':
                    v = a[0]
                    if isinstance(v, Tok):
                        v = v.num if getattr(v, 'num', None) is not None else str_to_num(v.s)
                    return XO('number', float(v))
                if n in ('createString', 'createStringReference', 'createStringAdapter'):
                    v = a[0]
                    if isinstance(v, Tok):
                        v = v.s
                    if isinstance(v, XO):
                        v = to_str(v)
                    return XO('string', v)
                if n == 'createNodeSet':
                    v = a[0]
                    if isinstance(v, NList):
                        return XO('nodeset', list(v.items))
                    if isinstance(v, TNode):
                        return XO('nodeset', [v])
                    raise Unsupported('createNodeSet(%r)' % (v,))
                raise Unsupported('factory method ' + n)
            isx = 'XObject' in cls or 'XNodeSet' in cls or 'XNumber' in cls or 'XString' in cls or 'XBoolean' in cls or cls.endswith('XObjectPtr')
            x = self.as_xo(tgt) if isx and not isinstance(tgt, (Obj, Vec)) else None
            if x is not None:
                if n == 'getType':
                    return self.TYPES[x.kind]
                if n == 'num':
                    return to_num(x)
                if n == 'boolean':
                    return int(to_bool(x))
                if n == 'str':
                    return self.deliver(m, c.get('args', []), to_str(x))
                if n == 'nodeset':
                    if x.kind != 'nodeset':
                        raise Reject('not a node-set')
                    nl = NList(); nl.items = list(x.v); nl.flag = 'document'
                    return nl
                if n in ('equals', 'notEquals', 'lessThan', 'lessThanOrEquals', 'greaterThan', 'greaterThanOrEquals'):
                    other = self.as_xo(m.ev(c['args'][0]))
                    op = {'equals': '=', 'notEquals': '!=', 'lessThan': '<', 'lessThanOrEquals': '<=', 'greaterThan': '>', 'greaterThanOrEquals': '>='}[n]
                    return int(compare(op, x, other))
                if n == 'get':
                    return x
                if n == 'null':
                    return 0
            if isinstance(tgt, Tok) and n in ('boolean', 'num', 'str', 'getType', 'stringLength'):
                # a literal of the expression, held in the token queue: an XObject of type string or number (XToken's own conversions are C11-R3's business)
                x = XO('string', tgt.s) if getattr(tgt, 'is_string', True) else XO('number', float(tgt.num))
                if n == 'boolean':
                    return int(to_bool(x))
                if n == 'num':
                    return to_num(x)
                if n == 'getType':
                    return self.TYPES[x.kind]
                if n == 'stringLength':
                    return float(len(to_str(x)))
                return self.deliver(m, c.get('args', []), to_str(x))
            if tgt is None and n == 'null':
                return 1
            if isinstance(tgt, NList) and n == 'nodeset':
                return tgt
        if k == 'OpCall' and c.get('op') in ('->', '*') and len(c['args']) == 1:
            v = m.ev(c['args'][0])
            if isinstance(v, XO):
                return v
        if k in ('Call', 'MCall') and 'XObject::' in fn and n in ('number', 'boolean', 'string') and c.get('args'):
            a = [m.ev(x) for x in c['args']]
            vals = [x for x in a if isinstance(x, (NList, TNode, float, int, str)) and x != 'ECTX']
            if not vals:
                raise Unsupported('static conversion ' + pp(c)[:60])
            v = vals[0]
            if isinstance(v, NList):
                x = XO('nodeset', sorted(v.items, key=lambda q: q.order))
            elif isinstance(v, TNode):
                x = XO('nodeset', [v])
            elif isinstance(v, str):
                x = XO('string', v)
            elif isinstance(v, bool):
                x = XO('boolean', v)
            else:
                decl = self.facts.ast(c['usr']) if c.get('usr') else None
                pty = [p.get('ty') or '' for p in decl['params']] if decl is not None else []
                idx = a.index(v)
                ty = pty[idx] if idx < len(pty) and pty[idx] else (strip_casts(c['args'][idx]).get('ty') or '')
                if not ty:
                    raise Unsupported('static conversion of a value of unknown type: ' + pp(c)[:60])
                x = XO('boolean', bool(v)) if ty.replace('const', '').strip() == 'bool' else XO('number', float(v))
            if n == 'number':
                return to_num(x)
            if n == 'boolean':
                return int(to_bool(x))
            if n == 'string':
                sinks = [y for y in a if isinstance(y, Sink)]
                if sinks:
                    sinks[0].put(to_str(x))
                    return 0
                if len(c['args']) >= 2:
                    t2 = strip_casts(c['args'][-1])
                    m.assign(t2, (m.ev(t2) or '') + to_str(x))
                    return 0
                return to_str(x)
        if k == 'Call' and 'DoubleSupport::' in fn:
            a = [m.ev(x) for x in c['args']]
            if n in ('add', 'subtract', 'multiply', 'divide', 'modulus'):
                return ieee({'add': '+', 'subtract': '-', 'multiply': '*', 'divide': 'div', 'modulus': 'mod'}[n], float(a[0]), float(a[1]))
            if n == 'negative':
                return -float(a[0])
            if n in ('floor', 'ceiling'):
                x = float(a[0])
                if x != x or abs(x) == float('inf'):
                    return x
                return float(math.floor(x) if n == 'floor' else math.ceil(x))
            if n == 'round':
                x = float(a[0])
                if x != x or abs(x) == float('inf'):
                    return x
                return float(math.floor(x + 0.5))
            if n == 'isNaN':
                return int(a[0] != a[0])
            if n in ('equal', 'notEqual', 'lessThan', 'lessThanOrEqual', 'greaterThan', 'greaterThanOrEqual'):
                x, y = float(a[0]), float(a[1])
                return int({'equal': x == y, 'notEqual': x != y, 'lessThan': x < y, 'lessThanOrEqual': x <= y, 'greaterThan': x > y, 'greaterThanOrEqual': x >= y}[n])
            if n == 'toDouble':
                return str_to_num(a[0]) if isinstance(a[0], str) else float(a[0])
            if n in ('getNaN',):
                return nan
        return super().hook(m, c)

    @staticmethod
    def deliver(m, args, text):
        """str() and its kin: the string itself, appended to a string argument, or sent to a listener argument"""
        if len(args) >= 3:
            for y in args:
                v = m.ev(y)
                if isinstance(v, Sink):
                    v.put(text)
                    return 0
            raise Unsupported('string conversion with %d arguments and no listener' % len(args))
        if len(args) == 2:
            v = m.ev(args[0])
            if isinstance(v, Sink):
                v.put(text)
                return 0
            t2 = strip_casts(args[-1])
            m.assign(t2, (m.ev(t2) or '') + text)
            return 0
        return text

    @staticmethod
    def items_of(lst):
        if isinstance(lst, NList):
            return lst.items
        if isinstance(lst, XO):
            return lst.v
        raise Unsupported('context node list %r' % (lst,))


def value_tree():
    doc, nodes = tree()
    vals = {'x': ['1', '2', '1'], 'y': ['q', '2.5']}
    cnt = {'x': 0, 'y': 0}
    for n in nodes:
        if n.kind == 'attr':
            n.value = vals[n.local][cnt[n.local] % len(vals[n.local])]
            cnt[n.local] += 1
        elif n.kind == 'text':
            n.value = '2'
    return doc, nodes


def same(a, b):
    if a.kind != b.kind:
        return False
    if a.kind == 'number':
        return (a.v != a.v and b.v != b.v) or (a.v == b.v and math.copysign(1, a.v) == math.copysign(1, b.v))
    if a.kind == 'nodeset':
        return [id(x) for x in a.v] == [id(x) for x in b.v]
    return a.v == b.v


def run_rules(res, facts, tier, want=('C02-R19', 'C11-R8')):
    r = r11 = None
    if 'C02-R19' in want:
      r = res.rule('C02-R19', 'expressions end to end by interpretation: literals, location paths, all operators, the op-coded functions and predicates with position() / last() on forward '
                 'and reverse axes, compiled to a real op-code map and evaluated by the interpreted XPath::executeMore (operators, function members, predicates, step) over a '
                 'modelled XObject layer, from several context nodes: type and value are those of XPath 1.0 (reference evaluator)', floor=3000)
    only_nodesets = False
    if 'C12-R9' in want:
      only_nodesets = True
      r = res.rule('C12-R9', 'node-set valued expressions end to end by interpretation (the corpus and machinery of C02-R19: steps on forward and reverse axes with positional and '
                 'boolean predicates, filter expressions, unions, several context nodes): the list that XPath::executeMore delivers holds each node once and in document order',
                 floor=600)
    if 'C11-R8' in want:
      r11 = res.rule('C11-R8', 'the same expressions asked for as a boolean, a number, a string and as characters sent to a listener through the four typed executeMore overloads: the '
                   'answers equal boolean() / number() / string() of the generic result', floor=6000)
    w = EWorld(facts)

    def one(name, pred=lambda a: True):
        c = [a for a in facts.asts(name, must=False) if a.get('body') is not None and pred(a)]
        if len(c) != 1:
            raise AnalysisBroken('%s: %d bodies' % (name, len(c)))
        return c[0]
    init = one('XPathProcessorImpl::initXPath')
    gen = one('XPath::executeMore', lambda a: len(a['params']) == 3)
    typed = {}
    for a in facts.asts('XPath::executeMore', must=False):
        if a.get('body') is not None and len(a['params']) == 4:
            t = a['params'][3].get('ty', '')
            if t.strip() == 'bool &':
                typed['boolean'] = a
            elif t.strip() == 'double &':
                typed['number'] = a
            elif t.strip().endswith('XalanDOMString &') and 'const' not in t:
                typed['string'] = a
        if a.get('body') is not None and len(a['params']) == 5 and 'FormatterListener' in a['params'][3].get('ty', ''):
            typed['listener'] = a
    if len(typed) != 4:
        raise AnalysisBroken('typed executeMore overloads (bool&, double&, XalanDOMString&, FormatterListener&): found %s' % sorted(typed))
    doc, nodes = value_tree()
    w.doc = doc
    ctxs = [nodes[1], nodes[4], nodes[6], nodes[9]] if tier != 'thorough' or r is None else [n for n in nodes if n.kind != 'doc'][:10]
    uniq, seen = [], set()
    for i, ex in enumerate(corpus(tier)):
        if tuple(ex.toks) not in seen:
            seen.add(tuple(ex.toks))
            uniq.append(i)
    whole = corpus(tier)

    def work(idx):
        found, found11 = {}, {}
        cnt = {'r': 0, 'r11': 0}
        viol = []
        for i in idx:
            ex = whole[i]
            ptxt = ' '.join(ex.toks)
            expr = Obj(NS + 'XPathExpression', {'m_opMap': Vec([], 'ops'), 'm_lastOpCodeIndex': 0, 'm_tokenQueue': Vec([], 'tokens'), 'm_currentPosition': 0,
                                                'm_currentPattern': '', 'm_numberLiteralValues': Vec([])})
            xp = Obj(NS + 'XPath', {'m_expression': expr, 'm_locator': 0, 'm_inStylesheet': 1})
            parser = Obj(NS + 'XPathProcessorImpl', {'m_token': '', 'm_tokenChar': 0, 'm_xpath': 0, 'm_constructionContext': 0, 'm_expression': 0, 'm_prefixResolver': 0,
                                                     'm_requireLiterals': 0, 'm_isMatchPattern': 0, 'm_positionPredicateStack': Vec([]), 'm_namespaces': Vec([]), 'm_locator': 0,
                                                     'm_allowVariableReferences': 1, 'm_allowKeyFunction': 1})
            w.calls = 0
            w.pending = list(ex.toks)
            try:
                m = OMachine(w, {}, parser)
                m.fuel = 30000
                m.run_body(init, [xp, 'CCTX', ptxt, 'RES', 0, 1, 1], parser)
            except Reject as x:
                raise AnalysisBroken('the expression parser rejects "%s" (%s)' % (ptxt, x))
            except Fault as f:
                viol.append(('compiling ' + ptxt, 'the parser misbehaves: %s' % f, common.file_line(init))); continue
            except Unsupported as u:
                raise AnalysisBroken('compilation outside the interpreted subset on "%s": %s' % (ptxt, u))
            ops = expr.fields['m_opMap']
            for ctx in ctxs:
                wantv = ex.fn(Ctx(ctx, 1, 1, doc, nodes))
                if only_nodesets and getattr(wantv, 'kind', None) != 'nodeset':
                    continue
                w.calls = 0
                w.cnl = [XO('nodeset', [ctx])]
                w.current = ctx
                site = '%s from %s' % (ptxt, ctx.name)
                try:
                    mm = OMachine(w, {}, xp)
                    mm.fuel = 60000
                    got = w.as_xo(mm.run_body(gen, [ctx, It(ops, 2), 'ECTX'], xp))
                    if got is not None and got.kind == 'nodeset':
                        got = XO('nodeset', list(got.v))
                except Fault as f:
                    got = 'FAULT: %s' % f
                except Reject as x:
                    got = 'ERROR: %s' % x
                except Unsupported as u:
                    raise AnalysisBroken('evaluation outside the interpreted subset on %s: %s' % (site, u))
                if isinstance(got, XO) and same(got, wantv):
                    if r is not None:
                        cnt['r'] += 1
                else:
                    if r is None:
                        continue            # C02-R19's business
                    cnt['r'] += 1
                    key = ex.toks[0] if len(ex.toks) < 3 else ' '.join(t for t in ex.toks if not t.isdigit() and t not in ("'q'", "'1'", "''"))[:40]
                    if key not in found:
                        found[key] = (site, repr(got), repr(wantv))
                    continue
                for kind, body in typed.items() if r11 is not None else ():
                    w.calls = 0
                    w.cnl = [XO('nodeset', [ctx])]
                    try:
                        env = {body['params'][0]['id']: ctx, body['params'][1]['id']: It(ops, 2), body['params'][2]['id']: 'ECTX',
                               body['params'][3]['id']: {'string': '', 'listener': Sink('sink', {'text': ''})}.get(kind, 0)}
                        if kind == 'listener':
                            env[body['params'][4]['id']] = MemFn(None, 'characters')
                        sub = OMachine(w, env, xp)
                        sub.fuel = 60000
                        sub.call(body['body'])
                        tv = sub.env[body['params'][3]['id']]
                        if kind == 'listener':
                            tv = tv.fields['text']
                    except Fault as f:
                        tv = 'FAULT: %s' % f
                    except Reject as x:
                        tv = 'ERROR: %s' % x
                    except Unsupported as u:
                        raise AnalysisBroken('typed evaluation (%s) outside the interpreted subset on %s: %s' % (kind, site, u))
                    if kind == 'boolean':
                        wv = to_bool(got)
                        ok = isinstance(tv, (int, bool)) and bool(tv) == wv
                    elif kind in ('string', 'listener'):
                        wv = to_str(got)
                        ok = tv == wv
                    else:
                        wv = to_num(got)
                        ok = isinstance(tv, (int, float)) and ((tv != tv and wv != wv) or float(tv) == wv)
                    cnt['r11'] += 1
                    if not ok:
                        key = (kind, ex.toks[0] if len(ex.toks) < 3 else ' '.join(t for t in ex.toks if not t.isdigit())[:40])
                        if key not in found11:
                            found11[key] = (site, repr(tv), repr(wv), repr(got))
        return cnt, found, found11, viol
    from ..report import fork_map
    nparts = 8 if tier == 'thorough' else 4
    found, found11 = {}, {}
    for cnt, fnd, fnd11, viol in fork_map(work, [uniq[i::nparts] for i in range(nparts)]):
        if r is not None:
            r.instances += cnt['r']
            for site, what, loc in viol:
                r.violation(site, what, loc)
        if r11 is not None:
            r11.instances += cnt['r11']
        for k2, v in fnd.items():
            found.setdefault(k2, v)
        for k2, v in fnd11.items():
            found11.setdefault(k2, v)
    for key, (site, got, wantv) in sorted(found.items()):
        r.instances -= 1
        if only_nodesets:
            r.violation('node-set of ' + key, '%s is delivered as %s; XPath 1.0 / the contract of a node list in document order: %s' % (site, got, wantv), common.file_line(gen))
            continue
        r.violation('expression ' + key, '%s evaluates to %s; XPath 1.0: %s' % (site, got, wantv), common.file_line(gen))
    for (kind, key), (site, tv, wv, got) in sorted(found11.items()):
        r11.instances -= 1
        r11.violation('%s asked for directly: %s' % (kind, key), '%s: the typed entry point yields %s, the generic result %s converts to %s' % (site, tv, got, wv), common.file_line(typed[kind]))
    for x in (r, r11):
        if x is not None:
            x.note('%d expressions x %d context nodes' % (len(seen), len(ctxs)))
    return r if r is not None else r11


def run_rule(res, facts, tier):
    return run_rules(res, facts, tier, ('C02-R19',))


def run_c11_rule(res, facts, tier):
    return run_rules(res, facts, tier, ('C11-R8',))


def run_c12_rule(res, facts, tier):
    return run_rules(res, facts, tier, want=('C12-R9',))
