"""C02-R17 — the axes by interpretation.

XPath::findSelf, findParent, findAncestors, findAncestorsOrSelf, findAttributes, findChildren, findDescendants (descendant and descendant-or-self), findFollowing,
findFollowingSiblings, findPreceeding, findPreceedingSiblings are interpreted with every node of a family of small trees (elements with attributes, text, nesting) as the
context node, for three node tests (node(), the principal node type `*`, text()).  Nodes offer the DOM navigation the code uses; the node tester is modelled by what it is
told (the node and the node type handed to it); the result list records raw additions, ordered insertions and the order flag.  Required: the delivered nodes are exactly the
axis of XPath 1.0 2.2 filtered by the test, and the list is in the order its flag claims (document order, or reverse document order for a list flagged so).
The namespace axis is not covered (it is built from xmlns attributes of the tree; C09-R7 / C02 rules look at those)."""
import itertools
from ..build import AnalysisBroken
from ..mast import Machine, Unsupported, callee, strip_casts, pp
from ..facts import NS
from . import common
from .c12_order import TNode, AttrMap, build, shapes


class NodeList:
    def __init__(self):
        self.items = []
        self.flag = 'unknown'
        self.raw_after_ordered = False


class Tester:
    def __init__(self, kind, steptype):
        self.kind, self.steptype = kind, steptype


class XMach(Machine):
    def __init__(self, world, env):
        super().__init__(env, call_hook=world.hook)
        self.world = world
        self.fuel = 6000

    def ev(self, e):
        k = e['k']
        if k == 'Un' and e['op'] in ('*', '&'):
            return self.ev(e['e'])
        if k == 'Bin' and e['op'] in ('==', '!='):
            l, r = self.ev(e['lhs']), self.ev(e['rhs'])
            if isinstance(l, TNode) or isinstance(r, TNode):
                same = l is r
            else:
                same = l == r
            return int(bool(same) == (e['op'] == '=='))
        if k == 'Cast' and e.get('ck') == 'PointerToBoolean':
            v = self.ev(e['e'])
            return int(isinstance(v, (TNode, AttrMap)) or bool(v))
        return super().ev(e)


class XWorld:
    def __init__(self, facts):
        self.facts = facts
        self.T = {k: facts.enumconst.get(NS + 'XalanNode::' + k) for k in ('ELEMENT_NODE', 'ATTRIBUTE_NODE', 'TEXT_NODE', 'DOCUMENT_NODE')}
        self.NONE = facts.enumconst.get(NS + 'XPath::eMatchScoreNone')
        self.HIT = facts.enumconst.get(NS + 'XPath::eMatchScoreNodeTest')
        self.ATTR_STEP = facts.enumconst.get(NS + 'XPathExpression::eFROM_ATTRIBUTES')
        if None in self.T.values() or self.NONE is None or self.HIT is None or self.ATTR_STEP is None:
            raise AnalysisBroken('node type / match score / step type constants not found')
        self.KIND = {'elem': 'ELEMENT_NODE', 'attr': 'ATTRIBUTE_NODE', 'text': 'TEXT_NODE', 'doc': 'DOCUMENT_NODE'}
        self.test = 'node'
        self.doc = None
        self.depth = 0
        self.type_lies = []

    def hook(self, m, c):
        k = c['k']
        n = c.get('n') or callee(c).split('::')[-1]
        cls = c.get('cls') or ''
        if n == '__assert_fail':
            raise Unsupported('assertion fails: ' + (pp(c['args'][0])[:90] if c.get('args') else ''))
        if k == 'Ctor':
            if cls.endswith('NodeTester'):
                st = m.ev(c['args'][4]) if len(c.get('args', [])) >= 5 else None
                return Tester(self.test, st)
            if len(c.get('args', [])) == 1:
                return m.ev(c['args'][0])
            return 'OBJ'
        if k == 'OpCall' and c.get('op') == '()' and len(c['args']) == 3:
            t = m.ev(c['args'][0])
            if isinstance(t, Tester):
                node, ty = m.ev(c['args'][1]), m.ev(c['args'][2])
                if not isinstance(node, TNode):
                    raise Unsupported('tester applied to ' + repr(node))
                if ty != self.T[self.KIND[node.kind]]:
                    self.type_lies.append((node, ty))
                if t.kind == 'node':
                    return self.HIT
                if t.kind == 'text':
                    return self.HIT if ty == self.T['TEXT_NODE'] else self.NONE
                principal = 'ATTRIBUTE_NODE' if t.steptype == self.ATTR_STEP else 'ELEMENT_NODE'
                return self.HIT if ty == self.T[principal] else self.NONE
        if k == 'MCall':
            ov = m.ev(c['obj']) if c.get('obj') is not None and strip_casts(c['obj']).get('k') != 'This' else None
            if isinstance(ov, TNode):
                if n == 'getNodeType':
                    return self.T[self.KIND[ov.kind]]
                if n == 'getParentNode':
                    return 0 if ov.kind == 'attr' or ov.parent is None else ov.parent
                if n == 'getOwnerElement':
                    return ov.parent if ov.kind == 'attr' else 0
                if n == 'getFirstChild':
                    return ov.children[0] if ov.children else 0
                if n == 'getLastChild':
                    return ov.children[-1] if ov.children else 0
                if n in ('getNextSibling', 'getPreviousSibling'):
                    if ov.kind == 'attr' or ov.parent is None:
                        return 0
                    sib = ov.parent.children
                    i = sib.index(ov) + (1 if n == 'getNextSibling' else -1)
                    return sib[i] if 0 <= i < len(sib) else 0
                if n == 'getAttributes':
                    return AttrMap(ov) if ov.kind == 'elem' else 0
                if n == 'getOwnerDocument':
                    return 0 if ov.kind == 'doc' else self.doc
                if n == 'isIndexed':
                    return 0
                if n == 'getDocumentElement':
                    return next((x for x in ov.children if x.kind == 'elem'), 0)
                raise Unsupported('node method ' + n)
            if isinstance(ov, AttrMap):
                if n == 'getLength':
                    return len(ov.owner.attrs)
                if n == 'item':
                    i = int(m.ev(c['args'][0]))
                    return ov.owner.attrs[i] if 0 <= i < len(ov.owner.attrs) else 0
            if isinstance(ov, NodeList):
                if n == 'addNode':
                    ov.items.append(m.ev(c['args'][0])); return 0
                if n == 'addNodeInDocOrder':
                    nd = m.ev(c['args'][0])
                    if nd not in ov.items:
                        ov.items.append(nd)
                        ov.items.sort(key=lambda x: x.order)
                    return 0
                if n == 'setDocumentOrder':
                    ov.flag = 'document'; return 0
                if n == 'setReverseDocumentOrder':
                    ov.flag = 'reverse'; return 0
                if n == 'empty':
                    return int(not ov.items)
                if n == 'getLength':
                    return len(ov.items)
                if n == 'reverse':
                    ov.items.reverse()
                    ov.flag = {'document': 'reverse', 'reverse': 'document'}.get(ov.flag, ov.flag)
                    return 0
                raise Unsupported('node list method ' + n)
            if n == 'getOpCodeArgumentLength':
                return 1        # a node test follows the axis (0 would be the abbreviations '.' and '..', which have none)
            if n in ('getOpCodeMapValue', 'getNextOpCodePosition', 'getOpCodeLengthFromOpMap'):
                return 0
            if n == 'getExpression':
                return 'EXPR'
            if n == 'isNamespaceDeclaration':
                return 0
        if c.get('usr') and k in ('Call', 'MCall'):
            fn = c.get('fn') or ''
            if n == 'isNamespaceDeclaration':
                return 0
            a = self.facts.ast(c['usr'])
            if a is not None and a.get('body') is not None and ('DOMServices' in fn or (k == 'Call' and a['file'].endswith('/XPath/XPath.cpp'))):
                self.depth += 1
                if self.depth > 8:
                    raise Unsupported('depth')
                try:
                    sub = XMach(self, {p['id']: m.ev(x) for p, x in zip(a['params'], c['args'])})
                    return sub.call(a['body'])
                finally:
                    self.depth -= 1
        return NotImplemented


def anc(n):
    out = []
    p = n.parent
    while p is not None:
        out.append(p); p = p.parent
    return out


def desc(n):
    out = []
    for ch in n.children:
        out.append(ch); out += desc(ch)
    return out


def spec_axis(axis, n, allnodes):
    if axis == 'self':
        return [n]
    if axis == 'parent':
        return [n.parent] if n.parent is not None else []
    if axis == 'ancestor':
        return anc(n)
    if axis == 'ancestor-or-self':
        return [n] + anc(n)
    if axis == 'attribute':
        return list(n.attrs)
    if axis == 'child':
        return list(n.children)
    if axis == 'descendant':
        return desc(n)
    if axis == 'descendant-or-self':
        return [n] + desc(n)
    if axis == 'following-sibling':
        if n.kind == 'attr' or n.parent is None:
            return []
        s = n.parent.children
        return s[s.index(n) + 1:]
    if axis == 'preceding-sibling':
        if n.kind == 'attr' or n.parent is None:
            return []
        s = n.parent.children
        return s[:s.index(n)]
    if axis == 'following':
        d = set(map(id, desc(n)))
        return [x for x in allnodes if x.order > n.order and id(x) not in d and x.kind != 'attr']
    if axis == 'preceding':
        a = set(map(id, anc(n)))
        return [x for x in allnodes if x.order < n.order and id(x) not in a and x.kind != 'attr']
    raise KeyError(axis)


AXES = [('self', 'findSelf', None), ('parent', 'findParent', None), ('ancestor', 'findAncestors', None), ('ancestor-or-self', 'findAncestorsOrSelf', None),
        ('attribute', 'findAttributes', 'eFROM_ATTRIBUTES'), ('child', 'findChildren', 'eFROM_CHILDREN'), ('descendant', 'findDescendants', 'eFROM_DESCENDANTS'),
        ('descendant-or-self', 'findDescendants', 'eFROM_DESCENDANTS_OR_SELF'), ('following', 'findFollowing', None), ('following-sibling', 'findFollowingSiblings', None),
        ('preceding', 'findPreceeding', None), ('preceding-sibling', 'findPreceedingSiblings', None)]


def run_rule(res, facts, tier):
    r = res.rule('C02-R17', 'the axes by interpretation: the twelve axis functions of XPath (all axes but namespace) run with every node of small trees as context and the node '
                 'tests node(), * and text(): the nodes delivered are the axis of XPath 1.0 2.2 filtered by the test, in the order the list\'s flag claims', floor=5000)
    w = XWorld(facts)
    sh = shapes()
    sh = sh[::5] + sh[-1:] if tier != 'thorough' else sh[::2] + sh[-1:]
    found = {}
    n_runs = 0
    fns = {}
    for axis, fname, st in AXES:
        cands = [a for a in facts.asts('XPath::' + fname, must=False) if a.get('body') is not None and len(a['params']) == 5]
        if len(cands) != 1:
            raise AnalysisBroken('XPath::%s: %d bodies' % (fname, len(cands)))
        fns[axis] = cands[0]
    for shape in sh:
        doc, order = build(shape)
        doc.order = -1
        w.doc = doc
        allnodes = [doc] + order
        for axis, fname, st in AXES:
            a = fns[axis]
            stv = facts.enumconst.get(NS + 'XPathExpression::' + st) if st else facts.enumconst.get(NS + 'XPathExpression::eFROM_CHILDREN')
            for ctx in allnodes:
                for test in ('node', 'star', 'text'):
                    w.test = test
                    w.type_lies = []
                    nl = NodeList()
                    p = a['params']
                    env = {p[0]['id']: 'CTX', p[1]['id']: ctx, p[2]['id']: 0, p[3]['id']: stv, p[4]['id']: nl}
                    m = XMach(w, env)
                    n_runs += 1
                    site = '%s::%s from %s' % (axis, {'node': 'node()', 'star': '*', 'text': 'text()'}[test], ctx)
                    try:
                        m.call(a['body'])
                        fault = None
                    except Unsupported as u:
                        msg = str(u)
                        if 'assertion fails' in msg:
                            fault = msg
                        else:
                            raise AnalysisBroken('XPath::%s outside the interpreted subset on %s: %s' % (fname, site, u))
                    want = spec_axis(axis, ctx, allnodes)
                    if test == 'text':
                        want = [x for x in want if x.kind == 'text']
                    elif test == 'star':
                        want = [x for x in want if x.kind == ('attr' if axis == 'attribute' else 'elem')]
                    want_sorted = sorted(want, key=lambda x: x.order)
                    got = list(nl.items)
                    problem = None
                    if fault:
                        problem = fault
                    elif w.type_lies:
                        problem = 'the node tester is told node type %s for %r' % (w.type_lies[0][1], w.type_lies[0][0])
                    elif sorted(map(id, got)) != sorted(map(id, want)):
                        problem = 'delivers %s, XPath 1.0 2.2: %s' % (got, want_sorted)
                    elif got and nl.flag == 'document' and got != want_sorted:
                        problem = 'flagged document order but delivered as %s' % got
                    elif got and nl.flag == 'reverse' and got != want_sorted[::-1]:
                        problem = 'flagged reverse document order but delivered as %s' % got
                    elif len(got) > 1 and nl.flag == 'unknown':
                        problem = 'delivers %d nodes without an order flag' % len(got)
                    if problem is None:
                        r.instances += 1
                        continue
                    key = (axis, test, ctx.kind)
                    if key not in found:
                        found[key] = (site, problem, a)
                    r.instances += 1
    for key, (site, problem, a) in sorted(found.items()):
        r.instances -= 1
        r.violation('axis %s, test %s, context %s' % key, '%s: %s' % (site, problem), common.file_line(a))
    r.note('%d runs over %d trees' % (n_runs, len(sh)))
    return r
