"""C04-R10 / C08-R7 — nothing reaches the transcoder of XalanOtherEncodingWriter without the representability test.

For an output encoding other than UTF-8 / UTF-16 the serializer writes UTF-16 code units into the buffer of XalanOtherEncodingWriter, which hands them to the transcoder.
A character the encoding cannot represent must become a numeric character reference (text, attribute values, raw text) or an error (names, comments, PIs); a code unit that
reaches the buffer unchecked is replaced by the transcoder's substitution character: the document changes with the encoding (C08) and may not be well-formed (C04).
The discipline is in the shape of the class:
  (1) the buffer (m_buffer through m_bufferPosition) is stored to only by the two single-character writers, write(XalanDOMChar) and write(XalanUnicodeChar);
      no other member copies into it or moves m_bufferPosition other than resetting it to m_buffer;
  (2) in write(XalanDOMChar) every store is dominated by the true branch of m_predicate(<the parameter>) and stores the parameter;
  (3) write(XalanUnicodeChar) is private to the class, and every call of it is dominated by the true branch of m_predicate(<the argument>);
  (4) every failure branch of those tests ends in a character reference or in the failure functor (never falls through silently).
CFG must-analysis (dominating conditions on every path) over the parsed instantiation of the class template."""
from ..build import AnalysisBroken
from ..mast import walk, calls, callee, strip_casts, pp, CFG
from . import common


def _is_bufpos(e):
    e = strip_casts(e)
    return e is not None and e.get('k') == 'Member' and e.get('m') == 'm_bufferPosition'


def _mentions_bufpos(e):
    return any(x.get('k') == 'Member' and x.get('m') in ('m_bufferPosition', 'm_buffer') for x in walk(e))


def _pred_on(atom, br, ref_id):
    """atom (with branch) is m_predicate(<variable ref_id>) taken on its true branch"""
    core, eff = common.norm_atom(atom, br)
    if core is None or not eff:
        return False
    if core.get('k') != 'OpCall' or core.get('op') != '()' or len(core.get('args', [])) != 2:
        return False
    f, x = strip_casts(core['args'][0]), strip_casts(core['args'][1])
    return f is not None and f.get('k') == 'Member' and f.get('m') == 'm_predicate' and x is not None and x.get('k') == 'Ref' and x.get('id') == ref_id


def run_rule(res, facts, tier, rid='C04-R10'):
    r = res.rule(rid, 'XalanOtherEncodingWriter: only the two single-character writers store into the transcoding buffer; write(XalanDOMChar) stores its parameter under '
                 'm_predicate(parameter); every call of the private write(XalanUnicodeChar) is dominated by m_predicate(argument); the failure branch writes a character '
                 'reference or calls the failure functor', floor=12)
    fns = [a for a in facts.all_asts(r'XalanOtherEncodingWriter\.hpp') if a.get('body') is not None and '::XalanOtherEncodingWriter<' in (a.get('cls') or '') and
           (a.get('cls') or '').split('>')[-1] == '']
    # one instantiation is enough (they are textually the same template); take the first class name
    classes = sorted({a['cls'] for a in fns})
    if not classes:
        raise AnalysisBroken('no instantiation of XalanOtherEncodingWriter parsed')
    cls = classes[0]
    fns = [a for a in fns if a['cls'] == cls]
    if len(fns) < 10:
        raise AnalysisBroken('XalanOtherEncodingWriter: only %d member functions parsed (floor 10)' % len(fns))

    def sig(a):
        return '%s(%s)' % (a['fq'].split('::')[-1], ', '.join((p.get('ty') or '').replace('xalanc_1_12::', '') for p in a['params']))
    unit = [a for a in fns if a['fq'].endswith('::write') and [p.get('ty') for p in a['params']] == ['char16_t']]
    point = [a for a in fns if a['fq'].endswith('::write') and [p.get('ty') for p in a['params']] == ['unsigned int']]
    if len(unit) != 1 or len(point) != 1:
        raise AnalysisBroken('XalanOtherEncodingWriter::write(XalanDOMChar) / write(XalanUnicodeChar): %d / %d bodies' % (len(unit), len(point)))
    unit, point = unit[0], point[0]
    for a in fns:
        name = a['fq'].split('::')[-1]
        if name in ('XalanOtherEncodingWriter', '~XalanOtherEncodingWriter'):
            continue
        cfg = CFG(a)
        must = common.must_conds(cfg)
        stores = []
        for n in cfg.nodes:
            if n.ast is None or n.kind not in ('stmt', 'cond'):
                continue
            for x in walk(n.ast):
                if x.get('k') == 'Bin' and x.get('op') == '=':
                    l = strip_casts(x['lhs'])
                    if l is not None and l.get('k') == 'Un' and l.get('op') == '*' and _is_bufpos(l['e']):
                        stores.append((n, 'store', x))
                    elif _is_bufpos(l):
                        rhs = strip_casts(x['rhs'])
                        if not (rhs is not None and rhs.get('k') == 'Member' and rhs.get('m') == 'm_buffer'):
                            stores.append((n, 'move', x))
                elif x.get('k') in ('Call', 'MCall', 'OpCall') and x.get('k') != 'OpCall':
                    nm = x.get('n') or callee(x).split('::')[-1]
                    if nm in ('flushBuffer',):
                        continue
                    if any(_mentions_bufpos(arg) for arg in x.get('args', [])) and not (a is not None and name == 'flushBuffer'):
                        stores.append((n, 'call', x))
        if name == 'flushBuffer':
            r.ok('%s hands the buffer to the stream' % sig(a))
            continue
        if a is unit:
            pid = a['params'][0]['id']
            if not stores:
                r.violation(sig(a), 'does not store into the buffer any more: the discipline this rule checks has moved', common.file_line(a))
            for n, kind, x in stores:
                if kind != 'store':
                    r.violation(sig(a), 'writes the buffer through %s' % pp(x)[:80], common.file_line(a, x)); continue
                val = strip_casts(x['rhs'])
                guarded = any(_pred_on(at, br, pid) for at, br in must.get(n.id, []))
                if val is not None and val.get('k') == 'Ref' and val.get('id') == pid and guarded:
                    r.ok('%s stores its parameter under m_predicate' % sig(a))
                else:
                    r.violation(sig(a), 'stores %s into the buffer %s: a code unit reaches the transcoder without the representability test' %
                                (pp(val)[:40], 'outside the true branch of m_predicate(%s)' % a['params'][0].get('n', 'parameter') if not guarded else 'which is not its parameter'),
                                common.file_line(a, x))
            # the failure branch
            refs = [c for n, c in common.find_call_nodes(cfg, 'writeNumericCharacterReference')]
            if refs:
                r.ok('%s writes a character reference otherwise' % sig(a))
            else:
                r.violation(sig(a) + ' failure branch', 'no character reference is written for a unit the encoding cannot represent', common.file_line(a))
            continue
        if a is point:
            pid = a['params'][0]['id']
            for n, kind, x in stores:
                if kind != 'store':
                    r.violation(sig(a), 'writes the buffer through %s' % pp(x)[:80], common.file_line(a, x)); continue
                ids = {y.get('id') for y in walk(x['rhs']) if y.get('k') == 'Ref' and y.get('d') in ('param', 'local')}
                if ids <= {pid}:
                    r.ok('%s stores (a half of) its parameter' % sig(a))
                else:
                    r.violation(sig(a), 'stores %s, which is not derived from its parameter alone' % pp(x['rhs'])[:60], common.file_line(a, x))
            continue
        if name == 'writeNumericCharacterReference':
            # the reference itself ('&#NNN;', ASCII) is copied in one piece: the source must be what formatNumericCharacterReference made of the parameter
            srcs = {}
            for y in walk(a['body']):
                if y.get('k') == 'Decl':
                    for v in y['vars']:
                        ini = strip_casts(v['init']) if v.get('init') is not None else None
                        if ini is not None and ini.get('k') in ('Call', 'MCall') and (ini.get('n') or callee(ini).split('::')[-1]) == 'formatNumericCharacterReference':
                            srcs[v['id']] = v['n']
            for n, kind, x in stores:
                c = x if kind == 'call' else next((z for z in walk(x) if z.get('k') in ('Call', 'MCall') and any(_mentions_bufpos(g) for g in z.get('args', []))), None)
                ids = set()
                if c is not None:
                    for g in c.get('args', [])[:-1]:
                        ids |= {z.get('id') for z in walk(g) if z.get('k') == 'Ref' and z.get('d') in ('local', 'param')}
                if c is not None and ids and ids <= set(srcs):
                    r.ok('%s copies the formatted reference' % sig(a))
                else:
                    r.violation(sig(a), 'fills the buffer through %s, whose source is not the result of formatNumericCharacterReference' % pp(x)[:70], common.file_line(a, x))
            if not stores:
                r.violation(sig(a), 'does not write the reference into the buffer any more: the discipline this rule checks has moved', common.file_line(a))
            continue
        if stores:
            # a member other than the two single-character writers fills the buffer.  Caller-supplied characters with no m_predicate test anywhere in the member: a violation.
            # Anything else (constants of the class, tested data) is a discipline this rule does not know: neither pass nor violation.
            pids = {p['id'] for p in a['params']}
            tested = any(n2.kind == 'cond' and n2.ast is not None and any(z.get('k') == 'Member' and z.get('m') == 'm_predicate' for z in walk(n2.ast)) for n2 in cfg.nodes)
            n, kind, x = stores[0]
            src = x['rhs'] if kind in ('store', 'move') else {'k': 'Seq', 'c': x.get('args', [])[:-1]}
            ids = set()
            for g in ([src] if kind != 'call' else x.get('args', [])[:-1]):
                ids |= {z.get('id') for z in walk(g) if z.get('k') == 'Ref' and z.get('d') == 'param'}
            if ids & pids and not tested:
                r.violation(sig(a), '%s: the caller\'s code units go into the transcoding buffer without passing write(XalanDOMChar) / write(XalanUnicodeChar) and without any '
                            'm_predicate test, that is without the representability test' % ('stores ' + pp(x)[:70] if kind == 'store' else 'fills the buffer through ' + pp(x)[:70]),
                            common.file_line(a, x))
            else:
                raise AnalysisBroken('%s: %s writes the transcoding buffer in a way this rule has no discipline for (%s)' % (rid, sig(a), pp(x)[:70]))
        if not stores:
            r.ok('%s does not touch the buffer' % sig(a))
        # calls of the private code-point writer
        for n in cfg.nodes:
            if n.ast is None or n.kind not in ('stmt', 'cond'):
                continue
            for c in calls(n.ast):
                if c.get('usr') != point.get('usr'):
                    continue
                arg = strip_casts(c['args'][0]) if c.get('args') else None
                if arg is not None and arg.get('k') == 'Ref' and any(_pred_on(at, br, arg.get('id')) for at, br in must.get(n.id, [])):
                    r.ok('%s calls write(XalanUnicodeChar) under m_predicate(%s)' % (sig(a), arg.get('n')))
                else:
                    r.violation('%s -> write(XalanUnicodeChar)' % sig(a), 'the code point %s is written without m_predicate(%s) on every path to the call' % (pp(arg)[:40], pp(arg)[:40]),
                                common.file_line(a, c))
        # a failure functor or reference on the other branch of every m_predicate test
        for n in cfg.nodes:
            if n.kind == 'cond' and n.ast is not None:
                core, eff = common.norm_atom(n.ast, True)
                if core is not None and core.get('k') == 'OpCall' and core.get('op') == '()' and strip_casts(core['args'][0]).get('m') == 'm_predicate':
                    fb = n.cond_false if eff else n.cond_true
                    seen, todo, ok = set(), [fb], False
                    while todo:
                        y = todo.pop()
                        if y is None or y.id in seen:
                            continue
                        seen.add(y.id)
                        if y.ast is not None and any((c.get('n') or callee(c).split('::')[-1]) in ('writeNumericCharacterReference',) or
                                                     (c.get('k') == 'OpCall' and c.get('op') == '()' and strip_casts(c['args'][0]).get('k') == 'Ref')
                                                     for c in list(calls(y.ast)) + [z for z in walk(y.ast) if z.get('k') == 'OpCall']):
                            ok = True; break
                        if len(seen) < 40 and y.kind not in ('exit', 'throw'):
                            todo += list(y.succ)
                    if ok:
                        r.ok('%s: the failure branch of m_predicate writes a reference or calls the failure functor' % sig(a))
                    else:
                        r.violation('%s failure branch' % sig(a), 'a code point that fails m_predicate is neither written as a reference nor reported', common.file_line(a, n.ast))
    return r


def run_c08_rule(res, facts, tier):
    return run_rule(res, facts, tier, 'C08-R7')
