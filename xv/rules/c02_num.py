"""C02-R16 — which strings are numbers.  DoubleSupport's doValidate (with consumeWhitespace / consumeNumbers) decides whether number(string) is NaN; it is interpreted on
every string of up to 6 characters over {space, tab, -, ., 1, 0, e, +} and must accept exactly  S? '-'? (Digits ('.' Digits?)? | '.' Digits) S?  (XPath 1.0 4.4).  The
second result, "a decimal point was seen", selects the conversion routine and must be exact as well.  The conversion itself (strtol / atof) is library code."""
import itertools, re
from ..build import AnalysisBroken
from ..mast import Machine, Unsupported, callee, strip_casts, pp
from . import common
from .c02_str import Ptr

NUMBER = re.compile(r'^[ \t\r\n]*-?(\d+(\.\d*)?|\.\d+)[ \t\r\n]*$')


class NMach(Machine):
    def __init__(self, world, env):
        super().__init__(env, call_hook=world.hook)
        self.world = world
        self.fuel = 2000

    def ev(self, e):
        k = e['k']
        if k == 'Un' and e['op'] == '*':
            v = self.ev(e['e'])
            return v.at() if isinstance(v, Ptr) else v
        if k == 'Cast' and e.get('ck') in ('PointerToBoolean', 'IntegralToBoolean'):
            v = self.ev(e['e'])
            return int(isinstance(v, Ptr) or bool(v))
        return super().ev(e)


class NWorld:
    def __init__(self, facts):
        self.facts = facts
        self.depth = 0

    def hook(self, m, c):
        n = c.get('n') or callee(c).split('::')[-1]
        if n == '__assert_fail':
            raise Unsupported('assertion fails')
        if n == 'isXMLWhitespace':
            v = m.ev(c['args'][0])
            return int(v in (0x20, 0x9, 0xD, 0xA))
        if c['k'] == 'Call' and c.get('usr'):
            a = self.facts.ast(c['usr'])
            if a is not None and a.get('body') is not None and a['file'].endswith('DoubleSupport.cpp'):
                args = [m.ev(x) for x in c['args']]
                env = {p['id']: v for p, v in zip(a['params'], args)}
                self.depth += 1
                if self.depth > 6:
                    raise Unsupported('depth')
                try:
                    sub = NMach(self, env)
                    sub.fuel = m.fuel
                    r = sub.call(a['body'])
                    for p, x in zip(a['params'], c['args']):
                        ty = p.get('ty', '')
                        if ty.rstrip().endswith('&') and not ty.lstrip().startswith('const xalanc') and '&' in ty:
                            t = strip_casts(x)
                            if t.get('k') == 'Ref' and t.get('d') in ('local', 'param'):
                                m.env[t['id']] = sub.env[p['id']]
                    return r
                finally:
                    self.depth -= 1
        return NotImplemented


def run_rule(res, facts, tier):
    r = res.rule('C02-R16', 'string to number: doValidate (DoubleSupport.cpp) interpreted on every string of up to 6 characters over {space, tab, -, ., 1, 0, e, +}: it accepts exactly '
                 "S? '-'? (Digits ('.' Digits?)? | '.' Digits) S? (XPath 1.0 4.4: everything else is NaN) and reports a decimal point exactly when there is one", floor=30000)
    cands = [a for a in facts.asts('doValidate', must=False) if a.get('body') is not None and len(a['params']) == 2 and a['file'].endswith('DoubleSupport.cpp')]
    if len(cands) != 1:
        raise AnalysisBroken('doValidate(string, bool&) in DoubleSupport.cpp: %d bodies' % len(cands))
    a = cands[0]
    w = NWorld(facts)
    alpha = ' \t-.10e+'
    maxlen = 6 if tier == 'thorough' else 5
    n = 0
    reported = 0
    for ln in range(1, maxlen + 1):
        for t in itertools.product(alpha, repeat=ln):
            s = ''.join(t)
            n += 1
            env = {a['params'][0]['id']: Ptr(s, 0), a['params'][1]['id']: 0}
            m = NMach(w, env)
            try:
                got = bool(m.call(a['body']))
                dot = bool(m.env[a['params'][1]['id']])
            except Unsupported as u:
                raise AnalysisBroken('doValidate outside the interpreted subset on %r: %s' % (s, u))
            want = bool(NUMBER.match(s))
            if got == want and (not want or dot == ('.' in s)):
                r.instances += 1
                continue
            reported += 1
            if reported <= 4:
                r.violation('number(%r)' % s, 'doValidate says %s%s; XPath 1.0 4.4: %s' % ('a number' if got else 'not a number', ' (decimal point %s)' % dot if got else '',
                                                                                         'a number' if want else 'NaN'), common.file_line(a))
            else:
                r.instances += 1
    r.note('%d strings' % n)
    return r
