"""C09-R9 — compile and match, end to end, by interpretation.

For predicate-free patterns (steps with name tests, `*`, text(), node(), `@name`, `@*`, separated by `/` and `//`, with or without a leading `/` or `//`, and unions of
those) the whole pipeline is interpreted from the parsed program: the pattern parser (XPathProcessorImpl::initMatchPattern ... AbbreviatedNodeTestStep) writing a *real*
op-code map through XPathExpression's own functions (appendOpCode, insertOpCode, updateOpCodeLength ...), and the matcher (XPath::getMatchScore, locationPathPattern,
stepPattern, NodeTester's constructor and test functions) reading it.  Nodes are abstract objects offering DOM navigation and names.  The verdict "node N matches pattern
P" must be the definition of XSLT 1.0 5.2: N has an ancestor-or-self A such that evaluating P as an expression with A as context selects N - computed by a small
reference evaluator.  Patterns that start with id() / key() are included with the call itself as a model (the node-set it selects).  Predicates other than literal positions are out of this
rule's reach: they need the expression interpreter (C09-R3, R4, R6 look at their handling)."""
import itertools
from ..build import AnalysisBroken
from ..mast import Unsupported, callee, strip_casts, pp
from ..facts import NS, short
from ..omach import OMachine, Obj, Vec, It, MemFn, Fault
from . import common
from .c12_order import TNode, AttrMap


class Reject(Exception):
    pass


class Tok:
    def __init__(self, s):
        self.s = s


FILES_OK = ('XPathProcessorImpl.cpp', 'XPathProcessorImpl.hpp', 'XPathExpression.cpp', 'XPathExpression.hpp', '/XPath/XPath.cpp', '/XPath/XPath.hpp', 'DOMServices.hpp',
            'XalanXMLChar.hpp', 'XToken.hpp')


class MWorld:
    def __init__(self, facts):
        self.facts = facts
        self.depth = 0
        self.calls = 0
        self.max_calls = 30000
        self._tables = {}
        self._strings = {}
        self.T = {k: facts.enumconst.get(NS + 'XalanNode::' + k) for k in ('ELEMENT_NODE', 'ATTRIBUTE_NODE', 'TEXT_NODE', 'DOCUMENT_NODE', 'COMMENT_NODE', 'PROCESSING_INSTRUCTION_NODE')}
        self.KIND = {'elem': 'ELEMENT_NODE', 'attr': 'ATTRIBUTE_NODE', 'text': 'TEXT_NODE', 'doc': 'DOCUMENT_NODE', 'comment': 'COMMENT_NODE', 'pi': 'PROCESSING_INSTRUCTION_NODE'}
        self.entry = {}
        for nm in ('s_axisTable', 's_nodeTypeTable', 's_functionTable'):
            t = facts.table('XPathProcessorImpl::' + nm, must=False)
            if t is None:
                raise AnalysisBroken('XPathProcessorImpl::%s not found' % nm)
            self.entry[nm] = {self.chars(r[0]): (r[1]['v'] if isinstance(r[1], dict) else r[1]) for r in facts.resolve(t['val'])}
        self.ENDOP = facts.enumconst.get(NS + 'XPathExpression::eENDOP')
        self.doc = None

    def chars(self, v):
        if isinstance(v, dict):
            if v.get('val') is not None:
                return self.chars(v['val'])
            if 'ref' in v:
                t = self.facts.TB.get(v['ref'])
                return self.chars(self.facts.resolve(t['val'])) if t is not None else None
            return None
        if isinstance(v, list):
            out = ''
            for c in v:
                c = c.get('val', c.get('v')) if isinstance(c, dict) else c
                if c == 0:
                    break
                if not isinstance(c, int):
                    return None
                out += chr(c)
            return out
        return None

    def tables(self, q):
        if q not in self._tables:
            t = self.facts.table(q, must=False)
            self._tables[q] = None if t is None else [(x.get('v', x.get('val')) if isinstance(x, dict) else x) for x in self.facts.resolve(t['val'])]
        return self._tables[q]

    def glob(self, name):
        n = name.split('::')[-1]
        if n in ('s_emptyString',):
            return ''
        if name not in self._strings:
            t = self.facts.table(name, must=False)
            s = None
            if t is not None and 'char16_t' in (t.get('type') or ''):
                s = self.chars(self.facts.resolve(t['val']))
            self._strings[name] = s
        if self._strings[name] is not None:
            return self._strings[name]
        if n in self.entry:
            return ('TABLE', n)
        if n.endswith('TableSize') or n.endswith('ArraySize'):
            t = self.tables(name.replace('Size', ''))
            return len(t) if t else 0
        if n == 'npos':
            return 2 ** 64 - 1
        if n in ('PSEUDONAME_ANY', 'PSEUDONAME_NODE', 'PSEUDONAME_TEXT', 'PSEUDONAME_ROOT'):
            return {'PSEUDONAME_ANY': '*', 'PSEUDONAME_NODE': 'node()', 'PSEUDONAME_TEXT': 'text()', 'PSEUDONAME_ROOT': '/'}[n]
        return ('GLOBAL', n)

    def allow(self, body, c):
        f = body['file']
        return any(f.endswith(x) for x in FILES_OK)

    def member(self, m, tgt, e):
        return NotImplemented

    def hook(self, m, c):
        k = c['k']
        n = c.get('n') or (callee(c).split('::')[-1] if c.get('fn') != '<memptr>' else '<memptr>')
        cls = c.get('cls') or ''
        fn = c.get('fn') or ''
        if k == 'Ctor':
            if cls.endswith('XToken'):
                a = [m.ev(x) for x in c.get('args', [])]
                s = [x for x in a if isinstance(x, str)]
                t = Tok(s[0] if s else '')
                nums = [x for x in a if isinstance(x, float)]
                if nums:
                    t.num = nums[0]
                return t
            if 'OpCodeMapValueVectorType' in (c.get('ty') or '') or 'XalanVector' in cls:
                a = [m.ev(x) for x in c.get('args', [])]
                if len(a) >= 2 and isinstance(a[0], int) and isinstance(a[1], int):
                    return Vec([a[1]] * a[0])
                return Vec([])
            if 'GetCachedString' in cls or cls.endswith('XalanDOMString'):
                return ''
            if cls.endswith('NodeTester') and len(c.get('args', [])) >= 5:
                body = self.facts.ast(c['usr']) if c.get('usr') else None
                if body is None or body.get('body') is None:
                    raise Unsupported('NodeTester constructor has no body')
                o = Obj(NS + 'XPath::NodeTester', {'m_executionContext': 0, 'm_targetNamespace': 0, 'm_targetLocalName': 0, 'm_testFunction': None, 'm_testFunction2': None})
                for ini in body.get('inits', []) or []:
                    pass
                m.run_body(body, [m.ev(x) for x in c['args']], o, c)
                return o
            return NotImplemented
        if k == 'MCall':
            if n == 'error' and cls.endswith('XPathProcessorImpl'):
                raise Reject(pp(c['args'][0])[:60] if c.get('args') else 'error')
            if n == 'tokenize' and cls.endswith('XPathProcessorImpl'):
                # the tokenizer is C02-R15's business: deliver the tokens the way it would
                q = m.this.fields['m_expression'].fields['m_tokenQueue']
                q.items[:] = [Tok(t) for t in self.pending]
                return 0
            if n == 'replaceTokenWithNamespaceToken':
                raise Unsupported('prefixed names are outside this rule')
            if n == 'problem':
                raise Reject('problem')
            tgt = m.target_obj(c)
            if isinstance(tgt, Tok):
                if n == 'str':
                    return tgt.s
                if n == 'num':
                    return 0.0
                if n == 'set':
                    vals = [m.ev(y) for y in c['args']]
                    tgt.s = [x for x in vals if isinstance(x, str)][0]
                    nums = [x for x in vals if isinstance(x, float)]
                    if nums:
                        tgt.num = nums[0]
                    tgt.is_string = isinstance(vals[0], str)        # set(string, number) makes a string token, set(number, string) a number token
                    return 0
            if isinstance(tgt, TNode):
                return self.node_method(m, tgt, n, c)
            if isinstance(tgt, AttrMap):
                if n == 'getLength':
                    return len(tgt.owner.attrs)
                if n == 'item':
                    i = int(m.ev(c['args'][0]))
                    return tgt.owner.attrs[i] if 0 <= i < len(tgt.owner.attrs) else 0
            if isinstance(tgt, str) and cls.endswith('XalanDOMString'):
                if n == 'clear':
                    m.assign(strip_casts(c['obj']), '')
                    return 0
                if n == 'assign':
                    a = [m.ev(x) for x in c['args']]
                    m.assign(strip_casts(c['obj']), a[0] if len(a) == 1 else a[0][a[1]:a[1] + a[2]])
                    return 0
            if n in ('getPooledString',):
                v = m.ev(c['args'][0])
                if len(c['args']) == 2 and isinstance(v, str):
                    return v[:int(m.ev(c['args'][1]))]
                return v
            if n == 'get' and 'GetCachedString' in cls:
                return ''
            if n in ('getMemoryManager',):
                return 'MM'
            if n == 'shouldStripSourceNode':
                return 0
            if n in ('getPrefixResolver', 'getCurrentNode', 'getLocator'):
                return 0
            if n == 'nameToID':
                return 1
            if tgt in ('CCTX', 'ECTX', 'RES'):
                return 0
        if k == 'Call':
            if n == 'equals' and len(c['args']) == 2:
                a, b = m.ev(c['args'][0]), m.ev(c['args'][1])
                return int(a == b)
            if n == 'searchTable':
                t, key = m.ev(c['args'][0]), m.ev(c['args'][2])
                if isinstance(t, tuple) and t[0] == 'TABLE':
                    return {'m_opCode': self.entry[t[1]].get(key, self.ENDOP), 'm_string': key}
            if n == 'isInstalledFunction':
                return 0
            if n == 'toDouble':
                return 0.0
            if n in ('NumberToDOMString', 'getMessage'):
                return 0
            if n in ('getLocalNameOfNode', 'getNameOfNode'):
                nd = m.ev(c['args'][0])
                return nd.local if isinstance(nd, TNode) else ''
            if n == 'getNamespaceOfNode':
                return ''
            if n == 'isNamespaceDeclaration':
                return 0
            if n in ('isXMLWhitespace',):
                return int(m.ev(c['args'][0]) in (32, 9, 10, 13))
        if k == 'OpCall' and c.get('op') in ('==', '!=') and len(c['args']) == 2:
            a, b = m.ev(c['args'][0]), m.ev(c['args'][1])
            if isinstance(a, str) or isinstance(b, str):
                return int((a == b) == (c['op'] == '=='))
        return NotImplemented

    def node_method(self, m, nd, n, c):
        if n == 'getNodeType':
            return self.T[self.KIND[nd.kind]]
        if n == 'getParentNode':
            return 0 if nd.kind == 'attr' or nd.parent is None else nd.parent
        if n == 'getOwnerElement':
            return nd.parent if nd.kind == 'attr' else 0
        if n == 'getFirstChild':
            return nd.children[0] if nd.children else 0
        if n == 'getLastChild':
            return nd.children[-1] if nd.children else 0
        if n in ('getNextSibling', 'getPreviousSibling'):
            if nd.kind == 'attr' or nd.parent is None:
                return 0
            sib = nd.parent.children
            i = sib.index(nd) + (1 if n == 'getNextSibling' else -1)
            return sib[i] if 0 <= i < len(sib) else 0
        if n == 'getAttributes':
            return AttrMap(nd) if nd.kind == 'elem' else 0
        if n == 'getOwnerDocument':
            return 0 if nd.kind == 'doc' else self.doc
        if n in ('getLocalName', 'getNodeName'):
            return nd.local
        if n == 'getNamespaceURI':
            return ''
        if n == 'isIndexed':
            return 0
        raise Unsupported('node method ' + n)


NPOS = 2 ** 64 - 1


class NList:
    identity = True

    def __init__(self):
        self.items = []
        self.flag = 'unknown'


class PWorld(MWorld):
    idset = None        # the nodes id('k') / key('k', 'v') select, for patterns that start with a function call

    def hook(self, m, c):
        k = c['k']
        n = c.get('n') or (callee(c).split('::')[-1] if c.get('fn') != '<memptr>' else '<memptr>')
        cls = c.get('cls') or ''
        if self.idset is not None:
            if k == 'Call' and n == 'isInstalledFunction':
                return int(m.ev(c['args'][0]) in ('id', 'key'))
            if k == 'MCall' and n == 'nameToID':
                return {'id': 1, 'key': 2}.get(m.ev(c['args'][0]), -1)
            if k == 'MCall' and n == 'executeMore' and len(c.get('args', [])) == 3 and (strip_casts(c.get('obj')) or {}).get('k') == 'This' and isinstance(m.this, Obj) and m.this.cls.endswith('XPath'):
                ops = m.this.fields['m_expression'].fields['m_opMap'].items
                pos = m.ev(c['args'][1])
                if isinstance(pos, It):
                    ops, pos = pos.vec.items, pos.i
                if isinstance(pos, int) and 0 <= pos < len(ops) and ops[pos] == self.facts.enumconst.get(NS + 'XPathExpression::eOP_FUNCTION'):
                    # the call itself (FunctionID / FunctionKey, C12-R9's and C02's business): the node-set it selects, in document order
                    nl = NList()
                    nl.items = list(self.idset)
                    nl.flag = 'document'
                    return ('XOBJ', 'nodeset', nl)
            if k == 'MCall':
                tgt0 = m.target_obj(c)
                if isinstance(tgt0, tuple) and tgt0 and tgt0[0] == 'XOBJ' and tgt0[1] == 'nodeset' and n == 'nodeset':
                    return tgt0[2]
        if k == 'Ctor' and ('BorrowReturnMutableNodeRefList' in cls or 'GetCachedNodeList' in cls):
            return NList()
        if k == 'Ctor' and ('PushAndPop' in cls or 'SetAndRestore' in cls):
            return 'GUARD'      # context node list / current node bookkeeping: read by position() and last() only, which predicate-free paths do not call
        if k == 'OpCall' and c.get('op') in ('*', '->') and len(c['args']) == 1:
            v = m.ev(c['args'][0])
            if isinstance(v, NList):
                return v
        if k == 'MCall':
            tgt = m.target_obj(c)
            if isinstance(tgt, NList):
                a = c.get('args', [])
                if n == 'get':
                    return tgt
                if n == 'addNode':
                    tgt.items.append(m.ev(a[0])); return 0
                if n == 'addNodeInDocOrder':
                    nd = m.ev(a[0])
                    if nd not in tgt.items:
                        tgt.items.append(nd); tgt.items.sort(key=lambda x: x.order)
                    return 0
                if n == 'addNodesInDocOrder':
                    o = m.ev(a[0])
                    for nd in o.items:
                        if nd not in tgt.items:
                            tgt.items.append(nd)
                    tgt.items.sort(key=lambda x: x.order)
                    return 0
                if n == 'setDocumentOrder':
                    tgt.flag = 'document'; return 0
                if n == 'setReverseDocumentOrder':
                    tgt.flag = 'reverse'; return 0
                if n == 'getDocumentOrder':
                    return int(tgt.flag == 'document')
                if n == 'getReverseDocumentOrder':
                    return int(tgt.flag == 'reverse')
                if n == 'empty':
                    return int(not tgt.items)
                if n == 'getLength':
                    return len(tgt.items)
                if n == 'item':
                    i = int(m.ev(a[0]))
                    if not (0 <= i < len(tgt.items)):
                        raise Fault('item(%d) of a list of %d' % (i, len(tgt.items)))
                    return tgt.items[i]
                if n == 'indexOf':
                    nd = m.ev(a[0])
                    return tgt.items.index(nd) if nd in tgt.items else NPOS
                if n == 'clear':
                    tgt.items = []; tgt.flag = 'unknown'; return 0
                if n == 'swap':
                    o = m.ev(a[0])
                    tgt.items, o.items = o.items, tgt.items
                    tgt.flag, o.flag = o.flag, tgt.flag
                    return 0
                if n == 'reverse':
                    tgt.items.reverse()
                    tgt.flag = {'document': 'reverse', 'reverse': 'document'}.get(tgt.flag, tgt.flag)
                    return 0
                if n == 'setNode':
                    i = int(m.ev(a[0]))
                    if not (0 <= i < len(tgt.items)):
                        raise Fault('setNode(%d) of a list of %d' % (i, len(tgt.items)))
                    tgt.items[i] = m.ev(a[1]); return 0
                if n == 'clearNulls':
                    tgt.items = [x for x in tgt.items if isinstance(x, TNode)]; return 0
                raise Unsupported('node list method ' + n)
            if n == 'getOwnerDocument' and isinstance(tgt, TNode):
                return 0 if tgt.kind == 'doc' else self.doc
            if n == 'getDocumentElement' and isinstance(tgt, TNode):
                return next((x for x in tgt.children if x.kind == 'elem'), 0)
        if k == 'Call' and n == 'toDouble':
            v = m.ev(c['args'][0])
            try:
                return float(v)
            except (TypeError, ValueError):
                return float('nan')
        if k == 'Ctor' and 'PushAndPop' in cls:
            return 'GUARD'
        if k == 'MCall':
            tgt = m.target_obj(c)
            if n == 'getXObjectFactory':
                return 'FACTORY'
            if tgt == 'FACTORY' and n == 'createNumber':
                v = m.ev(c['args'][0])
                return ('XOBJ', 'number', float(getattr(v, 'num', None) if isinstance(v, Tok) and getattr(v, 'num', None) is not None else (v.s if isinstance(v, Tok) else v)))
            if isinstance(tgt, tuple) and tgt and tgt[0] == 'XOBJ':
                if n == 'getType':
                    return self.facts.enumconst.get(NS + 'XObject::eTypeNumber') if tgt[1] == 'number' else -99
                if n == 'num':
                    return tgt[2]
                if n == 'boolean':
                    return int(tgt[2] == tgt[2] and tgt[2] != 0)
                if n in ('get', 'null'):
                    return tgt if n == 'get' else 0
        if k == 'Ctor' and 'XObjectPtr' in cls and len(c.get('args', [])) == 1:
            return m.ev(c['args'][0])
        if k == 'OpCall' and c.get('op') in ('->', '*') and len(c['args']) == 1:
            v = m.ev(c['args'][0])
            if isinstance(v, tuple) and v and v[0] == 'XOBJ':
                return v
        return super().hook(m, c)



# ------------------------------------------------------------------------------------------------------------------ trees and patterns
def tree():
    """<a x=".." y=".."><b x=".."><a><b/>text</a></b><a/>text<b><b y=".."/></b></a> : names repeat at several depths"""
    def mk(kind, local, parent):
        nd = TNode(kind, local)
        nd.local = local
        nd.parent = parent
        if parent is not None and kind != 'attr':
            parent.children.append(nd)
        elif parent is not None:
            parent.attrs.append(nd)
        return nd
    doc = mk('doc', '', None)
    a0 = mk('elem', 'a', doc)
    mk('attr', 'x', a0); mk('attr', 'y', a0)
    b1 = mk('elem', 'b', a0); mk('attr', 'x', b1)
    a2 = mk('elem', 'a', b1)
    mk('elem', 'b', a2); mk('text', '', a2)
    mk('elem', 'a', a0)
    mk('text', '', a0)
    b3 = mk('elem', 'b', a0)
    b4 = mk('elem', 'b', b3); mk('attr', 'y', b4)
    nodes = []

    def walk(n):
        nodes.append(n)
        for x in n.attrs:
            nodes.append(x)
        for ch in n.children:
            walk(ch)
    walk(doc)
    for i, n in enumerate(nodes):
        n.order = i
        n.name = path(n)
    return doc, nodes


def path(n):
    if n.kind == 'doc':
        return '/'
    p = path(n.parent).rstrip('/')
    if n.kind == 'attr':
        return p + '/@' + n.local
    if n.kind == 'text':
        return p + '/text()'
    sib = [x for x in n.parent.children if x.kind == 'elem' and x.local == n.local]
    return '%s/%s[%d]' % (p, n.local, sib.index(n) + 1)


STEPS = [['a'], ['b'], ['*'], ['@', 'x'], ['@', '*'], ['text', '(', ')'], ['node', '(', ')'], ['@', 'node', '(', ')']]
# steps with a literal position predicate: the matcher evaluates the step from the parent (handleFoundIndexPositional -> XPath::step) and looks for the node
INDEXED_STEPS = [['a', '[', '1', ']'], ['b', '[', '2', ']'], ['*', '[', '2', ']'], ['node', '(', ')', '[', '1', ']'], ['@', '*', '[', '2', ']'], ['*', '[', '1', ']', '[', '1', ']'],
                 ['*', '[', '3', ']'], ['text', '(', ')', '[', '1', ']']]


PRED_STEPS = [['*', '[', '@', 'x', ']', '[', '1', ']'], ['*', '[', 'not', '(', '@', 'x', ')', ']', '[', '1', ']'], ['*', '[', 'not', '(', '@', 'x', ')', ']', '[', '2', ']'],
              ['b', '[', 'not', '(', '@', 'x', ')', ']', '[', '1', ']'], ['*', '[', '2', ']', '[', 'not', '(', '@', 'x', ')', ']'], ['node', '(', ')', '[', 'not', '(', '@', 'x', ')', ']', '[', '2', ']'],
              ['*', '[', 'not', '(', '@', 'y', ')', ']', '[', '1', ']']]


def patterns(maxsteps):
    out = [['/']]
    for k in range(1, maxsteps + 1):
        for steps in itertools.product(STEPS, repeat=k):
            # an attribute or text step can only be the last one to be able to match anything, but the grammar allows it anywhere: keep them all
            for seps in itertools.product(['/', '//'], repeat=k - 1):
                body = list(steps[0])
                for s, st in zip(seps, steps[1:]):
                    body += (['/'] if s == '/' else ['/', '/']) + list(st)
                for lead in ([], ['/'], ['/', '/']):
                    out.append(lead + body)
    return out


EXPLICIT_STEPS = [['child', '::', 'a'], ['child', '::', 'b'], ['child', '::', '*'], ['child', '::', 'node', '(', ')'], ['child', '::', 'text', '(', ')'], ['attribute', '::', 'x'],
                  ['attribute', '::', '*']]


def step_matches(step, n):
    # the axis written out: child::T is T, attribute::T is @T (XSLT 1.0 5.2: the only two axes a pattern step may name)
    if step[:2] == ['child', '::']:
        step = step[2:]
    elif step[:2] == ['attribute', '::']:
        step = ['@'] + step[2:]
    if '[' in step:
        i = step.index('[')
        base = step[:i]
        groups, cur, depth = [], [], 0
        for t in step[i:]:
            if t == '[':
                depth += 1
                if depth == 1:
                    cur = []; continue
            if t == ']':
                depth -= 1
                if depth == 0:
                    groups.append(cur); continue
            cur.append(t)
        if not step_matches(base, n) or n.parent is None:
            return False
        sibs = [x for x in (n.parent.attrs if n.kind == 'attr' else n.parent.children) if step_matches(base, x)]
        for g in groups:
            # each predicate filters what the one before it kept, and numbers it anew (XPath 1.0 2.4)
            if len(g) == 1 and g[0].isdigit():
                k = int(g[0])
                sibs = [sibs[k - 1]] if 1 <= k <= len(sibs) else []
            elif len(g) == 2 and g[0] == '@':
                sibs = [x for x in sibs if any(a.local == g[1] for a in x.attrs)]
            elif len(g) == 5 and g[:3] == ['not', '(', '@'] and g[4] == ')':
                sibs = [x for x in sibs if not any(a.local == g[3] for a in x.attrs)]
            else:
                raise KeyError(step)
        return n in sibs
    if step and step[0] in ('id', 'key') and step[1:2] == ['(']:
        return bool(getattr(n, 'isid', False))          # the call selects the marked nodes, whatever the context
    if step == ['a'] or step == ['b']:
        return n.kind == 'elem' and n.local == step[0]
    if step == ['*']:
        return n.kind == 'elem'
    if step == ['@', 'x']:
        return n.kind == 'attr' and n.local == 'x'
    if step == ['@', '*']:
        return n.kind == 'attr'
    if step == ['text', '(', ')']:
        return n.kind == 'text'
    if step == ['node', '(', ')']:
        return n.kind in ('elem', 'text', 'comment', 'pi')          # child::node(): any child node (no attributes, not the root)
    if step == ['comment', '(', ')']:
        return n.kind == 'comment'
    if step == ['processing-instruction', '(', ')']:
        return n.kind == 'pi'
    if step == ['@', 'node', '(', ')']:
        return n.kind == 'attr'
    if len(step) == 2 and step[0] == '@' and step[1].isalpha():
        return n.kind == 'attr' and n.local == step[1]
    if len(step) == 1 and step[0].isalpha():
        return n.kind == 'elem' and n.local == step[0]
    raise KeyError(step)


def split(tokens):
    """tokens of one alternative -> (lead, [(sep, step)])"""
    i = 0
    lead = ''
    if tokens[:2] == ['/', '/']:
        lead, i = '//', 2
    elif tokens[:1] == ['/']:
        lead, i = '/', 1
    steps = []
    sep = None
    cur = []
    while i < len(tokens):
        if tokens[i] == '/':
            steps.append((sep, cur)); cur = []
            if tokens[i + 1:i + 2] == ['/']:
                sep, i = '//', i + 2
            else:
                sep, i = '/', i + 1
            continue
        cur.append(tokens[i]); i += 1
    if cur:
        steps.append((sep, cur))
    return lead, steps


def ref_match(tokens, n):
    """XSLT 1.0 5.2 by the definition: right-to-left with full backtracking"""
    lead, steps = split(tokens)
    if not steps:
        return n.kind == 'doc'          # the pattern '/'

    def go(i, node):
        # node has matched step i; check what is to the left
        if i == 0:
            p = node.parent
            if lead == '/':
                return p is not None and p.kind == 'doc'
            return True                  # relative pattern or leading '//': any ancestor chain up to the root will do
        sep = steps[i][0]
        p = node.parent
        if sep == '/':
            return p is not None and step_matches(steps[i - 1][1], p) and go(i - 1, p)
        while p is not None:
            if step_matches(steps[i - 1][1], p) and go(i - 1, p):
                return True
            p = p.parent
        return False
    return step_matches(steps[-1][1], n) and go(len(steps) - 1, n)


def known_model(tokens, n):
    """the two recorded deviations of stepPattern (C09-R5): the ancestor search for a step followed by '//' commits to the nearest ancestor that passes the node test, and
    the root step of a rooted pattern climbs to the document when the step to its right is followed by '//'"""
    lead, steps = split(tokens)
    if not steps:
        return n.kind == 'doc'

    def go(i, node):
        if i == 0:
            p = node.parent
            if lead == '/':
                if len(steps) > 1 and steps[1][0] == '//':
                    return True
                return p is not None and p.kind == 'doc'
            return True
        sep = steps[i][0]
        p = node.parent
        if sep == '/':
            return p is not None and step_matches(steps[i - 1][1], p) and go(i - 1, p)
        while p is not None:
            if step_matches(steps[i - 1][1], p):
                return go(i - 1, p)
            p = p.parent
        return False
    return step_matches(steps[-1][1], n) and go(len(steps) - 1, n)


def run_rule(res, facts, tier):
    r = res.rule('C09-R9', 'compile and match end to end by interpretation: for predicate-free patterns of up to 3 steps (name tests, *, text(), node(), @x, @*, @node(); / and //; '
                 'relative, rooted and //-rooted) the pattern parser writing a real op-code map and the matcher reading it are interpreted on every node of a tree in which '
                 'names repeat at several depths; "matches" is exactly the definition of XSLT 1.0 5.2', floor=4000)
    w = PWorld(facts)

    def one(name, pred=lambda a: True):
        c = [a for a in facts.asts(name, must=False) if a.get('body') is not None and pred(a)]
        if len(c) != 1:
            raise AnalysisBroken('%s: %d bodies' % (name, len(c)))
        return c[0]
    init = one('XPathProcessorImpl::initMatchPattern')
    gms = one('XPath::getMatchScore', lambda a: len(a['params']) == 2)
    NONE = facts.enumconst.get(NS + 'XPath::eMatchScoreNone')
    doc, nodes = tree()
    w.doc = doc
    pats = patterns(3 if tier == 'thorough' else 2)
    for st in INDEXED_STEPS:
        for lead in ([], ['/'], ['/', '/']):
            pats.append(lead + st)
        for s1 in (['a'], ['*'], ['b']):
            for sep in (['/'], ['/', '/']):
                pats.append(s1 + sep + st)
                pats.append(st + sep + s1)
                pats.append(['/', '/'] + st + sep + s1)
    if tier != 'thorough':
        pats += [p for i, p in enumerate(patterns(3)) if i % 9 == 0]
    # steps with the axis written out, in every position of two- and three-step patterns
    plain = [['a'], ['b'], ['*'], ['text', '(', ')'], ['@', 'x']]
    for ex in EXPLICIT_STEPS:
        for lead in ([], ['/'], ['/', '/']):
            pats.append(lead + ex)
        for other in plain + EXPLICIT_STEPS[:2]:
            for sep in (['/'], ['/', '/']):
                pats.append(ex + sep + other)
                pats.append(other + sep + ex)
                pats.append(['/', '/'] + ex + sep + other)
        for s1, s3 in (( ['a'], ['b']), (['b'], ['a']), (['*'], ['text', '(', ')'])):
            for sep1, sep2 in itertools.product((['/'], ['/', '/']), repeat=2):
                if tier == 'thorough' or (sep1, sep2) != (['/'], ['/']):
                    pats.append(s1 + sep1 + ex + sep2 + s3)
    # patterns that start with id() / key() (XSLT 1.0 5.2: IdKeyPattern, alone or followed by / or // and steps); the call selects two marked elements, one of which
    # has element children, an attribute and a grandchild, so that children, attributes and deeper descendants of a selected node all occur
    ids = [nd for nd in nodes if nd.name in ('/a[1]/b[1]', '/a[1]/b[2]')]
    if len(ids) != 2:
        raise AnalysisBroken('the tree of C09-R9 no longer has the two elements the function patterns select')
    for nd in ids:
        nd.isid = True
    w.idset = ids
    for fcall in (['id', '(', "'k'", ')'], ['key', '(', "'n'", ',', "'v'", ')']):
        pats.append(list(fcall))
        for st in STEPS + EXPLICIT_STEPS[:1] + INDEXED_STEPS[:2]:
            for sep in (['/'], ['/', '/']):
                pats.append(fcall + sep + st)
                for s2 in (['b'], ['*'], ['@', 'y'], ['text', '(', ')']):
                    for sep2 in (['/'], ['/', '/']):
                        if fcall[0] == 'id' or (sep, sep2) == (['/', '/'], ['/']):
                            pats.append(fcall + sep + st + sep2 + s2)
    # a boolean predicate before a position: the position counts what the first predicate kept (interpreted with the expression layer of C02-R19 for the predicate)
    for ps in PRED_STEPS:
        for lead in ([], ['/', '/']):
            pats.append(lead + ps)
        for s1 in (['a'], ['*']):
            for sep in (['/'], ['/', '/']):
                pats.append(s1 + sep + ps)
        pats.append(ps + ['/'] + ['b'])
        pats.append(ps + ['/', '/'] + ['@', 'y'])
    uniq, seen = [], set()
    for toks in pats:
        if tuple(toks) not in seen:
            seen.add(tuple(toks))
            uniq.append(toks)

    wplain = w
    from . import c02_expr
    wexpr = c02_expr.EWorld(facts)
    wexpr.doc = doc
    wexpr.idset = w.idset

    def work(part):
        found, families, viol = {}, {}, []
        cnt = {'n': 0, 'checks': 0}
        for toks in part:
            w = wexpr if any(t in ('not', '@') and '[' in toks[:j] and toks[:j].count('[') > toks[:j].count(']') for j, t in enumerate(toks)) else wplain
            expr = Obj(NS + 'XPathExpression', {'m_opMap': Vec([], 'ops'), 'm_lastOpCodeIndex': 0, 'm_tokenQueue': Vec([Tok(t) for t in toks], 'tokens'), 'm_currentPosition': 0,
                                                'm_currentPattern': '', 'm_numberLiteralValues': Vec([])})
            xp = Obj(NS + 'XPath', {'m_expression': expr, 'm_locator': 0, 'm_inStylesheet': 1})
            parser = Obj(NS + 'XPathProcessorImpl', {'m_token': '', 'm_tokenChar': 0, 'm_xpath': 0, 'm_constructionContext': 0, 'm_expression': 0, 'm_prefixResolver': 0,
                                                     'm_requireLiterals': 0, 'm_isMatchPattern': 0, 'm_positionPredicateStack': Vec([]), 'm_namespaces': Vec([]), 'm_locator': 0,
                                                     'm_allowVariableReferences': 1, 'm_allowKeyFunction': 1})
            ptxt = ' '.join(toks)
            w.calls = 0
            w.pending = list(toks)
            try:
                m = OMachine(w, {}, parser)
                m.fuel = 20000
                m.run_body(init, [xp, 'CCTX', ptxt, 'RES', 0, 1, 1], parser)
            except Reject as x:
                raise AnalysisBroken('the pattern parser rejects the valid pattern "%s" (%s)' % (ptxt, x))
            except Fault as f:
                viol.append(('compiling ' + ptxt, 'the pattern parser misbehaves: %s' % f, common.file_line(init))); continue
            except Unsupported as u:
                raise AnalysisBroken('pattern compilation outside the interpreted subset on "%s": %s' % (ptxt, u))
            for nd in nodes:
                cnt['checks'] += 1
                w.calls = 0
                if w is wexpr:
                    w.cnl = [c02_expr.XO('nodeset', [nd])]; w.current = nd
                try:
                    mm = OMachine(w, {}, xp)
                    mm.fuel = 20000
                    score = mm.run_body(gms, [nd, 'ECTX'], xp)
                    got = score != NONE
                except Fault as f:
                    got = 'FAULT: %s' % f
                except Reject as x:
                    got = 'ERROR: %s' % x
                except Unsupported as u:
                    raise AnalysisBroken('matching outside the interpreted subset on "%s" against %s: %s' % (ptxt, nd.name, u))
                want = ref_match(toks, nd)
                if got is want:
                    cnt['n'] += 1
                    continue
                if isinstance(got, bool) and got == known_model(toks, nd):
                    fam = ("inner '//': no backtracking - the nearest ancestor that passes the node test is final" if want else
                           "rooted pattern with '//': the first step need not be the document element")
                    if fam not in families:
                        families[fam] = (ptxt, nd.name, got, want)
                    cnt['n'] += 1
                    continue
                lead, steps = split(toks)
                shape = (lead or 'rel') + ' ' + ' '.join((s or '') + ('@' if st[0] == '@' else ('t' if st[0] in ('text', 'node') else ('id()' if st[0] in ('id', 'key') else 'n'))) + ('[i]' if '[' in st else '') for s, st in steps)
                key = (shape, bool(want))
                if key not in found:
                    found[key] = (ptxt, nd.name, got, want)
                cnt['n'] += 1
        return cnt, found, families, viol
    from ..report import fork_map
    nparts = 8 if tier == 'thorough' else 4
    found, families = {}, {}
    n_checks = 0
    for cnt, fnd, fam, viol in fork_map(work, [uniq[i::nparts] for i in range(nparts)]):
        r.instances += cnt['n']
        n_checks += cnt['checks']
        for site, what, loc in viol:
            r.violation(site, what, loc)
        for k2, v in fnd.items():
            found.setdefault(k2, v)
        for k2, v in fam.items():
            families.setdefault(k2, v)
    for (shape, want), (ptxt, nd, got, _) in sorted(found.items()):
        r.instances -= 1
        r.violation('pattern shape %s: %s' % (shape, 'does not match a node it selects' if want else 'matches a node it does not select'),
                    'match="%s" against %s: the matcher says %s; by XSLT 1.0 5.2 the node %s' % (ptxt.replace(' ', ''), nd, got, 'matches' if want else 'does not match'),
                    common.file_line(gms))
    for fam, (ptxt, nd, got, want) in sorted(families.items()):
        r.instances -= 1
        r.violation(fam, 'e.g. match="%s" against %s: the matcher says %s; by XSLT 1.0 5.2 the node %s' % (ptxt.replace(' ', ''), nd, got, 'matches' if want else 'does not match'),
                    common.file_line(gms))
    r.note('%d patterns x %d nodes' % (len(seen), len(nodes)))
    return r
